"""C03 - no peer input can crash or wedge the speaker.

Implementation side: every message type is decoded by the REAL decoder the way the property's observe_at says:
`Message.unpack(type, body, negotiated)`, then every lazy part is forced (Update.data, NLRIs, attributes, the API
encoders), under several negotiated parameter sets, and whole framed messages are read through the real
`Protocol.read_message` on a scripted socket (adj-rib-in on/off, API consumers on/off).
Oracle (independent of the code): decoded, or Notify with a (code, subcode) the RFCs define; nothing else; valid
messages are never refused; decode time grows linearly; no RecursionError.
Model side: Model_Robust (UPDATE section split, attribute TLV walk with steps/depth, IPv4 NLRI walk, the fixed parts
of OPEN / NOTIFICATION / ROUTE-REFRESH / KEEPALIVE / OPERATIONAL) evaluated by vm_compute on the same bodies."""

from __future__ import annotations

import collections
import random
import struct
import sys
import time

from harness import common
from harness.common import Run, zbytes

MARKER = bytes([0xFF] * 16)
TYPE_NAME = {1: 'OPEN', 2: 'UPDATE', 3: 'NOTIFICATION', 4: 'KEEPALIVE', 5: 'REFRESH', 6: 'OPERATIONAL'}


def tname(ty):
    return TYPE_NAME.get(ty, f'TYPE{ty}')


# ------------------------------------------------------------------------------- the RFC table (not from the code)

# (code, subcode) pairs a NOTIFICATION may carry.  Sources: RFC 4271 4.5 and 6.1-6.8 (subcode 0 "Unspecific" is what
# 4.5 prescribes when no subcode fits, for every code), RFC 5492 (2/7), RFC 6608 (5/1-3), RFC 4486 + RFC 8538 +
# RFC 9384 (6/1-10), RFC 7313 (7/1; the IANA registry has no other ROUTE-REFRESH subcode), RFC 7606 (reuses 3/x).
RFC_CODES = {
    1: {0, 1, 2, 3},
    2: {0, 1, 2, 3, 4, 5, 6, 7},
    3: {0, 1, 2, 3, 4, 5, 6, 7, 8, 9, 10, 11},
    4: {0},
    5: {0, 1, 2, 3},
    6: {0, 1, 2, 3, 4, 5, 6, 7, 8, 9, 10},
    7: {0, 1},
}
# what a decoder of each message type may answer with (the error code must be about that message or its header)
CODES_FOR_TYPE = {1: {1, 2}, 2: {1, 3}, 3: set(), 4: {1}, 5: {1, 7}, 6: {1, 5}}


def defined_code(code, sub):
    return sub in RFC_CODES.get(code, ())


# ------------------------------------------------------------------------------- negotiated parameter sets

CONF = """
neighbor 127.0.0.1 {{
  router-id 1.2.3.4;
  local-address 127.0.0.2;
  local-as {las};
  peer-as {pas};
  adj-rib-in {ribin};
  capability {{ asn4 {asn4}; operational enable; route-refresh enable; add-path {ap}; extended-message {ext}; {extra} }}
  family {{ {fam} }}
  {block}
}}
"""
FEW = 'ipv4 unicast; ipv6 unicast;'
CTX_SPEC = {
    # name: (asn4, add-path, extended-message, families, extra capability text)
    # aigp / extended next hop are session options that gate value decoders: two sets enable them, the others do not
    'as4-all': ('enable', 'disable', 'disable', 'all;', 'aigp enable; nexthop enable;'),
    'as2-few': ('disable', 'disable', 'disable', FEW, ''),
    'ap-all': ('enable', 'send/receive', 'disable', 'all;', ''),
    'ext-all': ('enable', 'disable', 'enable', 'all;', 'aigp enable;'),
    'ext-ap-as2': ('disable', 'send/receive', 'enable', FEW, ''),
    'ms-few': ('enable', 'disable', 'disable', FEW, 'multi-session enable;'),
}


class Ctx:
    def __init__(self, name, ribin=True):
        from exabgp.configuration.configuration import Configuration
        from exabgp.configuration.check import _negotiated

        asn4, ap, ext, fam, extra = CTX_SPEC[name]
        block = 'nexthop { ipv4 unicast ipv6; ipv4 multicast ipv6; ipv4 mpls-vpn ipv6; ipv6 unicast ipv4; }' if 'nexthop enable' in extra else ''
        text = CONF.format(las=65000, pas=65001, ribin='true' if ribin else 'false', asn4=asn4, ap=ap, ext=ext, fam=fam, extra=extra, block=block)
        c = Configuration([text], text=True)
        if not c.reload():
            raise RuntimeError(f'harness configuration {name} refused: {getattr(c, "error", "")}')
        self.name = name
        self.neighbor = next(iter(c.neighbors.values()))
        self.neg = _negotiated(self.neighbor)[0]
        self.asn4 = bool(self.neg.asn4)
        self.msg_size = int(self.neg.msg_size)
        from exabgp.protocol.family import AFI, SAFI

        self.addpath = bool(self.neg.required(AFI.ipv4, SAFI.unicast))
        self.params = {'ctx': name, 'asn4': self.asn4, 'msg_size': self.msg_size, 'addpath_ipv4_unicast': self.addpath,
                       'families': 'all' if fam == 'all;' else 'ipv4+ipv6 unicast', 'aigp': bool(self.neg.aigp),
                       'extended_nexthop': len(self.neg.nexthop)}


_CTX = {}


def ctx(name):
    if name not in _CTX:
        _CTX[name] = Ctx(name)
    return _CTX[name]


_ENC = {}


def encoders():
    if not _ENC:
        from exabgp.reactor.api.response import Response
        from exabgp.version import json as jv, json_v4, text_v4

        _ENC['json6'] = Response.JSON(jv)
        _ENC['text6'] = Response.Text(jv)
        _ENC['json4'] = Response.V4.JSON(json_v4)
        _ENC['text4'] = Response.V4.Text(text_v4)
    return _ENC


def header_of(ty, body):
    return MARKER + struct.pack('!HB', 19 + len(body), ty)


# ------------------------------------------------------------------------------- forcing the lazy parts


def force(ty, msg, body, c, stage):
    """Touch everything a consumer of the decoded message touches.  `stage` is a one-element list naming where we are
    (for the failure signature).  Returns a short description of what was decoded."""
    neighbor, neg = c.neighbor, c.neg
    hdr = header_of(ty, body) if len(body) + 19 <= 65535 else b''
    enc = encoders()
    if ty == 2:
        if getattr(msg, 'IS_EOR', False):
            stage[0] = 'force-eor'
            for n in msg.nlris:
                str(n), n.extensive(), n.json()
            target, what = msg, 'eor'
        else:
            stage[0] = 'force-data'
            target = msg.data
            stage[0] = 'force-nlri'
            for r in target.announces:
                n = getattr(r, 'nlri', r)
                str(n), n.extensive(), n.json(), str(getattr(r, 'nexthop', ''))
                n.index()
            for n in target.withdraws:
                str(n), n.extensive(), n.json()
                n.index()
            stage[0] = 'force-attributes'
            attrs = target.attributes
            for code in list(attrs):
                a = attrs[code]
                str(a), repr(a)
            str(attrs), attrs.json(), attrs.index()
            what = f'update a{len(target.announces)} w{len(target.withdraws)} attrs{len(attrs)}'
        for name, e in enc.items():
            stage[0] = 'api-' + name
            e.update(neighbor, 'receive', target, hdr, body, neg)
            e.update(neighbor, 'receive', target, b'', b'', neg)
        return what
    if ty == 1:
        stage[0] = 'force-open'
        str(msg), int(msg.version), int(msg.asn), int(msg.hold_time), str(msg.router_id)
        for k, v in msg.capabilities.items():
            str(v)
            if hasattr(v, 'json'):
                v.json()
            if hasattr(v, 'extract_capability_bytes'):
                v.extract_capability_bytes()
        for name, e in enc.items():
            stage[0] = 'api-' + name
            e.open(neighbor, 'receive', msg, hdr, body, neg)
        return 'open'
    if ty == 3:
        stage[0] = 'force-notification'
        str(msg), msg.code, msg.subcode, msg.data, msg.raw_data
        for name, e in enc.items():
            stage[0] = 'api-' + name
            e.notification(neighbor, 'receive', msg, hdr, body, neg)
        return f'notification:{shutdown_class(msg)}'
    if ty == 4:
        str(msg)
        for name, e in enc.items():
            stage[0] = 'api-' + name
            e.keepalive(neighbor, 'receive', hdr, body, neg)
        return 'keepalive'
    if ty == 5:
        stage[0] = 'force-refresh'
        str(msg), msg.extensive(), int(msg.afi), int(msg.safi), int(msg.reserved)
        for name, e in enc.items():
            stage[0] = 'api-' + name
            e.refresh(neighbor, 'receive', msg, hdr, body, neg)
        return f'refresh:{int(msg.reserved)}'
    if ty == 6:
        stage[0] = 'force-operational'
        str(msg), msg.extensive()
        for name, e in enc.items():
            stage[0] = 'api-' + name
            e.operational(neighbor, 'receive', msg.category, msg, hdr, body, neg)
        return 'operational:%d' % {'advisory': 1, 'query': 2, 'counter': 3}.get(msg.category, 0)
    return 'other'


def shutdown_class(msg):
    """how Notification.data read the body (the classes of Model_Robust.dec_notification)"""
    if (msg.code, msg.subcode) not in ((6, 2), (6, 4)):
        return 0
    data = bytes(msg.data) if not isinstance(msg.data, str) else msg.data.encode()
    if not msg.raw_data:
        return 1
    if data == b'empty Shutdown Communication.':
        return 2
    if data.startswith(b'invalid Shutdown Communication (buffer underrun)'):
        return 3
    if data.startswith(b'invalid Shutdown Communication (too large)'):
        return 4
    return 5


def reset_caches():
    """The attribute-collection cache of the previous UPDATE is C19's subject; every observation starts without it."""
    from exabgp.bgp.message.update.attribute import AttributeCollection

    AttributeCollection.cached = None
    AttributeCollection.previous = b''


def observe(ty, body, c, view=True):
    """-> ('D', what) | ('N', code, sub, stage) | ('X', stage, exception class, text)
    view: hand the body over as a memoryview, which is what Connection.reader_async gives Protocol.read_message"""
    from exabgp.bgp.message import Message
    from exabgp.bgp.message.notification import Notify

    reset_caches()
    stage = ['unpack']
    try:
        msg = Message.unpack(ty, memoryview(bytes(body)) if view else bytes(body), c.neg)
        what = force(ty, msg, bytes(body), c, stage)
        return ('D', what)
    except Notify as exc:
        return ('N', int(exc.code), int(exc.subcode), stage[0])
    except RecursionError as exc:
        return ('X', stage[0], 'RecursionError', str(exc)[:80])
    except Exception as exc:  # noqa: BLE001 - this is the finding
        return ('X', stage[0], type(exc).__name__, str(exc)[:160])


# ------------------------------------------------------------------------------- OPEN: the negotiation that follows


def observe_negotiation(body, c):
    """What Protocol.read_open / Peer do with a decoded peer OPEN: Negotiated.sent/received/validate.
    -> ('D',) | ('N', code, sub) | ('X', stage, class, text) | None when the OPEN itself is refused"""
    from exabgp.bgp.message import Message
    from exabgp.bgp.message.direction import Direction
    from exabgp.bgp.message.notification import Notify
    from exabgp.bgp.message.open import Open, Version
    from exabgp.bgp.message.open.capability import Capabilities
    from exabgp.bgp.message.open.capability.negotiated import Negotiated

    neighbor = c.neighbor
    neg = Negotiated(neighbor, Direction.IN)
    try:
        peer = Message.unpack(1, bytes(body), neg)
    except Exception:  # noqa: BLE001 - judged by observe()
        return None
    ours = Open.make_open(Version(4), neighbor.session.local_as, neighbor.hold_time, neighbor.session.router_id,
                          Capabilities().new(neighbor, False))
    try:
        neg.sent(ours)
        neg.received(peer)
        err = neg.validate(neighbor)
        if err is not None:
            return ('N', int(err[0]), int(err[1]), 'negotiate')
        for e in encoders().values():
            e.negotiated(neighbor, neg)
        return ('D', 'negotiated')
    except Notify as exc:
        return ('N', int(exc.code), int(exc.subcode), 'negotiate')
    except Exception as exc:  # noqa: BLE001
        return ('X', 'negotiate', type(exc).__name__, str(exc)[:160])


# ------------------------------------------------------------------------------- Protocol.read_message


class Sink:
    """reactor.processes: the real Processes message methods writing to a list instead of a pipe"""

    def __init__(self):
        from exabgp.reactor.api.processes import Processes
        from exabgp.reactor.api.response import Response
        from exabgp.version import json as jv

        p = Processes.__new__(Processes)
        p.silence = False
        p._encoder = {'svc': Response.JSON(jv)}
        self.lines = []
        p.write = lambda process, string, peer=None: self.lines.append(string) or True
        self.p = p


_PROTO = {}


def protocol_for(ctx_name, ribin, api):
    """A real Protocol whose neighbor/negotiated are those of the context; api: '' | 'parsed' | 'consolidate' | 'packets'"""
    key = (ctx_name, ribin, api)
    if key in _PROTO:
        return _PROTO[key]
    from exabgp.configuration.neighbor.api import ParseAPI
    from exabgp.reactor.protocol import Protocol

    c = Ctx(ctx_name, ribin=ribin)
    if api:
        recv = {'open': True, 'update': True, 'notification': True, 'keepalive': True, 'refresh': True, 'operational': True, api: True}
        c.neighbor.api = ParseAPI.flatten({'svc': {'processes': ['svc'], 'receive': recv}})
    else:
        c.neighbor.api = ParseAPI.flatten({})

    class Stats(dict):
        def __missing__(self, k):
            return 0

    class Reactor:
        pass

    class Peer:
        pass

    peer = Peer()
    peer.neighbor = c.neighbor
    peer.stats = Stats()
    peer.reactor = Reactor()
    sink = Sink()
    peer.reactor.processes = sink.p
    proto = Protocol(peer)
    proto.negotiated = c.neg
    _PROTO[key] = (proto, c, sink)
    return _PROTO[key]


def observe_read_message(ty, body, ctx_name, ribin, api):
    """One framed message through the real Protocol.read_message on a scripted socket.
    -> ('D', what) | ('N', code, sub, text) | ('RN', code, sub) received NOTIFICATION raised | ('X', 'read_message', class, text)"""
    from harness.c06 import FakeSock, FakeLoop, drive
    from exabgp.reactor.network import connection as connmod
    from exabgp.reactor.network.connection import Connection
    from exabgp.reactor.network.error import LostConnection
    from exabgp.bgp.message import Notify, Notification
    from exabgp.protocol.family import AFI

    proto, c, sink = protocol_for(ctx_name, ribin, api)
    reset_caches()
    del sink.lines[:]
    conn = Connection(AFI.ipv4, '127.0.0.1', '127.0.0.1')
    conn.msg_size = c.msg_size
    conn.defensive = False
    conn.io = FakeSock(header_of(ty, body) + bytes(body), [])
    proto.connection = conn
    saved = connmod.asyncio.get_event_loop
    connmod.asyncio.get_event_loop = lambda: FakeLoop()
    try:
        try:
            m = drive(proto.read_message())
            # what the caller (Peer / UpdateHandler) touches first
            if int(m.ID) == 2 and not getattr(m, 'SCHEDULING', 0) and hasattr(m, 'data'):
                m.data
            return ('D', type(m).__name__)
        except LostConnection:
            return ('D', 'lost')
        except Notify as n:
            return ('N', int(n.code), int(n.subcode), str(n.raw_data[:60]))
        except Notification as n:
            return ('RN', int(n.code), int(n.subcode))
        except RecursionError as exc:
            return ('X', 'read_message', 'RecursionError', str(exc)[:80])
        except Exception as exc:  # noqa: BLE001
            return ('X', 'read_message', type(exc).__name__, str(exc)[:160])
    finally:
        connmod.asyncio.get_event_loop = saved
        conn.io = None
        proto.connection = None


# ------------------------------------------------------------------------------- builders (wire format from the RFCs)


class B:
    """a message body under construction; remembers where its length / flag / type / mask octets are"""

    def __init__(self):
        self.b = bytearray()
        self.marks = []  # (offset, size, kind) kind in len flag type mask

    def mark(self, size, kind):
        self.marks.append((len(self.b), size, kind))

    def add(self, data, kind=None):
        if kind:
            self.mark(len(data), kind)
        self.b += data
        return self

    def merge(self, other):
        off = len(self.b)
        self.marks += [(o + off, s, k) for o, s, k in other.marks]
        self.b += other.b
        return self


def attr(flag, code, val, ext=None):
    """one path attribute (RFC 4271 4.3) -> B"""
    if ext is None or len(val) > 255:
        ext = len(val) > 255 or bool(ext)
    x = B()
    x.add(bytes([(flag | 0x10) if ext else (flag & 0xEF)]), 'flag').add(bytes([code]), 'type')
    x.add(struct.pack('!H', len(val)) if ext else bytes([len(val)]), 'len')
    x.add(val)
    return x


def update(attrs=(), wd=(), nlri=()):
    """UPDATE body from lists of B (attributes) and of B (prefixes) -> B"""
    w, a, n = B(), B(), B()
    for p in wd:
        w.merge(p)
    for p in attrs:
        a.merge(p)
    for p in nlri:
        n.merge(p)
    x = B()
    x.add(struct.pack('!H', len(w.b)), 'len').merge(w)
    x.add(struct.pack('!H', len(a.b)), 'len').merge(a)
    x.merge(n)
    return x


def prefix4(rng, addpath, mask=None):
    mask = rng.choice([0, 8, 16, 24, 24, 24, 25, 32, rng.randint(0, 32)]) if mask is None else mask
    x = B()
    if addpath:
        x.add(struct.pack('!L', rng.choice([0, 1, 2, 0xFFFFFFFF, rng.getrandbits(32)])))
    x.add(bytes([mask]), 'mask')
    nb = (mask + 7) // 8
    raw = bytearray(rng.getrandbits(8) for _ in range(nb))
    if nb and mask % 8:
        raw[-1] &= (0xFF << (8 - mask % 8)) & 0xFF
    x.add(bytes(raw))
    return x


def prefix6(rng, addpath):
    mask = rng.choice([0, 32, 48, 64, 64, 128, rng.randint(0, 128)])
    x = B()
    if addpath:
        x.add(struct.pack('!L', rng.getrandbits(32)))
    x.add(bytes([mask]), 'mask')
    nb = (mask + 7) // 8
    raw = bytearray(rng.getrandbits(8) for _ in range(nb))
    if nb and mask % 8:
        raw[-1] &= (0xFF << (8 - mask % 8)) & 0xFF
    x.add(bytes(raw))
    return x


def asn_bytes(a, asn4):
    return struct.pack('!L', a) if asn4 else struct.pack('!H', a)


def as_path_value(rng, asn4, big=False, count=None):
    segs = b''
    for _ in range(rng.choice([1, 1, 2, 3]) if count is None else 1):
        n = rng.choice([1, 2, 5, 255 if big else 3]) if count is None else count
        asns = [rng.choice([1, 64512, 65535, 23456] + ([65536, 4200000000, 4294967295] if asn4 else [])) for _ in range(n)]
        segs += bytes([rng.choice([2, 2, 2, 1]), n]) + b''.join(asn_bytes(a, asn4) for a in asns)
    return segs


def mandatory(rng, c, nh=True):
    out = [attr(0x40, 1, bytes([rng.randrange(3)])), attr(0x40, 2, as_path_value(rng, c.asn4))]
    if nh:
        out.append(attr(0x40, 3, bytes([10, 0, 0, rng.randint(1, 254)])))
    return out


def optional_known(rng, c, code):
    """a well-formed value for a recognised attribute, as its RFC defines it -> B"""
    ap6 = False
    try:
        from exabgp.protocol.family import AFI, SAFI

        ap6 = bool(c.neg.required(AFI.ipv6, SAFI.unicast))
    except Exception:  # noqa: BLE001
        pass
    if code == 4:
        return attr(0x80, 4, struct.pack('!L', rng.choice([0, 1, 0xFFFFFFFF, rng.getrandbits(32)])))
    if code == 5:
        return attr(0x40, 5, struct.pack('!L', rng.choice([0, 100, 0xFFFFFFFF])))
    if code == 6:
        return attr(0x40, 6, b'')
    if code == 7:
        return attr(0xC0, 7, asn_bytes(rng.choice([1, 65535] + ([4200000000] if c.asn4 else [])), c.asn4) + bytes([192, 0, 2, 1]))
    if code == 8:
        k = rng.choice([1, 2, 10, 63, 64, 200])
        return attr(0xC0, 8, b''.join(struct.pack('!HH', rng.getrandbits(16), rng.getrandbits(16)) for _ in range(k)))
    if code == 9:
        return attr(0x80, 9, bytes([192, 0, 2, 9]))
    if code == 10:
        k = rng.choice([1, 2, 20])
        return attr(0x80, 10, bytes(rng.getrandbits(8) for _ in range(4 * k)))
    if code == 14:
        k = rng.choice([1, 3, 40])
        nl = b''.join(bytes(prefix6(rng, ap6).b) for _ in range(k))
        return attr(0x80, 14, struct.pack('!HBB', 2, 1, 16) + bytes([0x20, 1, 0xd, 0xb8] + [0] * 11 + [1]) + b'\x00' + nl)
    if code == 15:
        k = rng.choice([1, 3, 40])
        nl = b''.join(bytes(prefix6(rng, ap6).b) for _ in range(k))
        return attr(0x80, 15, struct.pack('!HB', 2, 1) + nl)
    if code == 16:
        k = rng.choice([1, 2, 30])
        return attr(0xC0, 16, b''.join(bytes([rng.choice([0x00, 0x01, 0x02, 0x03, 0x40, 0x43, 0x80]), rng.choice([2, 3, 0x0b, 6])])
                                       + bytes(rng.getrandbits(8) for _ in range(6)) for _ in range(k)))
    if code == 18:
        return attr(0xC0, 18, struct.pack('!L', 4200000000) + bytes([192, 0, 2, 1]))
    if code == 32:
        k = rng.choice([1, 2, 20])
        return attr(0xC0, 32, bytes(rng.getrandbits(8) for _ in range(12 * k)))
    raise ValueError(code)


KNOWN_OPTIONAL = [4, 5, 6, 7, 8, 9, 10, 14, 15, 16, 18, 32]
REGISTERED_FLAG = {1: 0x40, 2: 0x40, 3: 0x40, 4: 0x80, 5: 0x40, 6: 0x40, 7: 0xC0, 8: 0xC0, 9: 0x80, 10: 0x80, 14: 0x80, 15: 0x80,
                   16: 0xC0, 17: 0xC0, 18: 0xC0, 22: 0xC0, 23: 0xC0, 25: 0xC0, 26: 0x80, 29: 0x80, 32: 0xC0, 40: 0xC0}


def registered_codes():
    from exabgp.bgp.message.update.attribute.attribute import Attribute

    return sorted({aid for aid, _ in Attribute.registered_attributes})


def unknown_codes():
    reg = set(registered_codes())
    return [c for c in range(256) if c not in reg]


def unknown_attr(rng, codes, vlen=None, transitive=None):
    code = rng.choice(codes)
    tr = rng.random() < 0.3 if transitive is None else transitive
    flag = 0x80 | (0x40 if tr else 0) | (0x20 if tr and rng.random() < 0.5 else 0)
    vlen = rng.choice([0, 0, 1, 4, 16, 255, 256, 300]) if vlen is None else vlen
    return attr(flag, code, bytes(rng.getrandbits(8) for _ in range(vlen)))


# ------------------------------------------------------------------------------- OPEN builders


def cap_tlv(code, val):
    x = B()
    x.add(bytes([code]), 'type').add(bytes([len(val)]), 'len').add(val)
    return x


def open_body(rng, caps, style='one-per-param', asn=65001, hold=180, rid=b'\x0a\x00\x00\x02'):
    """OPEN body (RFC 4271 4.2, RFC 5492, RFC 9072). caps: list of B (capability TLVs).
    style: one-per-param | one-param (all capabilities in one parameter) | extended (RFC 9072)"""
    params = B()
    if style == 'one-param':
        inner = B()
        for c in caps:
            inner.merge(c)
        if inner.b:
            params.add(bytes([2]), 'type').add(bytes([len(inner.b)]), 'len').merge(inner)
    elif style == 'extended':
        for c in caps:
            params.add(bytes([2]), 'type').add(struct.pack('!H', len(c.b)), 'len').merge(c)
    else:
        for c in caps:
            params.add(bytes([2]), 'type').add(bytes([len(c.b)]), 'len').merge(c)
    x = B()
    x.add(bytes([4]), 'type').add(struct.pack('!H', asn)).add(struct.pack('!H', hold)).add(rid)
    if style == 'extended':
        x.add(bytes([255])).add(bytes([255]), 'type').add(struct.pack('!H', len(params.b)), 'len').merge(params)
    else:
        x.add(bytes([len(params.b)]), 'len').merge(params)
    return x


def valid_caps(rng):
    """every capability ExaBGP knows with a well-formed value, plus unassigned codes -> list of (name, B)"""
    fams = [(1, 1), (1, 2), (1, 4), (1, 128), (1, 133), (2, 1), (2, 128), (25, 65), (25, 70), (16388, 71), (1, 73), (2, 73)]
    out = []
    for afi, safi in rng.sample(fams, rng.choice([1, 2, 4, len(fams)])):
        out.append(('mp', cap_tlv(1, struct.pack('!HBB', afi, 0, safi))))
    out.append(('refresh', cap_tlv(2, b'')))
    out.append(('ext-nexthop', cap_tlv(5, b''.join(struct.pack('!HHH', 1, s, 2) for s in (1, 4, 128)))))
    out.append(('ext-message', cap_tlv(6, b'')))
    out.append(('graceful', cap_tlv(64, struct.pack('!H', 0x8000 | 120) + b''.join(struct.pack('!HBB', a, s, 0x80) for a, s in fams[:3]))))
    out.append(('graceful-empty', cap_tlv(64, struct.pack('!H', 120))))
    out.append(('asn4', cap_tlv(65, struct.pack('!L', rng.choice([65001, 4200000001])))))
    out.append(('add-path', cap_tlv(69, b''.join(struct.pack('!HBB', a, s, rng.choice([1, 2, 3])) for a, s in fams[:4]))))
    out.append(('enhanced-refresh', cap_tlv(70, b'')))
    out.append(('hostname', cap_tlv(73, bytes([4]) + b'host' + bytes([7]) + b'example')))
    out.append(('software', cap_tlv(75, bytes([6]) + b'v1.2.3')))
    out.append(('paths-limit', cap_tlv(76, b''.join(struct.pack('!HBH', a, s, 10) for a, s in fams[:2]))))
    out.append(('link-local', cap_tlv(77, b'')))
    out.append(('multisession', cap_tlv(0x44, b'')))
    out.append(('refresh-cisco', cap_tlv(128, b'')))
    out.append(('multisession-cisco', cap_tlv(131, b'')))
    out.append(('operational', cap_tlv(0xB9, b'')))
    for code in rng.sample([3, 4, 7, 8, 9, 66, 67, 71, 72, 74, 100, 127, 129, 200, 254, 255, 0], 5):
        out.append((f'unknown-{code}', cap_tlv(code, bytes(rng.getrandbits(8) for _ in range(rng.choice([0, 1, 4, 30]))))))
    return out


# ------------------------------------------------------------------------------- case generation


def mk(ty, body, ctxn, klass, what, marks=None, model=False, **kw):
    d = {'ty': ty, 'body': bytes(body), 'ctx': ctxn, 'klass': klass, 'what': what, 'marks': marks or [], 'model': model}
    d.update(kw)
    return d


CTXS = ['as4-all', 'as2-few', 'ap-all', 'ext-all', 'ext-ap-as2']
BASIC = [1, 4, 5, 6, 9]  # the attribute codes Model_Robust.vdec_basic decodes


def gen_valid(rng, tier):
    """valid, unusual messages of every type (each must be decoded)"""
    cases = []
    unk = unknown_codes()
    scale = 1 if tier == 'quick' else 6
    # --- UPDATE: unknown optional attributes, 1..4000 of them, within the negotiated size
    for ctxn in CTXS:
        c = ctx(ctxn)
        room = c.msg_size - 19 - 4
        counts = [1, 2, 3, 10, 100, 300, 332, 333, 334, 500, 900, 1000, 1200, room // 3]
        if c.msg_size > 4096:
            counts += [2000, 4000, 10000, room // 3]
        for n in sorted(set(counts)):
            if 3 * n > room:
                continue
            code = rng.choice(unk)
            blk = bytes([0x80, code, 0]) * n
            body = update([B().add(blk)]).b
            cases.append(mk(2, body, ctxn, 'valid', 'unknown-optional-attributes', model=True, n=n, shape='unk3', code=code))
        # the same after the mandatory attributes and with routes
        for n in (50, 400, 1100):
            if 3 * n + 60 > room:
                continue
            attrs = mandatory(rng, c) + [unknown_attr(rng, unk, 0, False) for _ in range(n)]
            nl = [prefix4(rng, c.addpath) for _ in range(3)]
            cases.append(mk(2, update(attrs, nlri=nl).b, ctxn, 'valid', 'routes-with-unknown-optional-attributes', n=n))
        # distinct codes, transitive or not, values of every size
        for _ in range(6 * scale):
            k = rng.choice([1, 5, 30, 100])
            attrs = mandatory(rng, c) + [unknown_attr(rng, unk) for _ in range(k)]
            x = update(attrs, nlri=[prefix4(rng, c.addpath)])
            if len(x.b) <= room + 4:
                cases.append(mk(2, x.b, ctxn, 'valid', 'mixed-unknown-optional-attributes', x.marks))
        # one unknown attribute filling the message (extended length)
        cases.append(mk(2, update([attr(0xC0, rng.choice(unk), bytes(room - 4), True)]).b, ctxn, 'valid', 'maximal-size-unknown-attribute'))
        # --- many NLRIs
        for n, mask in ((1, 24), (100, 24), (1000, 24), (room - 100, 0), ((room - 60) // 5, 32), (10000, 24), (60000, 0)):
            size = (n * (1 + (mask + 7) // 8 + (4 if c.addpath else 0)))
            if size + 40 > room or n <= 0:
                continue
            nl = [prefix4(rng, c.addpath, mask) for _ in range(n)]
            cases.append(mk(2, update(mandatory(rng, c), nlri=nl).b, ctxn, 'valid', 'many-nlri', n=n))
            cases.append(mk(2, update([], wd=nl).b, ctxn, 'valid', 'many-withdrawn', n=n, model=(n <= 1000)))
        # maximal size exactly: withdrawn routes fill the message
        per = 4 + (4 if c.addpath else 0)
        n = room // per
        pad = room - n * per
        nl = [prefix4(rng, c.addpath, 24) for _ in range(n - (1 if pad else 0))]
        x = update([], wd=nl)
        cases.append(mk(2, x.b, ctxn, 'valid', 'maximal-size-withdraw', n=n, model=(c.msg_size == 4096)))
        # --- every recognised attribute with a well-formed value, alone and together
        for _ in range(10 * scale):
            opt = rng.sample(KNOWN_OPTIONAL, rng.choice([1, 2, 4, len(KNOWN_OPTIONAL)]))
            attrs = mandatory(rng, c) + [optional_known(rng, c, k) for k in sorted(opt)]
            if not c.asn4 and rng.random() < 0.5:
                # RFC 6793: an OLD speaker's peer may carry 4-octet AS numbers in AS4_PATH, AS_TRANS in AS_PATH
                k = rng.choice([1, 2, 3])
                asp = bytes([2, k]) + b''.join(struct.pack('!H', 23456) for _ in range(k))
                as4 = bytes([2, k]) + b''.join(struct.pack('!L', rng.choice([65536, 4200000000])) for _ in range(k))
                attrs = [attr(0x40, 1, b'\x00'), attr(0x40, 2, asp), attr(0x40, 3, bytes([10, 0, 0, 1])), attr(0xC0, 17, as4)] + attrs[3:]
            rng.shuffle(attrs)
            x = update(attrs, nlri=[prefix4(rng, c.addpath) for _ in range(rng.choice([0, 1, 5]))],
                       wd=[prefix4(rng, c.addpath) for _ in range(rng.choice([0, 0, 2]))])
            cases.append(mk(2, x.b, ctxn, 'valid', 'recognised-attributes', x.marks))
        # long AS_PATH (255 ASNs per segment, several segments), communities filling the message
        asp = b''.join(bytes([2, 255]) + b''.join(asn_bytes(65000, c.asn4) for _ in range(255)) for _ in range(3))
        cases.append(mk(2, update([attr(0x40, 1, b'\x00'), attr(0x40, 2, asp), attr(0x40, 3, bytes([10, 0, 0, 1]))], nlri=[prefix4(rng, c.addpath)]).b,
                        ctxn, 'valid', 'long-as-path'))
        k = (room - 100) // 4
        cases.append(mk(2, update(mandatory(rng, c) + [attr(0xC0, 8, struct.pack('!HH', 65000, 1) * k)], nlri=[prefix4(rng, c.addpath)]).b,
                        ctxn, 'valid', 'many-communities', n=k))
        # End-of-RIB markers
        cases.append(mk(2, bytes(4), ctxn, 'valid', 'eor-ipv4', model=True))
        for afi, safi in [(int(a), int(s)) for a, s in c.neg.families if (int(a), int(s)) != (1, 1)][:12]:
            cases.append(mk(2, update([attr(0x80, 15, struct.pack('!HB', afi, safi))]).b, ctxn, 'valid', 'eor-mp'))
        # --- model domain: the five fixed-size attributes and unknown ones, with routes
        for _ in range(25 * scale):
            attrs = []
            for code in rng.sample(BASIC, rng.choice([1, 2, 5])):
                val = {1: bytes([rng.randrange(3)]), 4: bytes(4), 5: bytes([0, 0, 0, 100]), 6: b'', 9: bytes([1, 2, 3, 4])}[code]
                attrs.append(attr(REGISTERED_FLAG[code], code, val, ext=rng.random() < 0.2))
            attrs += [unknown_attr(rng, unk) for _ in range(rng.choice([0, 1, 3]))]
            rng.shuffle(attrs)
            x = update(attrs, nlri=[prefix4(rng, c.addpath) for _ in range(rng.choice([0, 1, 4]))],
                       wd=[prefix4(rng, c.addpath) for _ in range(rng.choice([0, 0, 3]))])
            cases.append(mk(2, x.b, ctxn, 'valid-framing', 'basic-attributes', x.marks, model=True))
    # --- OPEN
    for i in range(12 * scale):
        caps = valid_caps(rng)
        rng.shuffle(caps)
        for style in ('one-per-param', 'one-param', 'extended'):
            sel = [b for _, b in caps]
            if style == 'one-per-param':
                while sum(len(b.b) + 2 for b in sel) > 255:
                    sel.pop()
            elif style == 'one-param':
                while sum(len(b.b) for b in sel) > 253:
                    sel.pop()
            x = open_body(rng, sel, style, asn=rng.choice([65001, 23456]), hold=rng.choice([0, 3, 180, 65535]))
            cases.append(mk(1, x.b, rng.choice(CTXS + ['ms-few']), 'valid', f'open-capabilities-{style}', x.marks, model=True))
    for style, n in (('one-per-param', 63), ('one-param', 126), ('extended', 300), ('extended', 1000)):
        # hundreds of capabilities: unknown codes without value, route-refresh repeated, multiprotocol repeated
        for kind in ('unknown', 'refresh', 'mp'):
            one = {'unknown': lambda: cap_tlv(rng.choice([99, 100, 200]), b''), 'refresh': lambda: cap_tlv(2, b''),
                   'mp': lambda: cap_tlv(1, struct.pack('!HBB', rng.choice([1, 2]), 0, rng.choice([1, 2, 4, 128])))}[kind]
            k = n if kind != 'mp' or style == 'extended' else n // 3
            x = open_body(rng, [one() for _ in range(k)], style)
            if len(x.b) <= 4096 - 19:
                cases.append(mk(1, x.b, 'as4-all', 'valid', f'open-{k}-{kind}-capabilities-{style}', x.marks, model=True, n=k))
    cases.append(mk(1, open_body(rng, []).b, 'as4-all', 'valid', 'open-no-parameters', model=True))
    cases.append(mk(1, open_body(rng, [], 'extended').b, 'as4-all', 'valid', 'open-extended-no-parameters', model=True))
    big = open_body(rng, [cap_tlv(200, bytes(255)) for _ in range(15)], 'extended')
    cases.append(mk(1, big.b, 'as4-all', 'valid', 'open-maximal-extended', big.marks, model=True))
    # --- NOTIFICATION (never refused: RFC 4271 6.5)
    for code in range(0, 9):
        for sub in (0, 1, 2, 4, 8, 11, 255):
            data = rng.choice([b'', b'\x00', bytes(rng.getrandbits(8) for _ in range(rng.choice([1, 2, 21, 200])))])
            cases.append(mk(3, bytes([code, sub]) + data, rng.choice(CTXS), 'valid', 'notification', model=True))
    for sub in (2, 4):
        for text in (b'', b'\x00', b'\x04shut', b'\x05shut', b'\x04shut-trailing', b'\x80' + bytes([65]) * 128, b'\x81' + bytes([65]) * 129,
                     b'\xff' + bytes([65]) * 255, b'\x02\xff\xfe', b'\x06\xe2\x82\xac\xe2\x82\xac', b'\x03a\nb', bytes([200]) + bytes(10)):
            cases.append(mk(3, bytes([6, sub]) + text, rng.choice(CTXS), 'valid', 'notification-shutdown', [(2, 1, 'len')], model=True))
    cases.append(mk(3, bytes([6, 2]) + bytes([128]) + bytes([66]) * (4096 - 19 - 3), 'as4-all', 'valid', 'notification-maximal', model=True))
    # --- KEEPALIVE
    cases.append(mk(4, b'', 'as4-all', 'valid', 'keepalive', model=True))
    # --- ROUTE-REFRESH: RFC 2918 (reserved octet ignored by the receiver), RFC 7313 (subtypes 1, 2; others ignored)
    for afi, safi in ((1, 1), (2, 1), (1, 128), (0, 0), (65535, 255), (25, 70)):
        for res in (0, 1, 2):
            cases.append(mk(5, struct.pack('!HBB', afi, res, safi), rng.choice(CTXS), 'valid', 'refresh', model=True))
    for res in (3, 99, 255):
        cases.append(mk(5, struct.pack('!HBB', 1, res, 1), 'as4-all', 'valid', 'refresh-unknown-subtype', model=True))
    # nothing above may exceed the negotiated message size (it would not be a valid message)
    cases += gen_families(rng, tier)
    return [x for x in cases if len(x['body']) + 19 <= ctx(x['ctx']).msg_size]


def gen_boundary(rng, tier):
    """every registered attribute with boundary lengths; OPERATIONAL; unknown types: decoded or refused with a
    defined code, nothing else (validity is not claimed)"""
    cases = []
    lens = [0, 1, 2, 3, 4, 5, 6, 7, 8, 9, 11, 12, 13, 16, 17, 20, 21, 24, 32, 33, 255, 256, 257]
    fam_heads = [struct.pack('!HB', a, s) for a in (1, 2, 25, 16388, 0, 999) for s in (1, 2, 4, 5, 65, 70, 71, 72, 73, 85, 128, 132, 133, 134, 0)]
    for code in registered_codes():
        for ln in lens:
            for variant in range(2 if tier == 'quick' else 6):
                ctxn = rng.choice(CTXS)
                c = ctx(ctxn)
                val = bytes(rng.getrandbits(8) for _ in range(ln))
                if variant % 2 and ln >= 3 and code in (14, 15, 29):
                    val = rng.choice(fam_heads) + val[3:]
                if variant % 2 and code in (14,) and ln >= 5:
                    nh = rng.choice([0, 4, 12, 16, 24, 32, ln - 5, 255])
                    val = val[:3] + bytes([nh]) + val[4:]
                flag = REGISTERED_FLAG.get(code, 0xC0)
                x = update(mandatory(rng, c) + [attr(flag, code, val, ext=(ln > 255) or rng.random() < 0.1)] if code > 3 else
                           [attr(flag, code, val, ext=(ln > 255))], nlri=[prefix4(rng, c.addpath)])
                cases.append(mk(2, x.b, ctxn, 'boundary', f'attribute-{code}-length-{ln}', x.marks, model=(code in BASIC)))
    # OPERATIONAL (draft): header and every registered subtype at its size boundaries
    for what in list(range(0, 16)) + [0xFFFE, 0xFFFF, 300]:
        for total in (0, 1, 3, 4, 5, 6, 7, 8, 11, 14, 15, 16, 18, 19, 20, 40):
            for dl in (-1, 0, 1, 'max'):
                if total < 4:
                    body = bytes(rng.getrandbits(8) for _ in range(total))
                else:
                    ln = 0xFFFF if dl == 'max' else max(0, total - 4 + dl)
                    body = struct.pack('!HH', what, ln) + bytes(rng.getrandbits(8) for _ in range(total - 4))
                cases.append(mk(6, body, rng.choice(CTXS), 'boundary', f'operational-{what}', [(2, 2, 'len')] if total >= 4 else [], model=True))
    big = struct.pack('!HH', 1, 4000) + struct.pack('!HB', 1, 1) + bytes([65]) * 3997
    cases.append(mk(6, big, 'as4-all', 'boundary', 'operational-advisory-maximal', model=True))
    # unknown message types: Bad Message Type whatever the body
    for ty in (0, 7, 8, 100, 127, 128, 200, 251, 252, 253, 254, 255):
        for n in (0, 1, 4, 30):
            cases.append(mk(ty, bytes(rng.getrandbits(8) for _ in range(n)), 'as4-all', 'boundary', 'unknown-type', model=True))
    # KEEPALIVE with a body, ROUTE-REFRESH of every other length
    for n in (1, 2, 4, 100):
        cases.append(mk(4, bytes(n), 'as4-all', 'boundary', 'keepalive-with-body', model=True))
    for n in (0, 1, 2, 3, 5, 8, 100):
        cases.append(mk(5, bytes(n), 'as4-all', 'boundary', 'refresh-length', model=True))
    return cases


def corrupt(rng, base, tier):
    """structured corruptions of one valid case -> list of cases"""
    out = []
    body, marks = base['body'], base['marks']
    if len(body) > 2000:
        return out

    def put(b, what):
        out.append(mk(base['ty'], b, base['ctx'], 'corrupt', what, model=base['model'], of=base['what']))

    lens = [m for m in marks if m[2] == 'len']
    if tier == 'quick' and len(lens) > 6:
        lens = rng.sample(lens, 6)
    for off, size, _ in lens:
        cur = int.from_bytes(body[off:off + size], 'big')
        top = (1 << (8 * size)) - 1
        for v in {max(cur - 1, 0), min(cur + 1, top), 0, top, cur ^ 0x80 if size == 1 else cur ^ 0x8000}:
            if v != cur:
                put(body[:off] + v.to_bytes(size, 'big') + body[off + size:], f'length@{off}={v}')
    others = [m for m in marks if m[2] in ('flag', 'type', 'mask')]
    if len(others) > (4 if tier == 'quick' else 40):
        others = rng.sample(others, 4 if tier == 'quick' else 40)
    for off, size, kind in others:
        bits = range(8) if tier != 'quick' else rng.sample(range(8), 3)
        for bit in bits:
            put(body[:off] + bytes([body[off] ^ (1 << bit)]) + body[off + 1:], f'{kind}@{off}^bit{bit}')
        if kind == 'mask':
            for v in (33, 129, 255):
                put(body[:off] + bytes([v]) + body[off + 1:], f'mask@{off}={v}')
    if len(body) <= 80:
        for cut in range(len(body)):
            put(body[:cut], f'truncated@{cut}')
    else:
        for cut in rng.sample(range(len(body)), 6):
            put(body[:cut], f'truncated@{cut}')
    for _ in range(3):
        if body:
            i = rng.randrange(len(body))
            put(body[:i] + body[i + 1:], f'deleted@{i}')
            put(body[:i] + bytes([rng.getrandbits(8)]) + body[i:], f'inserted@{i}')
            put(body[:i] + bytes([rng.getrandbits(8)]) + body[i + 1:], f'replaced@{i}')
    return out


def gen_random(rng, tier):
    cases = []
    n = 2500 if tier == 'quick' else 60000
    for _ in range(n):
        ty = rng.choice([1, 2, 2, 2, 3, 5, 6, 6, rng.randrange(256)])
        ln = rng.choice([0, 1, 2, 3, 4, 5, 8, 10, 11, 12, 16, 23, 40, 100, 300, rng.randint(0, 600)])
        body = bytes(rng.getrandbits(8) for _ in range(ln))
        style = rng.random()
        if ty == 2 and style < 0.5 and ln >= 4:
            # random bytes behind plausible section lengths
            la = rng.randint(0, ln - 4)
            body = b'\x00\x00' + struct.pack('!H', la) + body[4:]
        elif ty == 1 and style < 0.5 and ln >= 10:
            body = bytes([4]) + body[1:9] + bytes([min(ln - 10, 255)]) + body[10:]
        elif ty == 6 and style < 0.7 and ln >= 4:
            body = struct.pack('!HH', rng.randrange(12), ln - 4) + body[4:]
        cases.append(mk(ty, body, rng.choice(CTXS), 'random', 'random-bytes', model=(ty != 2 and ty != 1)))
    # random TLV soup for UPDATE in the model domain (basic + unknown codes, any flags, any lengths)
    unk = unknown_codes()
    for _ in range(600 if tier == 'quick' else 12000):
        ctxn = rng.choice(CTXS)
        parts = b''
        for _ in range(rng.choice([0, 1, 2, 3, 5, 8])):
            code = rng.choice(BASIC + BASIC + unk[:6] + [rng.choice(unk)])
            flag = rng.choice([0x40, 0x80, 0xC0, 0xE0, 0x50, 0x90, 0xD0, 0x00, rng.getrandbits(8)])
            vl = rng.choice([0, 0, 1, 1, 2, 3, 4, 4, 4, 5, 8])
            val = bytes(rng.choice([0, 1, 2, 3, rng.getrandbits(8)]) for _ in range(vl))
            dl = vl + rng.choice([0, 0, 0, 0, 1, -1, 3, 200])
            dl = max(0, dl)
            parts += bytes([flag, code]) + (struct.pack('!H', dl) if flag & 0x10 else bytes([dl & 0xFF])) + val
        wd = bytes(rng.choice([0, 8, 24, 32, 33, rng.getrandbits(8)]) for _ in range(rng.choice([0, 0, 0, 1, 2, 5])))
        nl = bytes(rng.choice([0, 8, 24, 32, 33, rng.getrandbits(8)]) for _ in range(rng.choice([0, 0, 1, 2, 5, 9])))
        body = struct.pack('!H', len(wd)) + wd + struct.pack('!H', len(parts)) + parts + nl
        if rng.random() < 0.15 and body:
            body = body[: rng.randrange(len(body))]
        cases.append(mk(2, body, ctxn, 'random', 'random-attribute-soup', model=True))
    return cases


def tlv_soup(rng, tsize, lsize, depth=0, budget=60):
    """random nested TLVs (type of tsize octets, length of lsize octets), lengths mostly consistent"""
    out = b''
    for _ in range(rng.choice([0, 1, 1, 2, 3, 6])):
        if depth < 2 and rng.random() < 0.3:
            val = tlv_soup(rng, rng.choice([1, 2]), rng.choice([1, 2]), depth + 1, budget // 2)
        else:
            val = bytes(rng.choice([0, 1, 2, 3, 4, 16, 32, 128, 255, rng.getrandbits(8)]) for _ in range(rng.choice([0, 1, 2, 3, 4, 6, 7, 8, 12, 16, 17, 20, 32, budget])))
        ty = rng.choice([0, 1, 2, 3, 4, 5, 6, 7, 8, 9, 10, 11, 12, 13, 14, 15, 256, 257, 258, 259, 263, 264, 265, 512, 513, 514, 515, 516, 517, 518,
                         1024, 1025, 1026, 1027, 1028, 1029, 1030, 1034, 1035, 1036, 1038, 1088, 1089, 1092, 1093, 1094, 1095, 1096, 1097,
                         1098, 1099, 1100, 1105, 1106, 1107, 1114, 1115, 1116, 1117, 1118, 1122, 1152, 1153, 1155, 1156, 1157, 1158, 1159,
                         1161, 1162, 1170, 1171, 1172, 1173, 1174, 1250, 1251, 1252, rng.getrandbits(16)]) & ((1 << (8 * tsize)) - 1)
        ln = len(val) + rng.choice([0, 0, 0, 0, 0, 0, 1, -1, 2, 200])
        ln = max(0, min(ln, (1 << (8 * lsize)) - 1))
        out += ty.to_bytes(tsize, 'big') + ln.to_bytes(lsize, 'big') + val
    return out


def nlri_soup(rng, safi):
    out = b''
    for _ in range(rng.choice([1, 1, 2, 3, 8])):
        kind = rng.random()
        if safi in (133, 134) and kind < 0.8:  # flowspec: length then components (type, operator/value bytes)
            comp = b''
            for _ in range(rng.choice([1, 2, 4])):
                t = rng.choice([1, 2, 3, 4, 5, 6, 7, 8, 9, 10, 11, 12, 13, 0, 14, 200])
                if t in (1, 2):
                    m = rng.choice([0, 8, 24, 32, 33, 64, 128, 129, 255])
                    comp += bytes([t, m]) + (bytes([rng.choice([0, 8, 64, 200])]) if rng.random() < 0.4 else b'') + bytes(rng.getrandbits(8) for _ in range(rng.choice([(m + 7) // 8, 0, 1, 3])))
                else:
                    for i in range(rng.choice([1, 2, 5])):
                        op = rng.choice([0x01, 0x81, 0x11, 0x91, 0x21, 0xA1, 0x31, 0xB1, 0x03, 0x83, 0x00, 0x80, 0xC0, rng.getrandbits(8)])
                        comp += (bytes([t]) if i == 0 else b'') + bytes([op]) + bytes(rng.getrandbits(8) for _ in range(rng.choice([1 << ((op >> 4) & 3), 0, 1])))
            ln = len(comp) + rng.choice([0, 0, 0, 1, -1])
            out += (bytes([max(0, ln)]) if ln < 240 else struct.pack('!H', 0xF000 | (ln & 0xFFF))) + comp
        elif safi in (70, 85, 5, 132) and kind < 0.8:  # route type, length, value
            val = bytes(rng.choice([0, 1, 32, 48, 128, rng.getrandbits(8)]) for _ in range(rng.choice([0, 1, 8, 9, 12, 17, 21, 23, 25, 33, 34, 35, 40, 60])))
            out += bytes([rng.choice([1, 2, 3, 4, 5, 6, 7, 8, 9, 10, 11, 0, 200]), max(0, len(val) + rng.choice([0, 0, 0, 1, -1]))]) + val
        elif safi in (71, 72) and kind < 0.8:  # BGP-LS NLRI: type(2) length(2) protocol-id identifier(8) descriptors
            val = bytes([rng.choice([1, 2, 3, 4, 5, 6, 7, 0, 200])]) + bytes(8) + tlv_soup(rng, 2, 2)
            out += struct.pack('!HH', rng.choice([1, 2, 3, 4, 6, 0, 99]), max(0, len(val) + rng.choice([0, 0, 0, 1, -1, 50]))) + val
        elif safi == 65 and kind < 0.8:  # VPLS: length(2) rd(8) ve(2) offset(2) size(2) base(3)
            val = bytes(rng.getrandbits(8) for _ in range(rng.choice([17, 17, 16, 18, 0, 5])))
            out += struct.pack('!H', max(0, len(val) + rng.choice([0, 0, 1, -1]))) + val
        else:  # (path-id) mask [labels] [rd] prefix
            m = rng.choice([0, 8, 24, 32, 33, 48, 56, 64, 88, 96, 112, 120, 128, 152, 184, 216, 255, rng.getrandbits(8)])
            body = bytes(rng.choice([0, 0, 1, 0x80, 0x10, rng.getrandbits(8)]) for _ in range(rng.choice([(m + 7) // 8, (m + 7) // 8, 0, 3, 4, 11, 12])))
            out += (struct.pack('!L', rng.getrandbits(32)) if rng.random() < 0.3 else b'') + bytes([m]) + body
    return out


def gen_deep(rng, tier):
    """UPDATEs whose MP attributes and structured optional attributes carry nested TLVs: decoded or refused, nothing else"""
    cases = []
    fams = [(1, 1), (1, 2), (1, 4), (1, 5), (1, 73), (1, 85), (1, 128), (1, 132), (1, 133), (1, 134), (2, 1), (2, 2), (2, 4), (2, 5), (2, 73), (2, 85),
            (2, 128), (2, 133), (2, 134), (25, 65), (25, 70), (16388, 71), (16388, 72), (1, 0), (3, 1), (25, 1)]
    n = 2500 if tier == 'quick' else 60000
    for _ in range(n):
        ctxn = rng.choice(CTXS)
        c = ctx(ctxn)
        attrs = mandatory(rng, c, nh=rng.random() < 0.5)
        which = rng.random()
        afi, safi = rng.choice(fams)
        if which < 0.45:
            nhl = rng.choice([0, 4, 12, 16, 24, 32, 48, 5, rng.getrandbits(8)])
            nh = bytes(rng.choice([0, 0xfe, 0x80, rng.getrandbits(8)]) for _ in range(rng.choice([nhl, nhl, nhl, max(0, nhl - 1)])))
            val = struct.pack('!HBB', afi, safi, nhl) + nh + bytes([rng.choice([0, 0, 0, 1, 3])]) + nlri_soup(rng, safi)
            attrs.append(attr(0x80, 14, val, ext=rng.random() < 0.3))
        elif which < 0.6:
            attrs.append(attr(0x80, 15, struct.pack('!HB', afi, safi) + nlri_soup(rng, safi)))
        elif which < 0.7:
            attrs.append(attr(0xC0, 40, tlv_soup(rng, 1, 2)))          # PREFIX_SID: type(1) length(2)
        elif which < 0.8:
            attrs.append(attr(0x80, 29, tlv_soup(rng, 2, 2)))          # BGP-LS attribute: type(2) length(2)
        elif which < 0.87:
            attrs.append(attr(0xC0, 23, tlv_soup(rng, 2, 2)))          # TUNNEL_ENCAP: type(2) length(2), sub-TLVs
        elif which < 0.92:
            attrs.append(attr(0xC0, 22, bytes([rng.getrandbits(8), rng.choice([0, 1, 2, 3, 4, 5, 6, 7, 200])]) + bytes(rng.getrandbits(8) for _ in range(rng.choice([0, 2, 3, 7, 11, 19, 23])))))
        elif which < 0.96:
            attrs.append(attr(0x80, 26, tlv_soup(rng, 1, 2)))          # AIGP: type(1) length(2)
        else:
            attrs.append(attr(0xC0, rng.choice([16, 25, 32, 8]), tlv_soup(rng, 1, 1)))
        if rng.random() < 0.2:
            attrs.append(optional_known(rng, c, rng.choice(KNOWN_OPTIONAL)))
        rng.shuffle(attrs)
        x = update(attrs, nlri=[prefix4(rng, c.addpath)] if rng.random() < 0.3 else [])
        cases.append(mk(2, x.b, ctxn, 'deep', f'nested-{afi}-{safi}' if which < 0.6 else 'nested-attribute'))
    return cases


# ------------------------------------------------------------------------------- model evaluation (vm_compute)

COQ_HEADER_BASE = """From Coq Require Import ZArith Bool List.
From ExaV Require Import gen.Gen_ParseShape model.Model_Robust model.Model_RobustInst.
From ExaV Require model.Model_Open model.Model_Update.
Import ListNotations. Open Scope Z_scope.
(* outcome of Capability.unpack: Model_Open.parse_cap (C07).  Host name (73) / software version (75) texts must be valid
   UTF-8, which Model_Open does not model: a value of these two with a non-ASCII octet is outside the model (99/99) *)
Definition capv (c : Z) (d : list Z) : option (Z * Z) :=
  if ((c =? 73) || (c =? 75)) && existsb (fun x => 127 <? x) d then Some (99, 99) else capv_open c d.
(* Attribute.unpack: Model_Update.unpack_value (C02/C08) and the AIGP walk; the four opaque decoders are outside the model *)
Definition vdec_h (s : ExaV.model.Model_Update.sess) (aigp_on : bool) : Z -> Z -> list Z -> vres :=
  vdec_full (fun _ _ => VOther K_UNMODELLED) s aigp_on.
Definition cls (ty : Z) (o : outcome) : Z * Z * Z :=
  match o with
  | Decoded t => (0, if (ty =? 3) || (ty =? 5) || (ty =? 6) then t else 0, 0)
  | Refused c s => if (c =? 99) && (s =? 99) then (3, 0, 0) else (1, c, s)
  | PyError k => if k =? K_UNMODELLED then (3, 0, 0) else (2, 0, 0)
  end.
Definition eq3 (a b : Z * Z * Z) : bool :=
  match a, b with (a1, a2, a3), (b1, b2, b3) => (a1 =? b1) && (a2 =? b2) && (a3 =? b3) end.
(* the routes inside MP_REACH / MP_UNREACH are decoded after the walk by the NLRI decoder of their family, which this
   model does not hold: a body that the model decodes and that carries an accepted MP attribute is not compared *)
Definition has_mp (vd : Z -> Z -> list Z -> vres) (b : list Z) : bool :=
  match split b with
  | SOk _ a _ => match w_out (walk vd a) with WOk seen _ => mem 14 seen || mem 15 seen | _ => false end
  | SRefused _ _ => false
  end.
Definition run (c : (ExaV.model.Model_Update.sess * bool) * Z * bool * nat * list Z) : Z * Z * Z :=
  match c with (sa, ty, ap, limit, body) =>
    let vd := vdec_h (fst sa) (snd sa) in
    let r := cls ty (dec_message vd capv ap limit ty body) in
    if (ty =? 2) && (fst (fst r) =? 0) && has_mp vd body then (3, 0, 0) else r end.
(* per case: 0 = same as the implementation, 1 = differs, 2 = outside the modelled value decoders *)
Definition verdict (ce : ((ExaV.model.Model_Update.sess * bool) * Z * bool * nat * list Z) * (Z * Z * Z)) : Z :=
  let r := run (fst ce) in
  if fst (fst r) =? 3 then 2 else if eq3 r (snd ce) then 0 else 1.
Definition unk3 (code : Z) (n : nat) : list Z :=
  let blk := concat (repeat [128; code; 0] n) in
  [0; 0; Z.of_nat (3 * n) / 256; Z.of_nat (3 * n) mod 256] ++ blk.
Definition shape (b : list Z) : Z * Z * Z :=
  let r := walk vdec_basic b in
  (Z.of_nat (w_steps r), Z.of_nat (w_depth r),
   match w_out r with WPyError _ => 1 | _ => 0 end).
"""


def coq_header():
    """the base header plus one session definition per negotiated parameter set (taken from the real Negotiated)"""
    lines = [COQ_HEADER_BASE]
    for name in CTX_SPEC:
        c = ctx(name)
        fams = '; '.join(f'({int(a)}, {int(s)})' for a, s in c.neg.families)
        from exabgp.protocol.family import AFI, SAFI  # noqa: F401

        aps = '; '.join(f'({int(a)}, {int(s)})' for a, s in c.neg.families if c.neg.required(a, s))
        ext = '; '.join(f'({int(a)}, {int(s)})' for a, s, _ in c.neg.nexthop)
        ident = 'sess_' + name.replace('-', '_')
        lines.append(f'Definition {ident} : ExaV.model.Model_Update.sess * bool := (ExaV.model.Model_Update.mkS '
                     f'{"true" if c.asn4 else "false"} [{fams}] [{aps}] [{ext}], {"true" if c.neg.aigp else "false"}).')
    return '\n'.join(lines) + '\n'


def impl_class(case, o):
    """the implementation's outcome as the model words it: (class, code|tag, sub)"""
    ty = case['ty']
    if o[0] == 'N' and o[3] == 'unpack':
        return (1, o[1], o[2])
    if o[0] == 'X' and o[1] == 'unpack':
        return (2, 0, 0)
    if o[0] == 'T':
        return (4, 0, 0)  # a decoder that does not come back agrees with no model outcome
    tag = 0
    if o[0] == 'D' and ty in (3, 5, 6) and ':' in o[1]:
        tag = int(o[1].split(':')[1])
    return (0, tag, 0)


def coq_body(case):
    if case.get('shape') == 'unk3':
        return f'(unk3 {case["code"]} (Z.to_nat {case["n"]}))'
    return zbytes(case['body'])


def model_limit(case, recursive):
    """stack frames the model is told are left: below what the harness really has for small blocks, the interpreter's
    recursion limit for large ones (only the side of the threshold matters; the band in between is not compared)"""
    return 1000 if case.get('n', 0) >= 1000 else 700


def evaluate_model(run, cases, outs, tag):
    """-> (ok, verdicts per case (0 same, 1 differs, 2 not modelled), logs)"""
    order = sorted(range(len(cases)), key=lambda i: -len(cases[i]['body']))
    shards, cur, size = [], [], 0
    for i in order:
        cur.append(i)
        size += (40 if cases[i].get('shape') == 'unk3' else len(cases[i]['body'])) + 12
        if size > 45000 or len(cur) >= 1500:
            shards.append(cur)
            cur, size = [], 0
    if cur:
        shards.append(cur)

    def defs(idx):
        items = []
        for i in idx:
            c = cases[i]
            e = impl_class(c, outs[i])
            ap = 'true' if ctx(c['ctx']).addpath else 'false'
            ident = 'sess_' + c['ctx'].replace('-', '_')
            items.append(f'(({ident}, {c["ty"]}, {ap}, (Z.to_nat {model_limit(c, None)}), {coq_body(c)}), ({e[0]}, {e[1]}, {e[2]}))')
        return ('Definition cases : list (((ExaV.model.Model_Update.sess * bool) * Z * bool * nat * list Z) * (Z * Z * Z)) := [' + ';\n'.join(items)
                + '].\nEval vm_compute in (map verdict cases).\n')

    res = common.eval_cases(coq_header(), defs, shards, tag, timeout=900)
    verdicts = [None] * len(cases)
    logs = []
    ok = True
    for shard, (rc, out, parsed) in zip(shards, res):
        if rc != 0 or not parsed:
            ok = False
            logs.append(out[-1500:])
            continue
        vals = [int(x) for x in __import__('re').findall(r'-?\d+', parsed[0])]
        if len(vals) != len(shard):
            ok = False
            logs.append(f'expected {len(shard)} verdicts, got {len(vals)}: {out[-500:]}')
            continue
        for i, v in zip(shard, vals):
            verdicts[i] = v
    return ok, verdicts, logs


class CallProbe:
    """counts the calls of AttributeCollection.parse and their deepest nesting (wrapper installed from outside)"""

    def __enter__(self):
        from exabgp.bgp.message.update.attribute import AttributeCollection

        self.k = AttributeCollection
        self.orig = AttributeCollection.parse
        self.calls = self.depth = self.max = 0
        probe = self
        orig = self.orig

        def parse(self_, data, negotiated):
            probe.calls += 1
            probe.depth += 1
            probe.max = max(probe.max, probe.depth)
            try:
                return orig(self_, data, negotiated)
            finally:
                probe.depth -= 1

        AttributeCollection.parse = parse
        return self

    def __exit__(self, *a):
        self.k.parse = self.orig


def shape_correspondence(run, blocks, recursive):
    """calls / depth of the real walk against w_steps / w_depth of the model on attribute blocks"""
    from exabgp.bgp.message.update.attribute import AttributeCollection
    from exabgp.bgp.message.notification import Notify

    c = ctx('as4-all')
    impl = []
    for blk in blocks:
        reset_caches()
        with CallProbe() as p:
            try:
                with Watchdog(10):
                    AttributeCollection().parse(bytes(blk), c.neg)
            except Notify:
                pass
            except (Exception, OutOfTime):  # noqa: BLE001 - judged elsewhere
                pass
        impl.append((p.calls, p.max))
    body = 'Definition blocks : list (list Z) := [' + ';\n'.join(zbytes(b) for b in blocks) + '].\nEval vm_compute in (map shape blocks).\n'
    rc, out = common.coq_eval_file(coq_header(), body, 'c03_shape', 600)
    if rc != 0:
        return False, [], out[-1500:]
    parsed = common.parse_eval(out)
    vals = [int(x) for x in __import__('re').findall(r'-?\d+', parsed[0])] if parsed else []
    if len(vals) != 3 * len(blocks):
        return False, [], f'expected {3 * len(blocks)} numbers, got {len(vals)}'
    bad = []
    for i, blk in enumerate(blocks):
        steps, depth, unmodelled = vals[3 * i: 3 * i + 3]
        if unmodelled:
            continue
        want = (steps if recursive else 1, depth)
        if impl[i] != want:
            bad.append({'block_hex': bytes(blk).hex()[:200], 'implementation_calls_depth': impl[i], 'model_steps_depth': (steps, depth)})
    return True, bad, ''


# ------------------------------------------------------------------------------- time against size


def timing_shapes(c):
    """message shapes whose size can be scaled: name -> f(size) -> body"""
    rng = random.Random(7)

    def attr_heavy(size):
        n = (size - 4) // 3
        return update([B().add(bytes([0x80, 0xFE, 0]) * n)]).b

    def attr_heavy_transitive(size):
        n = (size - 4) // 7
        return update([B().add(b''.join(bytes([0xC0, 100 + (i % 100), 4, 1, 2, 3, 4]) for i in range(n)))]).b

    def nlri_heavy(size):
        n = (size - 40) // 4
        return update(mandatory(rng, c), nlri=[B().add(bytes([24, 10, i >> 8 & 0xFF, i & 0xFF])) for i in range(n)]).b

    def withdraw_heavy(size):
        n = (size - 8) // 2
        return update([], wd=[B().add(bytes([8, i & 0xFF])) for i in range(n)]).b

    def community_heavy(size):
        n = (size - 60) // 4
        return update(mandatory(rng, c) + [attr(0xC0, 8, b''.join(struct.pack('!HH', 65000, i & 0xFFFF) for i in range(n)))], nlri=[B().add(bytes([8, 10]))]).b

    def aspath_heavy(size):
        segs = (size - 60) // (2 + 4 * 255)
        asp = b''.join(bytes([2, 255]) + struct.pack('!L', 65000) * 255 for _ in range(max(1, segs)))
        return update([attr(0x40, 1, b'\x00'), attr(0x40, 2, asp), attr(0x40, 3, bytes([10, 0, 0, 1]))], nlri=[B().add(bytes([8, 10]))]).b

    def mp_heavy(size):
        n = (size - 80) // 9
        nl = b''.join(bytes([64, 0x20, 1, 0xd, 0xb8, 0, 0, i >> 8 & 0xFF, i & 0xFF]) for i in range(n))
        val = struct.pack('!HBB', 2, 1, 16) + bytes([0x20, 1, 0xd, 0xb8] + [0] * 11 + [1]) + b'\x00' + nl
        return update(mandatory(rng, c, nh=False) + [attr(0x80, 14, val)]).b

    return {'attribute-heavy': attr_heavy, 'transitive-attribute-heavy': attr_heavy_transitive, 'nlri-heavy': nlri_heavy,
            'withdraw-heavy': withdraw_heavy, 'community-heavy': community_heavy, 'as-path-heavy': aspath_heavy, 'mp-nlri-heavy': mp_heavy}


def decode_time(body, c, reps):
    """best-of-reps wall time of Message.unpack + Update.data + one pass over the routes"""
    from exabgp.bgp.message import Message

    best = None
    for _ in range(reps):
        reset_caches()
        t0 = time.perf_counter()
        m = Message.unpack(2, body, c.neg)
        if not getattr(m, 'IS_EOR', False):
            d = m.data
            for r in d.announces:
                pass
            for r in d.withdraws:
                pass
            d.attributes.json()  # attribute values are parsed lazily: this is where a community list is walked
        dt = time.perf_counter() - t0
        best = dt if best is None or dt < best else best
    return best


def measure_time(tier):
    """-> (table, findings) table: shape -> {size: seconds}; a shape is super-linear when doubling the size from 16k
    to 32k to 64k multiplies the time by clearly more than two, twice in a row (best-of-N timings, generous margin)"""
    c = ctx('ext-all')
    sizes = [1000, 2000, 4000, 8000, 16000, 32000, 64000]
    reps = 5 if tier == 'quick' else 15
    table, findings = {}, []
    for name, f in timing_shapes(c).items():
        row = {}
        err = None
        for size in sizes:
            body = bytes(f(size))
            try:
                with Watchdog(60):
                    row[size] = decode_time(body, c, reps)
            except (Exception, OutOfTime) as exc:  # noqa: BLE001 - reported by the outcome oracle, not here
                err = f'{type(exc).__name__} at {len(body)} octets'
                break
        table[name] = {'seconds': {str(k): round(v, 6) for k, v in row.items()}, 'stopped': err}
        if err is None and row[64000] > 0.02:
            r1 = row[32000] / max(row[16000], 1e-9)
            r2 = row[64000] / max(row[32000], 1e-9)
            table[name]['ratio_32k_16k'] = round(r1, 2)
            table[name]['ratio_64k_32k'] = round(r2, 2)
            if r1 > 3.0 and r2 > 3.0:
                findings.append((name, row, r1, r2))
    return table, findings


# ------------------------------------------------------------------------------- oracle, shrinking, check


def exc_name(o):
    return o[2]


def judge(case, o):
    """the property on one observation -> (sig, what) or None"""
    T = tname(case['ty'])
    if o[0] == 'X':
        stage = o[1]
        sig = f'exception:{T}:{o[2]}' + ('' if stage == 'unpack' else f':{stage}')
        return sig, f'{T} body raises {o[2]} ({o[3]}) at stage {stage} instead of being decoded or refused with a NOTIFICATION'
    if o[0] == 'T':
        where = hang_where(case)
        return f'hang:{T}:{where}', f'the decoder of a {len(case["body"])} octet {T} ({where}) was still running after {o[1]} s: it loops'
    if o[0] == 'N':
        if not defined_code(o[1], o[2]):
            if case['klass'] == 'valid':
                return f'valid-refused:{case["what"]}', f'valid {T} ({case["what"]}) refused with NOTIFICATION {o[1]}/{o[2]}, a subcode no RFC defines'
            return f'undefined-notify:{T}:{o[1]}/{o[2]}', f'{T} body refused with NOTIFICATION {o[1]}/{o[2]}, which no RFC defines'
        if case['klass'] == 'valid':
            return f'valid-refused:{case["what"]}', f'valid {T} ({case["what"]}) refused with NOTIFICATION {o[1]}/{o[2]}'
    return None


def judge_read(case, o, ribin, api):
    """the property on what escapes Protocol.read_message -> (sig, what) or None"""
    T = tname(case['ty'])
    if o[0] == 'T':
        where = hang_where(case)
        return f'hang:{T}:{where}', f'Protocol.read_message was still decoding a {len(case["body"])} octet {T} ({where}) after {o[1]} s: it loops'
    if o[0] == 'X':
        return f'exception:{T}:{o[2]}:read_message', f'{o[2]} ({o[3]}) escapes Protocol.read_message for a {T}'
    if o[0] == 'N':
        if o[1:3] == (1, 0) and 'can not decode update message' in o[3]:
            inner = observe(case['ty'], case['body'], ctx(case['ctx']))
            cls = inner[2] if inner[0] == 'X' else 'unknown'
            return f'laundered-exception:{T}:{cls}', f'Protocol.read_message turned {cls} raised by the {T} decoder into NOTIFICATION 1/0'
        if not defined_code(o[1], o[2]):
            if case['klass'] == 'valid':
                return f'valid-refused:{case["what"]}', f'valid {T} ({case["what"]}) refused with NOTIFICATION {o[1]}/{o[2]} by Protocol.read_message'
            return f'undefined-notify:{T}:{o[1]}/{o[2]}', f'Protocol.read_message answers a {T} with NOTIFICATION {o[1]}/{o[2]}, which no RFC defines'
        if case['klass'] == 'valid':
            return f'valid-refused:{case["what"]}', f'valid {T} ({case["what"]}) refused with NOTIFICATION {o[1]}/{o[2]} by Protocol.read_message'
    return None


def walk_tlvs(block):
    """attribute TLVs of a well-framed block -> list of bytes, or None"""
    out, i = [], 0
    while i < len(block):
        if i + 3 > len(block):
            return None
        ext = block[i] & 0x10
        if ext and i + 4 > len(block):
            return None
        ln = int.from_bytes(block[i + 2:i + 4], 'big') if ext else block[i + 2]
        end = i + (4 if ext else 3) + ln
        if end > len(block):
            return None
        out.append(block[i:end])
        i = end
    return out


def shrink(case, sig, fails):
    """smaller case with the same signature: fewer repeated attributes, then whole sections / attributes dropped"""
    cur = dict(case)
    if case.get('shape') == 'unk3':
        lo, hi = 0, case['n']
        while hi - lo > 1:
            mid = (lo + hi) // 2
            body = bytes(update([B().add(bytes([0x80, case['code'], 0]) * mid)]).b)
            if fails(dict(case, body=body, n=mid)):
                hi = mid
            else:
                lo = mid
        # the exact threshold depends on how deep the caller's own stack is: keep a margin so that the replay fails
        # from any entry point (RecursionError is about n + frames-in-use > sys.getrecursionlimit())
        hi = min(hi + 100, case['n'])
        return dict(case, body=bytes(update([B().add(bytes([0x80, case['code'], 0]) * hi)]).b), n=hi)
    if case['ty'] != 2 or len(case['body']) < 4:
        return cur
    b = case['body']
    lw = int.from_bytes(b[0:2], 'big')
    if 4 + lw > len(b):
        return cur
    la = int.from_bytes(b[2 + lw:4 + lw], 'big')
    if 4 + lw + la > len(b):
        return cur
    wd, blk, nl = b[2:2 + lw], b[4 + lw:4 + lw + la], b[4 + lw + la:]
    tlvs = walk_tlvs(blk)
    if tlvs is None:
        return cur

    def build(wd, tlvs, nl):
        blk = b''.join(tlvs)
        return struct.pack('!H', len(wd)) + wd + struct.pack('!H', len(blk)) + blk + nl

    for cand in ((b'', tlvs, nl), (wd, tlvs, b''), (b'', tlvs, b'')):
        c2 = dict(cur, body=build(*cand))
        if len(c2['body']) < len(cur['body']) and fails(c2):
            cur, (wd, tlvs, nl) = c2, cand
    changed = True
    while changed and len(tlvs) > 1:
        changed = False
        for i in range(len(tlvs)):
            t2 = tlvs[:i] + tlvs[i + 1:]
            c2 = dict(cur, body=build(wd, t2, nl))
            if fails(c2):
                cur, tlvs, changed = c2, t2, True
                break
    return cur


def describe(case, o, entry='Message.unpack + forcing every lazy part', **kw):
    d = {
        'entry_point': entry,
        'message_type': case['ty'],
        'body_hex': case['body'].hex() if len(case['body']) <= 6000 else case['body'][:6000].hex() + '...',
        'body_octets': len(case['body']),
        'negotiated': ctx(case['ctx']).params,
        'generated_as': f'{case["klass"]}/{case["what"]}',
        'observed': list(o),
    }
    if case.get('n') is not None:
        d['repeat_count'] = case['n']
    for k in ('prefix_lengths', 'family', 'nexthop'):
        if case.get(k) is not None:
            d[k] = case[k]
    d.update(kw)
    return d


class OutOfTime(BaseException):
    """not an Exception: no handler inside a decoder (or in observe) can swallow it"""


class Watchdog:
    """a decode that does not end is a finding (`hang:`), not a hung check"""

    def __init__(self, seconds):
        self.seconds = seconds

    def __enter__(self):
        import signal

        def fire(signum, frame):
            raise OutOfTime()

        self.old = signal.signal(signal.SIGALRM, fire)
        signal.setitimer(signal.ITIMER_REAL, self.seconds)

    def __exit__(self, *a):
        import signal

        signal.setitimer(signal.ITIMER_REAL, 0)
        signal.signal(signal.SIGALRM, self.old)


HANGS = [0]


def budget(body):
    """seconds one observation may take.  An observation decodes the body AND renders every route through four API
    encoders, twice: about 10 s for the 65 000 routes of a 64k body on an idle core, several times that on a loaded
    machine.  A decoder that loops is caught by any finite budget, so the budget is generous in the size (hanging
    inputs are small).  Once hangs are being found the floor shrinks, so that a decoder that loops on a whole family
    of inputs costs minutes, not hours (every one is still reported)."""
    floor = 5.0 if HANGS[0] < 3 else 1.5 if HANGS[0] < 20 else 0.5
    return floor + len(body) / 100.0


def guarded(f, ty, body, *a):
    b = budget(body)
    try:
        with Watchdog(b):
            return f(ty, body, *a)
    except OutOfTime:
        HANGS[0] += 1
        return ('T', round(b, 1))


def guarded_neg(body, cx):
    b = budget(body)
    try:
        with Watchdog(b):
            return observe_negotiation(body, cx)
    except OutOfTime:
        return ('T', round(b, 1))


def hang_where(case):
    """which attribute / part of the message the decoder does not come back from: the first single attribute
    (or the section) that still hangs on its own"""
    if case['ty'] != 2:
        return 'body'
    b = case['body']
    try:
        lw = int.from_bytes(b[0:2], 'big')
        la = int.from_bytes(b[2 + lw:4 + lw], 'big')
        tlvs = walk_tlvs(b[4 + lw:4 + lw + la])
    except Exception:  # noqa: BLE001
        tlvs = None
    if not tlvs:
        return 'body'
    for t in tlvs:
        one = struct.pack('!H', 0) + struct.pack('!H', len(t)) + t
        if guarded(observe, 2, one, ctx(case['ctx']))[0] == 'T':
            return f'attribute-{t[1]}'
    return 'body'


def check(tier, seed):
    run = Run('C03', tier, seed)
    run.trusted = [
        'Coq 8.16.1 kernel (coqc), vm_compute for case evaluation; no native_compute',
        'translator translate/t12_parse_shape.py (python ast of AttributeCollection.parse: recursive or loop, header sizes, '
        'overrun test; reflection of the attribute / operational registries and size constants), fail-closed',
        'harness/c03.py: generators (wire formats written from the RFCs), the RFC table of defined (code, subcode), '
        'the forcing of lazy parts, the scripted socket under Protocol.read_message (harness/c06.py FakeSock/FakeLoop), '
        'the parse() call counter, best-of-N timings',
        'modelled, not verified: UpdateCollection.split, AttributeCollection.parse, INET.unpack_nlri (ipv4 unicast), '
        'Open.unpack_message / Capabilities.unpack framing, Notification / KeepAlive / RouteRefresh / Operational '
        'unpack_message (hand model Model_Robust); AIGPBase.from_packet (Model_RobustInst); capability value decoders = '
        'Model_Open.parse_cap (C07) and attribute value decoders = Model_Update.unpack_value (C02/C08), both PROVED to keep '
        'the contract the C03 theorems need (C03_capability_decoders_keep_contract, C03_attribute_decoders_keep_contract)',
        'NOT modelled (the theorems hold for every such decoder that keeps the stated contract; the Python decoders are only '
        'exercised, by the generated cases): the value decoders of PMSI, TUNNEL_ENCAP, BGP-LS, PREFIX_SID; the NLRI decoders '
        'that read the routes inside MP_REACH / MP_UNREACH; UTF-8 validity of host name / software version capabilities; '
        'the API encoders',
    ]
    run.assumptions = [
        'the body handed to Message.unpack is at most the negotiated message size minus 19 (the reader enforces it: C06)',
        'every observation starts without the previous-UPDATE attribute cache (history dependence is C19)',
        'wall-clock linearity is measured (best of N on a shared machine), only the step count of the model is proved',
    ]
    pc = common.standard_build(run, ['T5', 'T6', 'T10', 'T12'])
    from translate import t12_parse_shape

    try:
        sh = t12_parse_shape.shape(common.REPO)
        recursive = sh['recursive']
    except Exception:  # noqa: BLE001 - already reported as the translator obligation
        sh, recursive = None, True
    run.obligation(
        'C03_bounded_depth in full: the attribute walk is a loop (Gen_ParseShape.PARSE_IS_RECURSIVE = false), so '
        'C03_bounded_depth_partial applies to the tree under check',
        sh is not None and not recursive,
        'AttributeCollection.parse calls itself once per attribute: C03_bounded_depth_refuted / C03_recursion_crash apply '
        '(n unknown optional attributes need n+1 Python frames)',
    )

    try:
        gen_text = open(common.os.path.join(common.GEN, 'Gen_AttrTable.v')).read()
        extnh = 'Definition EXTNH_PER_FAMILY : bool := true.' in gen_text
    except OSError:
        extnh = False
    run.obligation(
        'hypothesis of C03_attribute_decoders_keep_contract / C03_only_defined_outcomes_instantiated: EXTNH_PER_FAMILY = true '
        '(Gen_AttrTable, translator T5: MPRNLRI.unpack_attribute widens next hop lengths per family, no Family.size lookup that can raise KeyError)',
        extnh, 'Gen_AttrTable.EXTNH_PER_FAMILY is not true in the tree under check',
    )
    rng = random.Random(seed)
    t0 = time.time()
    valid = gen_valid(rng, tier)
    boundary = gen_boundary(rng, tier)
    rand = gen_random(rng, tier)
    deep = gen_deep(rng, tier)
    targets = gen_targets(rng, tier)
    corrupted = []
    for base in valid:
        if base['marks'] or base['ty'] != 2 or len(base['body']) <= 80:
            corrupted += corrupt(rng, base, tier)
    cap = 5000 if tier == 'quick' else 150000
    if len(corrupted) > cap:
        corrupted = rng.sample(corrupted, cap)
    cases = valid + boundary + rand + deep + targets + corrupted
    t_gen = time.time() - t0

    # ---- implementation: Message.unpack + forcing
    t0 = time.time()
    outs = [guarded(observe, c['ty'], c['body'], ctx(c['ctx'])) for c in cases]
    t_impl = time.time() - t0
    failing = {}
    for i, (c, o) in enumerate(zip(cases, outs)):
        j = judge(c, o)
        if j:
            failing.setdefault(j[0], []).append((i, j[1]))
    # ---- OPEN: the negotiation that follows a decoded OPEN
    neg_cases = [c for c, o in zip(cases, outs) if c['ty'] == 1 and o[0] == 'D']
    ms = ctx('ms-few')
    neg_fail = {}
    n_neg = 0
    for c in neg_cases:
        for cx in (ctx(c['ctx']), ms):
            o = guarded_neg(c['body'], cx)
            n_neg += 1
            if o and o[0] == 'X':
                sig = f'exception:OPEN:{o[2]}:negotiate'
                neg_fail.setdefault(sig, []).append((c, cx, o))
            elif o and o[0] == 'T':
                neg_fail.setdefault('hang:OPEN:negotiate', []).append((c, cx, o))
    # ---- Protocol.read_message on framed messages
    t0 = time.time()
    combos = [(True, ''), (False, ''), (True, 'parsed'), (False, 'parsed'), (True, 'consolidate'), (False, 'packets')]
    read_idx = [i for i, c in enumerate(cases) if len(c['body']) + 19 <= ctx(c['ctx']).msg_size]
    keep = [i for i in read_idx if cases[i]['klass'] == 'valid']
    rest = [i for i in read_idx if cases[i]['klass'] != 'valid']
    read_idx = keep + rng.sample(rest, min(len(rest), 1800 if tier == 'quick' else 60000))
    read_fail = {}
    read_dist = collections.Counter()
    for k, i in enumerate(read_idx):
        c = cases[i]
        ribin, api = combos[k % len(combos)]
        o = guarded(observe_read_message, c['ty'], c['body'], c['ctx'], ribin, api)
        read_dist[(f'adj-rib-in={ribin}', api or 'no-consumer', o[0])] += 1
        j = judge_read(c, o, ribin, api)
        if j:
            read_fail.setdefault(j[0], []).append((i, j[1], o, ribin, api))
    t_read = time.time() - t0

    # ---- model: outcome class of Model_Robust on the modelled bodies
    t0 = time.time()
    midx = [i for i, c in enumerate(cases) if (c['model'] or c['ty'] == 2) and (len(c['body']) <= 700 or c.get('shape') == 'unk3')
            and not (c.get('shape') == 'unk3' and 700 < c['n'] < 1000)]
    mcap = 4000 if tier == 'quick' else 60000
    if len(midx) > mcap:
        must = [i for i in midx if cases[i]['klass'] in ('valid', 'valid-framing')]
        rest = [i for i in midx if cases[i]['klass'] not in ('valid', 'valid-framing')]
        midx = must + rng.sample(rest, max(0, mcap - len(must)))
    mcases = [cases[i] for i in midx]
    mouts = [outs[i] for i in midx]
    m_ok, verdicts, mlogs = evaluate_model(run, mcases, mouts, 'c03_m')
    differs = [midx[k] for k, v in enumerate(verdicts) if v == 1]
    skipped = sum(1 for v in verdicts if v == 2)
    compared = sum(1 for v in verdicts if v == 0) + len(differs)
    # steps / depth
    blocks = []
    unk = unknown_codes()
    for n in (0, 1, 2, 10, 100, 250):
        blocks.append(bytes([0x80, unk[0], 0]) * n)
    for c in mcases:
        if c['ty'] == 2 and c['klass'] in ('valid-framing', 'random') and len(blocks) < (60 if tier == 'quick' else 400) and len(c['body']) >= 4:
            b = c['body']
            lw = int.from_bytes(b[0:2], 'big')
            if 4 + lw <= len(b):
                la = int.from_bytes(b[2 + lw:4 + lw], 'big')
                if 4 + lw + la <= len(b) and la:
                    blocks.append(b[4 + lw:4 + lw + la])
    s_ok, s_bad, s_log = shape_correspondence(run, blocks, recursive)
    t_model = time.time() - t0
    run.obligation('model evaluation (vm_compute of Model_Robust.dec_message / walk on every modelled case) ran', m_ok and s_ok, ('\n'.join(mlogs) + s_log)[-2500:])
    run.obligation(
        f'correspondence: outcome class (and code/subcode, NOTIFICATION / REFRESH / OPERATIONAL tag) of the implementation = '
        f'Model_Robust.dec_message (value decoders: Model_Update.unpack_value, Model_Open.parse_cap, the AIGP walk) on {compared} bodies '
        f'({skipped} more reach an opaque value decoder or carry routes in MP attributes and are not compared)',
        not differs,
        f'{len(differs)} disagreements, first: '
        + (str(describe(cases[differs[0]], outs[differs[0]], model_says='differs')) if differs else ''),
    )
    run.obligation(
        f'correspondence: calls and deepest nesting of AttributeCollection.parse = steps / depth of Model_Robust.walk on {len(blocks)} attribute blocks',
        s_ok and not s_bad, str(s_bad[:2]),
    )

    # ---- the property oracle
    n_obs = len(cases) + n_neg + len(read_idx)
    all_sigs = sorted(set(failing) | set(neg_fail) | set(read_fail))
    run.obligation(
        f'property oracle: {len(cases)} bodies through Message.unpack + forcing, {n_neg} OPEN negotiations, {len(read_idx)} framed '
        f'messages through Protocol.read_message: decoded, or NOTIFICATION with an RFC-defined (code, subcode); nothing else; valid messages decoded',
        not all_sigs,
        f'{len(all_sigs)} distinct failures: {all_sigs[:12]}',
    )

    def fails_with(sig):
        def pred(c):
            j = judge(c, guarded(observe, c['ty'], c['body'], ctx(c['ctx'])))
            return bool(j) and j[0] == sig

        return pred

    for sig, lst in sorted(failing.items()):
        lst.sort(key=lambda e: len(cases[e[0]]['body']))
        i, what = lst[0]
        small = shrink(cases[i], sig, fails_with(sig))
        o = guarded(observe, small['ty'], small['body'], ctx(small['ctx']))
        run.fail_case(sig, what, describe(small, o, cases_with_this_signature=len(lst)))
    for sig, lst in sorted(neg_fail.items()):
        lst.sort(key=lambda e: len(e[0]['body']))
        c, cx, o = lst[0]
        d = describe(c, o, entry='Message.unpack(OPEN) then Negotiated.sent / received / validate (what Protocol.read_open and Peer do next)',
                     cases_with_this_signature=len(lst))
        d['negotiated'] = cx.params
        run.fail_case(sig, f'the negotiation of a decodable peer OPEN raises {o[2]} ({o[3]})' if o[0] == 'X' else
                      f'the negotiation of a decodable peer OPEN was still running after {o[1]} s', d)
    for sig, lst in sorted(read_fail.items()):
        if sig in failing and not sig.startswith('valid-refused'):
            continue
        lst.sort(key=lambda e: len(cases[e[0]]['body']))
        i, what, o, ribin, api = lst[0]
        c = cases[i]
        if sig.startswith('laundered-exception:'):
            inner = 'exception:' + sig.split(':', 1)[1]
            small = shrink(c, inner, fails_with(inner)) if inner in failing else c
        else:
            small = c
        o2 = guarded(observe_read_message, small['ty'], small['body'], small['ctx'], ribin, api)
        run.fail_case(sig, what, describe(small, o2, entry='Protocol.read_message on a scripted socket', adj_rib_in=ribin,
                                          api_consumer=api or None, cases_with_this_signature=len(lst)))

    # ---- time against size
    t0 = time.time()
    table, slow = measure_time(tier)
    t_time = time.time() - t0
    run.obligation(
        'decode time grows linearly with the message size (1k..64k octets, seven attribute- and NLRI-heavy shapes, best of N)',
        not slow, '; '.join(f'{n}: x{r1:.1f} then x{r2:.1f} per doubling' for n, _, r1, r2 in slow),
    )
    for name, row, r1, r2 in slow:
        run.fail_case(f'superlinear:{name}', f'decode time of the {name} UPDATE shape grows x{r1:.1f} (16k->32k) and x{r2:.1f} (32k->64k) per doubling of the size',
                      {'shape': name, 'seconds_by_size': {str(k): round(v, 6) for k, v in row.items()}, 'negotiated': ctx('ext-all').params})

    # ---- work per octet on repetition shapes
    t0 = time.time()
    wtable, wslow = measure_work(tier)
    t_work = time.time() - t0
    run.obligation(
        f'work per octet is bounded: {len(wtable)} repetition shapes (every known attribute code and three unknown ones repeated as hundreds '
        f'of small copies / three large copies / one attribute of many inner elements, the same element repeated inside an attribute, every '
        f'capability repeated in an OPEN) at 1k..{"64k" if tier != "quick" else "16k"} octets: function calls per octet within x{WORK_FACTOR} of the 1k body '
        f'(deterministic), best-of-3 seconds per octet within x{TIME_FACTOR}',
        not wslow, '; '.join(f'{n}: calls/octet x{b.get("calls_per_octet_ratio")} seconds/octet x{b.get("seconds_per_octet_ratio")} at {b["octets"]} octets' for n, _, b, _ in wslow),
    )
    for name, rows, b, cx in wslow:
        small = next((r for r in rows[1:] if r.get('calls_per_octet_ratio', 0) > WORK_FACTOR), b)
        run.fail_case(
            f'superlinear:{name}',
            f'decoding the {name} shape is not proportional to its size: function calls per octet x{b.get("calls_per_octet_ratio")}, '
            f'seconds per octet x{b.get("seconds_per_octet_ratio")} at {b["octets"]} octets against the {rows[0]["octets"]} octet body',
            {'shape': name, 'message_type': small['type'], 'negotiated': cx.params,
             'body_hex': small['body'].hex() if len(small['body']) <= 6000 else small['body'][:6000].hex() + '...', 'body_octets': len(small['body']),
             'measures': [{k: v for k, v in r.items() if k != 'body'} for r in rows],
             'entry_point': 'Message.unpack + Update.data + one pass over the routes + attributes.json(), function calls counted with sys.setprofile'})

    # ---- coverage
    dist = collections.Counter((c['klass'], tname(c['ty']) if c['ty'] in TYPE_NAME else 'unknown-type') for c in cases)
    outd = collections.Counter((tname(c['ty']) if c['ty'] in TYPE_NAME else 'unknown-type',
                                'decoded' if o[0] == 'D' else f'notify {o[1]}/{o[2]}' if o[0] == 'N' else f'raised {o[2]}' if o[0] == 'X' else 'timeout')
                               for c, o in zip(cases, outs))
    sizes = collections.Counter(min(len(c['body']) // 500 * 500, 8000) for c in cases)
    distinct = len({(c['ty'], c['body'], c['ctx']) for c in cases if len(c['body']) >= 4})
    threshold = None
    if recursive:
        lo, hi = 100, 1400
        cx = ctx('as4-all')
        while hi - lo > 1:
            mid = (lo + hi) // 2
            o = guarded(observe, 2, bytes(update([B().add(bytes([0x80, 0xFE, 0]) * mid)]).b), cx)
            lo, hi = (lo, mid) if o[0] in ('X', 'T') else (mid, hi)
        threshold = hi
    run.coverage.update({
        'evaluations': n_obs,
        'distinct_nontrivial': distinct,
        'rule': 'every message type (OPEN, UPDATE, NOTIFICATION, KEEPALIVE, ROUTE-REFRESH, OPERATIONAL, unknown types) under 5(+1) '
                'negotiated parameter sets (asn4 on/off, ADD-PATH on/off, all / two families, 4096 / 65535): valid unusual messages '
                '(1..21000 unknown optional attributes, maximal sizes, every recognised attribute, thousands of NLRI, every capability, '
                'hundreds of capabilities, RFC 9072 parameters), every registered attribute at boundary lengths, structured corruptions '
                '(every length field -1/+1/0/max, bit flips of flags / types / masks, truncation at every offset, deletions / insertions), '
                'nested TLV material for MP_REACH/MP_UNREACH of every family and for the structured optional attributes, random bytes; '
                'non-trivial = distinct (type, body, parameter set) with a body of at least 4 octets',
        'distribution': {f'{k}/{t}': v for (k, t), v in sorted(dist.items())},
        'outcomes': {f'{t}: {o}': v for (t, o), v in sorted(outd.items())},
        'body_size_histogram': {str(k): v for k, v in sorted(sizes.items())},
        'read_message': {'/'.join(k): v for k, v in sorted(read_dist.items())},
        'model': {'compared': compared, 'not_modelled': skipped, 'attribute_blocks_for_steps_depth': len(blocks)},
        'walk_shape': sh,
        'recursion_threshold_attributes': threshold,
        'decode_seconds_by_size': table,
        'work_per_octet': {k: v for k, v in wtable.items()},
        'timing_s': {'generation': round(t_gen, 1), 'implementation': round(t_impl, 1), 'read_message': round(t_read, 1),
                     'coq_evaluation': round(t_model, 1), 'timing_measurement': round(t_time, 1), 'work_measurement': round(t_work, 1)},
        'exhaustive': False,
    })
    for c, o in list(zip(cases, outs))[:: max(1, len(cases) // 6)][:6]:
        run.samples.append({'type': c['ty'], 'ctx': c['ctx'], 'generated_as': f'{c["klass"]}/{c["what"]}', 'body_hex': c['body'].hex()[:120], 'observed': str(o)[:120]})
    print(f'[C03] cases {len(cases)} impl {t_impl:.1f}s read_message {t_read:.1f}s coq {t_model:.1f}s timing {t_time:.1f}s', flush=True)
    if run.broken() and not run.failing:
        run.coverage['search'] = (f'{n_obs} observations of the real decoders were judged by the RFC table; none failed')
    return run.finish(level='proof-partial', checker_cmd='make -C coq props/Prop_C03.vo && coqc -Q coq ExaV coq/props/Prop_C03.v (Print Assumptions)')


def gen_targets(rng, tier):
    """small structured families around decoders with inner length fields or number formats (each found a defect once):
    float-valued extended communities, MVPN routes whose address lengths disagree with the route length, every
    Prefix-SID TLV at every small size, OPERATIONAL advisories, OPEN with MULTISESSION but without MULTIPROTOCOL"""
    cases = []
    # extended communities carrying an IEEE float (flowspec traffic-rate 0x8006, traffic-rate-packets 0x800c) and all (type, subtype)
    floats = [0x7FC00000, 0x7F800000, 0xFF800000, 0x7F7FFFFF, 0xFF7FFFFF, 0x00000001, 0x80000000, 0x3F800000, 0xBF800000, 0x4F000000, 0x7FFFFFFF]
    for ctxn in ('as4-all', 'as2-few'):
        c = ctx(ctxn)
        for sub in (0x06, 0x0C):
            for f in floats:
                ec = bytes([0x80, sub]) + struct.pack('!H', 65000) + struct.pack('!L', f)
                x = update(mandatory(rng, c) + [attr(0xC0, 16, ec)], nlri=[prefix4(rng, c.addpath)])
                cases.append(mk(2, x.b, ctxn, 'target', 'extended-community-float'))
        for t in list(range(0, 0x45)) + [0x80, 0x81, 0x82, 0x83, 0x90, 0xC0, 0xFF]:
            for sub in (range(0, 0x14) if tier != 'quick' else rng.sample(range(0, 0x14), 4)):
                ec = bytes([t, sub]) + bytes(rng.choice([0, 0xFF, 0x7F, 0x80, rng.getrandbits(8)]) for _ in range(6))
                cases.append(mk(2, update(mandatory(rng, c) + [attr(0xC0, 16, ec)], nlri=[prefix4(rng, c.addpath)]).b, ctxn, 'target', 'extended-community-type'))
    # MVPN (RFC 6514): route type, length, RD, [source AS], source length + address, group length + address
    for afi in (1, 2):
        for rtype, fixed in ((5, 8), (6, 12), (7, 12)):
            for sl in (0, 8, 32, 128, 255):
                for gl in (0, 8, 32, 128, 255):
                    for total in {fixed + 2 + 8, fixed + 2 + 32, fixed + 2 + 20, fixed + 2 + (sl + gl) // 8, fixed + 1, fixed + 2 + 4}:
                        pay = bytearray(rng.getrandbits(8) for _ in range(total))
                        if total > fixed:
                            pay[fixed] = sl
                        if total > fixed + 1 + sl // 8:
                            pay[fixed + 1 + sl // 8] = gl
                        route = bytes([rtype, total & 0xFF]) + bytes(pay)
                        for code, head in ((15, struct.pack('!HB', afi, 5)), (14, struct.pack('!HBB', afi, 5, 4) + bytes([10, 0, 0, 1, 0]))):
                            cases.append(mk(2, update([attr(0x80, code, head + route)]).b, 'as4-all', 'target', 'mvpn-lengths'))
    if tier == 'quick':
        keep = [c for c in cases if c['what'] != 'mvpn-lengths']
        mv = [c for c in cases if c['what'] == 'mvpn-lengths']
        cases = keep + rng.sample(mv, 400)
    # Prefix-SID (RFC 8669 / RFC 9252): every TLV type at every small size
    for t in (0, 1, 2, 3, 4, 5, 6, 7, 255):
        for ln in list(range(0, 30)) + [44, 45, 100]:
            val = bytes(rng.choice([0, 1, 2, 5, 6, 16, 0xFF, rng.getrandbits(8)]) for _ in range(ln))
            tlv = bytes([t]) + struct.pack('!H', ln) + val
            c = ctx('as4-all')
            cases.append(mk(2, update(mandatory(rng, c) + [attr(0xC0, 40, tlv)], nlri=[prefix4(rng, False)]).b, 'as4-all', 'target', 'prefix-sid-tlv'))
    # OPERATIONAL advisories: ADM / ASM with text of every kind
    for what in (1, 2):
        for text in (b'', b'a', b'hello world', b'\xff\xfe', 'é€'.encode(), bytes(2048), bytes(2049), b'x' * 4000, b'line\nbreak"quote\\'):
            body = struct.pack('!HH', what, 3 + len(text)) + struct.pack('!HB', 1, 1) + text
            if len(body) <= 4096 - 19:
                cases.append(mk(6, body, rng.choice(CTXS), 'target', 'operational-advisory', model=len(body) <= 700))
    cases += gen_repeated(rng, tier)
    cases += gen_open_boundaries(rng, tier)
    # OPEN: MULTISESSION (draft, 0x44 / cisco 0x83) with and without the MULTIPROTOCOL capability it groups on
    for ms in (cap_tlv(0x44, b''), cap_tlv(0x44, b'\x01'), cap_tlv(0x83, b''), cap_tlv(0x44, b'\x01\x02\x41')):
        for mp in ([], [cap_tlv(1, struct.pack('!HBB', 1, 0, 1))], [cap_tlv(1, struct.pack('!HBB', 2, 0, 1))]):
            x = open_body(rng, mp + [ms, cap_tlv(65, struct.pack('!L', 65001))])
            cases.append(mk(1, x.b, 'ms-few', 'target', 'open-multisession', x.marks, model=True))
    return cases


def replay(path):
    """./check C03 --replay <file>: run the recorded body again through the recorded entry point"""
    import json

    d = json.load(open(path))
    case = d.get('case', d)
    if 'body_hex' not in case or case['body_hex'].endswith('...'):
        print('replay: the file holds no complete body')
        return 2
    c = {'ty': case['message_type'], 'body': bytes.fromhex(case['body_hex']), 'ctx': case['negotiated']['ctx'],
         'klass': case.get('generated_as', 'replay/replay').split('/')[0], 'what': case.get('generated_as', 'replay/replay').split('/', 1)[1]}
    if case.get('entry_point', '').startswith('Protocol.read_message'):
        o = guarded(observe_read_message, c['ty'], c['body'], c['ctx'], bool(case.get('adj_rib_in', True)), case.get('api_consumer') or '')
        j = judge_read(c, o, None, None)
    elif 'Negotiated' in case.get('entry_point', ''):
        o = guarded_neg(c['body'], ctx(c['ctx']))
        j = (f'exception:OPEN:{o[2]}:negotiate', 'negotiation raises') if o and o[0] == 'X' else ('hang:OPEN:negotiate', 'hangs') if o and o[0] == 'T' else None
    else:
        o = guarded(observe, c['ty'], c['body'], ctx(c['ctx']))
        j = judge(c, o)
    print(f'replay: observed {o}; ' + (f'still fails: {j[0]}' if j else 'passes'))
    return 1 if j else 0


def sequences(items, rng):
    """orders and repetitions of well-formed inner elements: [a] [a a] [a b] [a b a] [b a a] [a]*k ..."""
    out = []
    for a in items:
        out += [[a], [a, a], [a, a, a], [a] * 20]
        for b in items:
            if b is not a:
                out += [[a, b], [a, b, a], [b, a, a], [a, b, b, a]]
    if len(items) > 2:
        for _ in range(6):
            out.append([rng.choice(items) for _ in range(rng.choice([3, 5, 12]))])
    return out


def gen_repeated(rng, tier):
    """every attribute (and capability) that is a sequence of inner elements, with those elements REPEATED: a decoder
    that handles "only the first one counts" must still move past the others.  On sessions that enable the
    attribute (aigp enable, extended next hop) and on sessions that do not."""
    cases = []
    metric = lambda v: b'\x01\x00\x0b' + struct.pack('!Q', v)  # noqa: E731  RFC 7311: type 1, length 11 (header included)
    families = {
        # AIGP (26): TLV type(1) length(2, counts the header) value.  RFC 7311 3: a repeated AIGP TLV is ignored: VALID
        26: (0x80, [metric(5), metric(9), b'\x02\x00\x05\xaa\xbb', b'\x07\x00\x03'], True),
        # Prefix-SID (40): type(1) length(2) value: label-index (1, 7 octets), originator SRGB (3, 2+6n), SRv6 (5, 6), unknown
        40: (0xC0, [b'\x01\x00\x07' + bytes(3) + struct.pack('!L', 100), b'\x03\x00\x08' + bytes(2) + bytes([0, 0x3e, 0x80, 0, 0x1f, 0x40]),
                    b'\x03\x00\x0e' + bytes(2) + bytes([0, 0x3e, 0x80, 0, 0x1f, 0x40]) * 2, b'\x05\x00\x01\x00', b'\x06\x00\x01\x00', b'\x09\x00\x02\xab\xcd'], False),
        # BGP-LS (29): type(2) length(2) value
        29: (0x80, [struct.pack('!HH', 1024, 1) + b'\x80', struct.pack('!HH', 1026, 4) + b'node', struct.pack('!HH', 1028, 4) + bytes([1, 2, 3, 4]),
                    struct.pack('!HH', 1088, 4) + bytes(4), struct.pack('!HH', 1095, 3) + bytes(3), struct.pack('!HH', 1155, 4) + bytes(4),
                    struct.pack('!HH', 1099, 8) + bytes(8), struct.pack('!HH', 9999, 2) + b'zz'], False),
        # TUNNEL_ENCAP (23): tunnel type(2) length(2) then sub-TLVs type(1) length(1; 2 when type >= 128)
        23: (0xC0, [struct.pack('!HH', 8, 6) + bytes([4, 4, 0, 0, 0, 1]), struct.pack('!HH', 15, 10) + bytes([1, 8]) + bytes(8),
                    struct.pack('!HH', 8, 12) + bytes([4, 4, 0, 0, 0, 1]) * 2, struct.pack('!HH', 13, 5) + bytes([128, 0, 2, 1, 2]),
                    struct.pack('!HH', 999, 0)], False),
        # lists of fixed-size elements: the same element repeated
        8: (0xC0, [struct.pack('!HH', 65000, 1), struct.pack('!HH', 0xFFFF, 0xFF01)], True),
        16: (0xC0, [bytes([0, 2]) + struct.pack('!HL', 65000, 1), bytes([0x80, 6]) + struct.pack('!Hf', 65000, 1.0), bytes([3, 0x0c]) + bytes(6)], True),
        32: (0xC0, [struct.pack('!LLL', 65000, 1, 2), struct.pack('!LLL', 4200000000, 0, 0)], True),
        10: (0x80, [bytes([1, 1, 1, 1]), bytes([2, 2, 2, 2])], True),
        25: (0xC0, [bytes([0, 2]) + bytes(18), bytes([0, 3]) + bytes(18)], False),
    }
    for code, (flag, items, valid) in families.items():
        for seq in sequences(items, rng):
            val = b''.join(seq)
            for ctxn in (('as4-all', 'as2-few') if tier == 'quick' else CTXS):
                c = ctx(ctxn)
                x = update(mandatory(rng, c) + [attr(flag, code, val)], nlri=[prefix4(rng, c.addpath)])
                if len(x.b) + 19 <= c.msg_size:
                    cases.append(mk(2, x.b, ctxn, 'valid' if valid else 'target', f'repeated-inner-elements-attribute-{code}', x.marks))
    # AS_PATH: the same segment repeated; MP_REACH / MP_UNREACH: the same route repeated, next hop of every legal size
    for ctxn in CTXS:
        c = ctx(ctxn)
        seg = bytes([2, 2]) + asn_bytes(65001, c.asn4) + asn_bytes(65002, c.asn4)
        for k in (2, 3, 40):
            x = update([attr(0x40, 1, b'\x00'), attr(0x40, 2, seg * k), attr(0x40, 3, bytes([10, 0, 0, 1]))], nlri=[prefix4(rng, c.addpath)])
            cases.append(mk(2, x.b, ctxn, 'valid', 'repeated-as-path-segment', x.marks))
        route6 = bytes(prefix6(rng, False).b)
        ap6 = False
        try:
            from exabgp.protocol.family import AFI, SAFI

            ap6 = bool(c.neg.required(AFI.ipv6, SAFI.unicast))
        except Exception:  # noqa: BLE001
            pass
        if ap6:
            route6 = struct.pack('!L', 7) + route6
        for k in (2, 3, 50):
            nh = bytes([0x20, 1, 0xd, 0xb8] + [0] * 11 + [1])
            x = update(mandatory(rng, c, nh=False) + [attr(0x80, 14, struct.pack('!HBB', 2, 1, 16) + nh + b'\x00' + route6 * k)])
            cases.append(mk(2, x.b, ctxn, 'valid', 'repeated-mp-route', x.marks))
            x = update([attr(0x80, 15, struct.pack('!HB', 2, 1) + route6 * k)])
            cases.append(mk(2, x.b, ctxn, 'valid', 'repeated-mp-route', x.marks))
        r4 = bytes(prefix4(rng, c.addpath, 24).b)
        cases.append(mk(2, update([], wd=[B().add(r4 * 30)]).b, ctxn, 'valid', 'repeated-withdrawn-route', model=True))
        # RFC 8950: IPv4 routes with an IPv6 next hop in MP_REACH, where the session negotiated it
        if len(c.neg.nexthop):
            nh = bytes([0x20, 1, 0xd, 0xb8] + [0] * 11 + [1])
            for nhv in (nh, nh + bytes([0xfe, 0x80] + [0] * 13 + [1])):
                x = update(mandatory(rng, c, nh=False) + [attr(0x80, 14, struct.pack('!HBB', 1, 1, len(nhv)) + nhv + b'\x00' + bytes(prefix4(rng, c.addpath, 24).b) * 3)])
                cases.append(mk(2, x.b, ctxn, 'target', 'extended-next-hop-route', x.marks))
    # OPEN: capabilities whose value is a list, with repeated entries, and every capability sent twice
    lists = {5: struct.pack('!HHH', 1, 1, 2), 69: struct.pack('!HBB', 1, 1, 3), 64: None, 76: struct.pack('!HBH', 1, 1, 10), 1: None}
    for code, entry in lists.items():
        for k in (2, 3, 20):
            if code == 64:
                val = struct.pack('!H', 120) + struct.pack('!HBB', 1, 1, 0x80) * k
                caps = [cap_tlv(64, val)]
            elif code == 1:
                caps = [cap_tlv(1, struct.pack('!HBB', 1, 0, 1)) for _ in range(k)]
            else:
                caps = [cap_tlv(code, entry * k)]
            for style in ('one-per-param', 'one-param', 'extended'):
                x = open_body(rng, caps + [cap_tlv(65, struct.pack('!L', 65001))], style)
                cases.append(mk(1, x.b, 'as4-all', 'valid', f'open-repeated-entries-capability-{code}', x.marks, model=True))
    for name, b in valid_caps(rng):
        x = open_body(rng, [b, b, b], rng.choice(['one-per-param', 'one-param', 'extended']))
        cases.append(mk(1, x.b, rng.choice(CTXS + ['ms-few']), 'valid', 'open-capability-three-times', x.marks, model=True))
    return cases


def gen_open_boundaries(rng, tier):
    """valid OPENs whose optional parameters total exactly 250..255 octets in the RFC 4271 encoding (the length octet 255
    is NOT the RFC 9072 marker unless the type octet is 255 too), and 0..300+ octets in the RFC 9072 encoding"""
    cases = []
    base = [cap_tlv(1, struct.pack('!HBB', 1, 0, 1)), cap_tlv(65, struct.pack('!L', 65001))]   # 6 + 6 octets
    for total in (200, 250, 251, 252, 253, 254, 255):
        # one parameter: 2 (parameter header) + 12 + 2 (padding capability header) + pad
        pad = total - 2 - 12 - 2
        for padcode in (200, 99, 255, 0):
            caps = base + [cap_tlv(padcode, bytes(rng.getrandbits(8) for _ in range(pad)))]
            if rng.random() < 0.5:
                caps = caps[::-1]
            x = open_body(rng, caps, 'one-param')
            assert x.b[9] == total and len(x.b) == 10 + total
            cases.append(mk(1, x.b, rng.choice(CTXS), 'valid', f'open-classic-{total}-octets-of-parameters', x.marks, model=True))
        # one capability per parameter: 8 + 8 for the base, padding capabilities of at most 40 octets
        left = total - 16
        caps = list(base)
        while left > 0:
            take = min(left, rng.choice([20, 30, 44]))
            if 0 < left - take < 4:
                take = left - 4
            if take < 4:
                break
            caps.append(cap_tlv(rng.choice([200, 201, 202]), bytes(take - 4)))
            left -= take
        if left == 0:
            x = open_body(rng, caps, 'one-per-param')
            assert x.b[9] == total
            cases.append(mk(1, x.b, rng.choice(CTXS), 'valid', f'open-classic-{total}-octets-of-parameters', x.marks, model=True))
    for total in (0, 12, 250, 254, 255, 256, 257, 300, 1000, 4000):
        # RFC 9072: 255, 255, length(2), parameters with a two octet length
        caps = list(base) if total else []
        left = total - 2 * 9 if total else 0
        while left >= 5:
            take = min(left, 200)
            caps.append(cap_tlv(200, bytes(take - 5)))
            left -= take
        x = open_body(rng, caps, 'extended')
        cases.append(mk(1, x.b, rng.choice(CTXS), 'valid', 'open-extended-parameters', x.marks, model=True, n=total))
    return cases


# ------------------------------------------------------------------------------- every family, every legal next hop


def family_routes():
    """(afi, safi) -> (name, [one well-formed NLRI, written from the RFC that defines the family], [legal next hops])
    A next hop is (octets, what).  Forms whose legality is not beyond doubt are left out."""
    v4, v4b = bytes([192, 0, 2, 1]), bytes([192, 0, 2, 2])
    v6 = bytes([0x20, 1, 0x0d, 0xb8] + [0] * 11 + [1])
    ll = bytes([0xfe, 0x80] + [0] * 13 + [1])
    rd0 = bytes(8)
    rd = struct.pack('!HHL', 0, 65000, 1)                      # RFC 4364 4.2: type 0, AS 65000, number 1
    label = bytes([0x00, 0x06, 0x41])                          # label 100, bottom of stack (RFC 8277 2.2)
    mac = bytes([0x00, 0x11, 0x22, 0x33, 0x44, 0x55])
    out = {}
    # RFC 4760 / RFC 4271: length in bits, prefix
    out[(1, 1)] = ('ipv4 unicast', bytes([24, 10, 1, 2]), [(v4, 'ipv4')])
    out[(1, 2)] = ('ipv4 multicast', bytes([24, 10, 1, 2]), [(v4, 'ipv4')])
    # RFC 2545 3: global, or global + link-local
    out[(2, 1)] = ('ipv6 unicast', bytes([32, 0x20, 1, 0x0d, 0xb8]), [(v6, 'global'), (v6 + ll, 'global+link-local')])
    out[(2, 2)] = ('ipv6 multicast', bytes([32, 0x20, 1, 0x0d, 0xb8]), [(v6, 'global'), (v6 + ll, 'global+link-local')])
    # RFC 8277 2.2: length (label bits included), label, prefix
    out[(1, 4)] = ('ipv4 labelled', bytes([24 + 24]) + label + bytes([10, 1, 2]), [(v4, 'ipv4')])
    out[(2, 4)] = ('ipv6 labelled', bytes([24 + 32]) + label + bytes([0x20, 1, 0x0d, 0xb8]), [(v6, 'global'), (v6 + ll, 'global+link-local')])
    # RFC 4364 4.3.2 / 4.3.4: label, RD, prefix; next hop = VPN-IPv4 address with a zero RD
    out[(1, 128)] = ('vpn-ipv4', bytes([24 + 64 + 24]) + label + rd + bytes([10, 1, 2]), [(rd0 + v4, 'rd0+ipv4')])
    # RFC 4659 3.2.1: 24 (RD 0 + global) or 48 (RD 0 + global, RD 0 + link-local)
    out[(2, 128)] = ('vpn-ipv6', bytes([24 + 64 + 32]) + label + rd + bytes([0x20, 1, 0x0d, 0xb8]),
                     [(rd0 + v6, 'rd0+global'), (rd0 + v6 + rd0 + ll, 'rd0+global,rd0+link-local')])
    # RFC 8955 4 / RFC 8956 3: NLRI length, components; destination prefix component.  "next hop length ... 0" is the rule,
    # a next hop of the AFI's own kind is what RFC 8955 4 tolerates ("MAY be set to a non-zero value")
    out[(1, 133)] = ('ipv4 flow', bytes([5, 1, 24, 10, 1, 2]), [(b'', 'none'), (v4, 'ipv4')])
    out[(2, 133)] = ('ipv6 flow', bytes([7, 1, 32, 0, 0x20, 1, 0x0d, 0xb8]), [(b'', 'none'), (v6, 'global')])
    # RFC 8955 8: RD first
    out[(1, 134)] = ('ipv4 flow-vpn', bytes([13]) + rd + bytes([1, 24, 10, 1, 2]), [(b'', 'none')])
    out[(2, 134)] = ('ipv6 flow-vpn', bytes([15]) + rd + bytes([1, 32, 0, 0x20, 1, 0x0d, 0xb8]), [(b'', 'none')])
    # RFC 4684 4: origin AS, route target (96 bits); the default target is the zero-length prefix
    rt = bytes([0x00, 0x02]) + struct.pack('!HL', 65000, 1)
    out[(1, 132)] = ('rtc', bytes([96]) + struct.pack('!L', 65000) + rt, [(v4, 'ipv4'), (v6, 'ipv6')])
    # RFC 4761 3.2.2: length 17, RD, VE ID, VE block offset, VE block size, label base
    out[(25, 65)] = ('vpls', struct.pack('!H', 17) + rd + struct.pack('!HHH', 1, 1, 8) + bytes([0x00, 0x06, 0x41]), [(v4, 'ipv4')])
    # RFC 7432 7.3 Inclusive Multicast Ethernet Tag route: RD, Ethernet tag, IP length, originating router; 7.2 MAC/IP route
    imet = rd + bytes(4) + bytes([32]) + v4
    macip = rd + bytes(10) + bytes(4) + bytes([48]) + mac + bytes([0]) + label
    out[(25, 70)] = ('evpn', bytes([3, len(imet)]) + imet + bytes([2, len(macip)]) + macip, [(v4, 'ipv4'), (v6, 'ipv6')])   # RFC 7432 9
    # RFC 6514 4.5 Source Active A-D route: RD, source length + source, group length + group; RFC 6515 2: the next hop is an
    # IPv4 or an IPv6 address (no RD), whatever the AFI of the route
    sa4 = rd + bytes([32]) + v4 + bytes([32, 232, 1, 1, 1])
    sa6 = rd + bytes([128]) + v6 + bytes([128, 0xff, 0x3e] + [0] * 13 + [1])
    out[(1, 5)] = ('mvpn ipv4', bytes([5, len(sa4)]) + sa4, [(v4, 'ipv4'), (v6, 'ipv6')])
    out[(2, 5)] = ('mvpn ipv6', bytes([5, len(sa6)]) + sa6, [(v4, 'ipv4'), (v6, 'ipv6')])
    # RFC 9552 5.2: NLRI type 1 (node), length, protocol-id, identifier, local node descriptors (AS, BGP-LS id, IGP router-id)
    desc = struct.pack('!HHL', 512, 4, 65000) + struct.pack('!HHL', 513, 4, 0) + struct.pack('!HH', 515, 6) + bytes([0, 0, 0, 0, 0, 1])
    node = bytes([2]) + bytes(8) + struct.pack('!HH', 256, len(desc)) + desc
    out[(16388, 71)] = ('bgp-ls', struct.pack('!HH', 1, len(node)) + node, [(v4, 'ipv4'), (v6, 'ipv6')])
    out[(16388, 72)] = ('bgp-ls-vpn', struct.pack('!HH', 1, 8 + len(node)) + rd + node, [(rd0 + v4, 'rd0+ipv4'), (rd0 + v6, 'rd0+ipv6')])
    # RFC 9830 2.1: NLRI length in bits, distinguisher, color, endpoint
    out[(1, 73)] = ('sr-policy ipv4', bytes([96]) + struct.pack('!LL', 1, 100) + v4b, [(v4, 'ipv4')])
    out[(2, 73)] = ('sr-policy ipv6', bytes([192]) + struct.pack('!LL', 1, 100) + v6, [(v6, 'ipv6')])
    # draft-ietf-bess-mup-safi 3.1.1 Interwork Segment Discovery route: architecture type 1 (3gpp-5g), route type 1, length, RD, prefix
    isd4 = rd + bytes([24, 10, 1, 2])
    isd6 = rd + bytes([32, 0x20, 1, 0x0d, 0xb8])
    out[(1, 85)] = ('mup ipv4', bytes([1]) + struct.pack('!HB', 1, len(isd4)) + isd4, [(v4, 'ipv4')])
    out[(2, 85)] = ('mup ipv6', bytes([1]) + struct.pack('!HB', 1, len(isd6)) + isd6, [(v6, 'ipv6')])
    return out


# RFC 8950 4: an IPv6 next hop (global, or global + link-local; VPN: with a zero RD in front of each) for IPv4 NLRI
def rfc8950_nexthops(safi):
    v6 = bytes([0x20, 1, 0x0d, 0xb8] + [0] * 11 + [1])
    ll = bytes([0xfe, 0x80] + [0] * 13 + [1])
    rd0 = bytes(8)
    if safi == 128:
        return [(rd0 + v6, 'rfc8950 rd0+global'), (rd0 + v6 + rd0 + ll, 'rfc8950 rd0+global,rd0+link-local')]
    return [(v6, 'rfc8950 global'), (v6 + ll, 'rfc8950 global+link-local')]


def gen_families(rng, tier):
    """for every family the session negotiated: a well-formed MP_REACH_NLRI UPDATE with each next hop form the family's RFC
    allows, and the matching MP_UNREACH_NLRI.  Valid: must be decoded"""
    cases = []
    table = family_routes()
    for ctxn in ('as4-all', 'ext-all', 'as2-few'):
        c = ctx(ctxn)
        negotiated = {(int(a), int(s)) for a, s in c.neg.families}
        ext = {(int(a), int(s)) for a, s, _ in c.neg.nexthop}
        for (afi, safi), (name, nlri, hops) in sorted(table.items()):
            if (afi, safi) not in negotiated:
                continue
            forms = list(hops) + (rfc8950_nexthops(safi) if (afi, safi) in ext else [])
            extra = []
            if safi == 73:
                # RFC 9830 2.2: the policy travels in the Tunnel Encapsulation attribute, tunnel type 15 (here without sub-TLV);
                # 4.2.1: NO_ADVERTISE when no route target is attached
                extra = [attr(0xC0, 23, struct.pack('!HH', 15, 0)), attr(0xC0, 8, struct.pack('!L', 0xFFFFFF02))]
            for nh, what in forms:
                for k in (1, 3):
                    val = struct.pack('!HBB', afi, safi, len(nh)) + nh + b'\x00' + nlri * k
                    x = update(mandatory(rng, c, nh=False) + extra + [attr(0x80, 14, val)])
                    cases.append(mk(2, x.b, ctxn, 'valid', f'mp-reach-{name.replace(" ", "-")}-nexthop-{len(nh)}' + ('' if k == 1 else f'-x{k}'), x.marks,
                                    family=[afi, safi], nexthop=what))
            x = update([attr(0x80, 15, struct.pack('!HB', afi, safi) + nlri)])
            cases.append(mk(2, x.b, ctxn, 'valid', f'mp-unreach-{name.replace(" ", "-")}', x.marks, family=[afi, safi]))
    cases += gen_rtc_prefixes(rng, tier)
    cases += gen_addpath_default_routes(rng, tier)
    return cases


def rtc_nlri(bits):
    """RFC 4684 4: prefix length in bits (0 = default, else 32..96), then ceil(bits / 8) octets of origin AS + route target,
    the unused low bits of the last octet zero"""
    full = struct.pack('!L', 65000) + bytes([0x00, 0x02]) + struct.pack('!HL', 65000, 0x00010203)
    if bits == 0:
        return b'\x00'
    n = (bits + 7) // 8
    val = bytearray(full[:n])
    if bits % 8:
        val[-1] &= (0xFF << (8 - bits % 8)) & 0xFF
    return bytes([bits]) + bytes(val)


def gen_rtc_prefixes(rng, tier):
    """Route Target membership NLRI of every legal prefix length (RFC 4684 4): alone, several, and each one last in the field"""
    cases = []
    v4 = bytes([192, 0, 2, 1])
    lengths = [0, 32, 33, 40, 48, 63, 64, 72, 95, 96]
    for ctxn in ('as4-all', 'ext-all'):
        c = ctx(ctxn)
        if (1, 132) not in {(int(a), int(s)) for a, s in c.neg.families}:
            continue
        seqs = [[b] for b in lengths] + [[96, b] for b in lengths] + [[b, 96] for b in lengths if b != 96] + [lengths, lengths[::-1]]
        for seq in seqs:
            nl = b''.join(rtc_nlri(b) for b in seq)
            tag = '-'.join(str(b) for b in seq) if len(seq) <= 2 else ('all-lengths' if seq[0] == 0 else 'all-lengths-reversed')
            x = update(mandatory(rng, c, nh=False) + [attr(0x80, 14, struct.pack('!HBB', 1, 132, 4) + v4 + b'\x00' + nl)])
            partial = 'partial-prefix' if any(0 < b < 96 for b in seq) else 'prefix'
            cases.append(mk(2, x.b, ctxn, 'valid', f'mp-reach-rtc-{partial}', x.marks, family=[1, 132], prefix_lengths=tag))
            x = update([attr(0x80, 15, struct.pack('!HB', 1, 132) + nl)])
            cases.append(mk(2, x.b, ctxn, 'valid', f'mp-unreach-rtc-{partial}', x.marks, family=[1, 132], prefix_lengths=tag))
    return cases


def gen_addpath_default_routes(rng, tier):
    """ADD-PATH sessions (RFC 7911 3: a four octet path identifier in front of every NLRI): the default route, alone, last
    and first, in the withdrawn routes, the NLRI field, MP_REACH_NLRI and MP_UNREACH_NLRI of every prefix family"""
    cases = []
    v4 = bytes([192, 0, 2, 1])
    v6 = bytes([0x20, 1, 0x0d, 0xb8] + [0] * 11 + [1])
    pid = lambda: struct.pack('!L', rng.choice([0, 1, 7, 0xFFFFFFFF]))  # noqa: E731
    for ctxn in ('ap-all', 'ext-ap-as2', 'as4-all'):
        c = ctx(ctxn)
        from exabgp.protocol.family import AFI, SAFI  # noqa: F401

        fams = {(int(a), int(s)) for a, s in c.neg.families}
        ap = {(int(a), int(s)) for a, s in c.neg.families if c.neg.required(a, s)}
        tagc = 'addpath' if c.addpath else 'no-addpath'
        p = (lambda afi: pid()) if c.addpath else (lambda afi: b'')
        d4 = lambda: p(1) + b'\x00'  # noqa: E731  0.0.0.0/0
        r4 = lambda: p(1) + bytes([24, 10, rng.getrandbits(8), rng.getrandbits(8)])  # noqa: E731
        for name, seq in (('alone', [d4]), ('last', [r4, d4]), ('first', [d4, r4]), ('twice', [d4, d4])):
            body = b''.join(f() for f in seq)
            x = update([], wd=[B().add(body)])
            cases.append(mk(2, x.b, ctxn, 'valid', f'default-route-{name}-in-withdrawn-{tagc}', model=True))
            x = update(mandatory(rng, c), nlri=[B().add(b''.join(f() for f in seq))])
            cases.append(mk(2, x.b, ctxn, 'valid', f'default-route-{name}-in-nlri-{tagc}'))
        for afi, safi in ((1, 1), (1, 2), (2, 1), (2, 2)):
            if (afi, safi) not in fams:
                continue
            q = pid if (afi, safi) in ap else (lambda: b'')
            tagf = 'addpath' if (afi, safi) in ap else 'no-addpath'
            dflt = lambda: q() + b'\x00'  # noqa: E731
            other = (lambda: q() + bytes([24, 10, 1, rng.getrandbits(8)])) if afi == 1 else (lambda: q() + bytes([32, 0x20, 1, 0x0d, rng.getrandbits(8)]))
            nh = v4 if afi == 1 else v6
            for name, seq in (('alone', [dflt]), ('last', [other, dflt]), ('first', [dflt, other])):
                nl = b''.join(f() for f in seq)
                x = update(mandatory(rng, c, nh=False) + [attr(0x80, 14, struct.pack('!HBB', afi, safi, len(nh)) + nh + b'\x00' + nl)])
                cases.append(mk(2, x.b, ctxn, 'valid', f'default-route-{name}-in-mp-reach-{afi}-{safi}-{tagf}', x.marks))
                x = update([attr(0x80, 15, struct.pack('!HB', afi, safi) + b''.join(f() for f in seq))])
                cases.append(mk(2, x.b, ctxn, 'valid', f'default-route-{name}-in-mp-unreach-{afi}-{safi}-{tagf}', x.marks))
    return cases


# ------------------------------------------------------------------------------- work per octet (repetition shapes)


def small_large_values(c):
    """attribute code -> (flags, small well-formed value, f(n) -> large value made of n inner elements or None)"""
    a4 = c.asn4
    asn = (lambda x: struct.pack('!L', x)) if a4 else (lambda x: struct.pack('!H', x & 0xFFFF))
    seg = lambda k: bytes([2, k]) + b''.join(asn(64512 + (i % 1000)) for i in range(k))  # noqa: E731
    seg4 = lambda k: bytes([2, k]) + b''.join(struct.pack('!L', 70000 + i) for i in range(k))  # noqa: E731
    v6 = bytes([0x20, 1, 0x0d, 0xb8] + [0] * 11 + [1])
    return {
        1: (0x40, b'\x00', None),
        2: (0x40, seg(1), lambda n: b''.join(seg(min(255, n - i)) for i in range(0, n, 255))),
        3: (0x40, bytes([10, 0, 0, 1]), None),
        4: (0x80, struct.pack('!L', 5), None),
        5: (0x40, struct.pack('!L', 100), None),
        6: (0x40, b'', None),
        7: (0xC0, asn(65000) + bytes([192, 0, 2, 1]), None),
        8: (0xC0, struct.pack('!HH', 65000, 1), lambda n: b''.join(struct.pack('!HH', 65000, i & 0xFFFF) for i in range(n))),
        9: (0x80, bytes([192, 0, 2, 9]), None),
        10: (0x80, bytes([1, 1, 1, 1]), lambda n: b''.join(struct.pack('!L', 0x01000000 + i) for i in range(n))),
        14: (0x80, struct.pack('!HBB', 2, 1, 16) + v6 + b'\x00' + bytes([32, 0x20, 1, 0x0d, 0xb8]),
             lambda n: struct.pack('!HBB', 2, 1, 16) + v6 + b'\x00' + b''.join(bytes([48, 0x20, 1, 0x0d, 0xb8, i >> 8 & 0xFF, i & 0xFF]) for i in range(n))),
        15: (0x80, struct.pack('!HB', 2, 1) + bytes([32, 0x20, 1, 0x0d, 0xb8]),
             lambda n: struct.pack('!HB', 2, 1) + b''.join(bytes([48, 0x20, 1, 0x0d, 0xb8, i >> 8 & 0xFF, i & 0xFF]) for i in range(n))),
        16: (0xC0, bytes([0, 2]) + struct.pack('!HL', 65000, 1), lambda n: b''.join(bytes([0, 2]) + struct.pack('!HL', 65000, i) for i in range(n))),
        17: (0xC0, seg4(1), lambda n: b''.join(seg4(min(255, n - i)) for i in range(0, n, 255))),
        18: (0xC0, struct.pack('!L', 70000) + bytes([192, 0, 2, 1]), None),
        22: (0xC0, bytes([0, 0, 0, 0, 0]), None),
        23: (0xC0, struct.pack('!HH', 8, 6) + bytes([4, 4, 0, 0, 0, 1]), lambda n: b''.join(struct.pack('!HH', 8, 6) + bytes([4, 4, 0, 0, i >> 8 & 0xFF, i & 0xFF]) for i in range(n))),
        25: (0xC0, bytes([0, 2]) + bytes(18), lambda n: b''.join(bytes([0, 2]) + bytes(14) + struct.pack('!L', i) for i in range(n))),
        26: (0x80, b'\x01\x00\x0b' + struct.pack('!Q', 5), lambda n: b'\x01\x00\x0b' + struct.pack('!Q', 5) + b''.join(b'\x02\x00\x05' + struct.pack('!H', i & 0xFFFF) for i in range(n))),
        29: (0x80, struct.pack('!HH', 1026, 4) + b'node', lambda n: b''.join(struct.pack('!HH', 1026, 4) + struct.pack('!L', i) for i in range(n))),
        32: (0xC0, struct.pack('!LLL', 65000, 1, 2), lambda n: b''.join(struct.pack('!LLL', 65000, 1, i) for i in range(n))),
        40: (0xC0, b'\x01\x00\x07' + bytes(3) + struct.pack('!L', 100), lambda n: b''.join(b'\x09\x00\x02' + struct.pack('!H', i & 0xFFFF) for i in range(n))),
        0xFE: (0x80, b'', lambda n: bytes(n)),
        0xFD: (0xC0, b'\x01', lambda n: bytes(n)),
        0x63: (0xE0, b'\x01\x02', lambda n: bytes(n)),
    }


def attr_tlv(flag, code, val):
    if len(val) > 255:
        return bytes([flag | 0x10, code]) + struct.pack('!H', len(val)) + val
    return bytes([flag & 0xEF, code, len(val)]) + val


def work_shapes(c):
    """name -> f(size) -> (message type, body): the same element repeated until the body has about `size` octets"""
    shapes = {}
    base = bytes([0x40, 1, 1, 0, 0x40, 2, 0, 0x40, 3, 4, 10, 0, 0, 1])
    nlri = bytes([24, 10, 0, 0])

    def wrap(attrs):
        return 2, struct.pack('!H', 0) + struct.pack('!H', len(attrs)) + attrs + nlri

    for code, (flag, small, large) in small_large_values(c).items():
        lead = b'' if code in (1, 2, 3) else base
        one = attr_tlv(flag, code, small)

        def many(size, one=one, lead=lead):
            return wrap(lead + one * max(2, (size - len(lead) - 8) // len(one)))

        shapes[f'attribute-{code}-repeated-small'] = many
        if large is not None:
            per = len(large(2)) - len(large(1)) or 1

            def few(size, flag=flag, code=code, large=large, per=per, lead=lead, copies=3):
                n = max(1, (size - len(lead) - 8 - 4 * copies) // (per * copies))
                return wrap(lead + b''.join(attr_tlv(flag, code, large(n)) for _ in range(copies)))

            def single(size, flag=flag, code=code, large=large, per=per, lead=lead):
                n = max(1, (size - len(lead) - 12) // per)
                return wrap(lead + attr_tlv(flag, code, large(n)))

            shapes[f'attribute-{code}-repeated-large'] = few
            shapes[f'attribute-{code}-many-inner-elements'] = single
    # the same inner element over and over inside one attribute (where a merge / de-duplication could hide)
    same = {8: struct.pack('!HH', 65000, 1), 16: bytes([0, 2]) + struct.pack('!HL', 65000, 1), 32: struct.pack('!LLL', 65000, 1, 2),
            10: bytes([1, 1, 1, 1]), 25: bytes([0, 2]) + bytes(18)}
    for code, el in same.items():
        flag = small_large_values(c)[code][0]
        shapes[f'attribute-{code}-same-element-repeated'] = lambda size, flag=flag, code=code, el=el: wrap(base + attr_tlv(flag, code, el * max(1, (size - 30) // len(el))))
    # a treat-as-withdraw malformation (ORIGIN 9, MED of three octets) in front of thousands of routes: RFC 7606 turns every
    # announced route into a withdrawn one, which must cost one step per route
    bad = {'origin': bytes([0x40, 1, 1, 9, 0x40, 2, 0, 0x40, 3, 4, 10, 0, 0, 1]), 'med': base + bytes([0x80, 4, 3, 0, 0, 1])}
    v6nh = bytes([0x20, 1, 0x0d, 0xb8] + [0] * 11 + [1])
    for bname, battrs in bad.items():
        def taw_nlri(size, battrs=battrs):
            n = max(1, (size - len(battrs) - 4) // 4)
            routes = b''.join(bytes([24, 10, i >> 8 & 0xFF, i & 0xFF]) for i in range(n))
            return 2, struct.pack('!H', 0) + struct.pack('!H', len(battrs)) + battrs + routes

        def taw_both(size, battrs=battrs):
            n = max(1, (size - len(battrs) - 4) // 8)
            wd = b''.join(bytes([24, 11, i >> 8 & 0xFF, i & 0xFF]) for i in range(n))
            routes = b''.join(bytes([24, 10, i >> 8 & 0xFF, i & 0xFF]) for i in range(n))
            return 2, struct.pack('!H', len(wd)) + wd + struct.pack('!H', len(battrs)) + battrs + routes

        def taw_mp(size, battrs=battrs):
            n = max(1, (size - len(battrs) - 40) // 7)
            routes = b''.join(bytes([48, 0x20, 1, 0x0d, 0xb8, i >> 8 & 0xFF, i & 0xFF]) for i in range(n))
            mp = attr_tlv(0x80, 14, struct.pack('!HBB', 2, 1, 16) + v6nh + b'\x00' + routes)
            return 2, struct.pack('!H', 0) + struct.pack('!H', len(battrs) + len(mp)) + battrs + mp

        shapes[f'treat-as-withdraw-{bname}-many-announced-routes'] = taw_nlri
        shapes[f'treat-as-withdraw-{bname}-many-announced-and-withdrawn-routes'] = taw_both
        shapes[f'treat-as-withdraw-{bname}-many-mp-reach-routes'] = taw_mp
    # different attribute codes interleaved, each repeated
    mix = [attr_tlv(f, k, s) for k, (f, s, _) in small_large_values(c).items() if k not in (1, 2, 3, 14, 15)]
    shapes['attributes-all-codes-interleaved'] = lambda size: wrap(base + b''.join(mix) * max(1, (size - 30) // len(b''.join(mix))))
    return shapes


def open_work_shapes():
    """OPEN bodies (RFC 9072 parameters) repeating one capability"""
    fixed = bytes([4]) + struct.pack('!HH', 65001, 180) + bytes([10, 0, 0, 2])
    caps = {
        'multiprotocol': bytes([1, 4]) + struct.pack('!HBB', 1, 0, 1),
        'route-refresh': bytes([2, 0]),
        'extended-next-hop': bytes([5, 6]) + struct.pack('!HHH', 1, 1, 2),
        'add-path': bytes([69, 4]) + struct.pack('!HBB', 1, 1, 3),
        'graceful-restart': bytes([64, 6]) + struct.pack('!H', 120) + struct.pack('!HBB', 1, 1, 0x80),
        'asn4': bytes([65, 4]) + struct.pack('!L', 65001),
        'hostname': bytes([73, 6]) + bytes([1]) + b'h' + bytes([3]) + b'dom',
        'paths-limit': bytes([76, 5]) + struct.pack('!HBH', 1, 1, 10),
        'unknown': bytes([200, 2, 1, 2]),
    }
    shapes = {}
    for name, cap in caps.items():
        def per_param(size, cap=cap):
            p = (bytes([2]) + struct.pack('!H', len(cap)) + cap) * max(1, (size - 13) // (len(cap) + 3))
            return 1, fixed + bytes([255, 255]) + struct.pack('!H', len(p)) + p

        def one_param(size, cap=cap):
            inner = cap * max(1, (size - 16) // len(cap))
            p = bytes([2]) + struct.pack('!H', len(inner)) + inner
            return 1, fixed + bytes([255, 255]) + struct.pack('!H', len(p)) + p

        shapes[f'open-capability-{name}-repeated-parameters'] = per_param
        shapes[f'open-capability-{name}-repeated-in-one-parameter'] = one_param
    # list-valued capabilities with the same entry repeated inside one value (at most 255 octets: one length octet)
    return shapes


def decode_once(ty, body, c):
    """what one observation of the linearity pass runs: decode, walk the routes, render the attributes"""
    from exabgp.bgp.message import Message
    from exabgp.bgp.message.notification import Notify

    reset_caches()
    try:
        m = Message.unpack(ty, memoryview(body), c.neg)
        if ty == 2 and not getattr(m, 'IS_EOR', False):
            d = m.data
            for _ in d.announces:
                pass
            for _ in d.withdraws:
                pass
            d.attributes.json()
        elif ty == 1:
            str(m)
    except Notify:
        pass


def count_calls(f):
    """a deterministic measure of work: Python and C function calls made while f runs (sys.setprofile)"""
    counter = [0]

    def prof(frame, event, arg, counter=counter):
        if event == 'call' or event == 'c_call':
            counter[0] += 1

    sys.setprofile(prof)
    try:
        f()
    finally:
        sys.setprofile(None)
    return counter[0]


WORK_FACTOR = 3.0     # function calls per octet may grow by this much between the smallest and any larger size
TIME_FACTOR = 12.0    # wall time per octet (best of N), only a secondary signal: a loaded machine must not raise an alarm


def measure_work(tier):
    """-> (table, findings).  For every repetition shape: function calls per octet (deterministic) and best-of-N seconds per
    octet at 1k / 4k / 16k (/ 64k thorough; OPEN: 1k / 2k / 4k).  Super-linear = calls per octet more than WORK_FACTOR times
    those of the 1k body (the count is deterministic), or best-of-N seconds per octet more than TIME_FACTOR times those of the
    1k body on a decode of more than 50 ms, measured a second time (best of 7 at both ends) before it counts."""
    cu = ctx('ext-all')
    sizes_u = [1000, 4000, 16000] + ([64000] if tier != 'quick' else [])
    sizes_o = [1000, 2000, 4000]
    jobs = [(name, f, sizes_u, cu) for name, f in work_shapes(cu).items()] + [(name, f, sizes_o, ctx('as4-all')) for name, f in open_work_shapes().items()]
    table, findings = {}, []
    for name, f, sizes, c in jobs:
        rows = []
        stopped = None
        for size in sizes:
            ty, body = f(size)
            body = bytes(body)
            if len(body) + 19 > c.msg_size:
                break
            try:
                with Watchdog(budget(body) * 4):
                    calls = count_calls(lambda: decode_once(ty, body, c))
                    secs = None
                    for _ in range(3):
                        t0 = time.perf_counter()
                        decode_once(ty, body, c)
                        dt = time.perf_counter() - t0
                        secs = dt if secs is None or dt < secs else secs
            except OutOfTime:
                stopped = f'no result after {round(budget(body) * 4)} s at {len(body)} octets'
                rows.append({'octets': len(body), 'calls': None, 'seconds': None, 'type': ty, 'body': body})
                break
            except Exception as exc:  # noqa: BLE001 - judged by the outcome oracle
                stopped = f'{type(exc).__name__} at {len(body)} octets'
                break
            rows.append({'octets': len(body), 'calls': calls, 'seconds': secs, 'type': ty, 'body': body})
            base = rows[0]
            if len(rows) > 1 and base['calls']:
                wr = (calls / len(body)) / (base['calls'] / base['octets'])
                tr = (secs / len(body)) / max(base['seconds'] / base['octets'], 1e-12)
                if tr > TIME_FACTOR and secs > 0.05 and wr <= WORK_FACTOR:
                    # the clock alone says so: measure both ends again, best of 7, before believing it
                    def best(t, b, n=7):
                        out = None
                        for _ in range(n):
                            t0 = time.perf_counter()
                            decode_once(t, b, c)
                            dt = time.perf_counter() - t0
                            out = dt if out is None or dt < out else out
                        return out
                    try:
                        with Watchdog(budget(body) * 8):
                            base['seconds'] = min(base['seconds'], best(base['type'], base['body']))
                            secs = min(secs, best(ty, body))
                    except OutOfTime:
                        pass
                    rows[-1]['seconds'] = secs
                    tr = (secs / len(body)) / max(base['seconds'] / base['octets'], 1e-12)
                    rows[-1]['time_confirmed_by_second_measurement'] = tr > TIME_FACTOR
                rows[-1]['calls_per_octet_ratio'] = round(wr, 2)
                rows[-1]['seconds_per_octet_ratio'] = round(tr, 2)
                if wr > WORK_FACTOR or (tr > TIME_FACTOR and secs > 0.05):
                    break   # no need to pay for the larger sizes
        table[name] = {'rows': [{k: v for k, v in r.items() if k != 'body'} for r in rows], 'stopped': stopped}
        bad = [r for r in rows[1:] if r.get('calls_per_octet_ratio', 0) > WORK_FACTOR
               or (r.get('seconds_per_octet_ratio', 0) > TIME_FACTOR and (r['seconds'] or 0) > 0.05)]
        if stopped and stopped.startswith('no result'):
            bad = [rows[-1]]
        if bad:
            findings.append((name, rows, bad[0], c))
    return table, findings
