"""C02 - Reported routes are exactly what the peer sent.  H-dec.

Structured generator of well-formed UPDATE bodies (the generator owns the semantic content and encodes
it itself from the RFCs), decoded by the real Message.unpack / Response.JSON / UpdateHandler+IncomingRIB,
by Model_Update.dec_update (repaired) and dec_update_pinned, and by the reference decoder Spec_Wire.ref_update
(both evaluated by vm_compute inside coqc).  c08.py imports the generators and drivers of this module."""

from __future__ import annotations

import collections
import ipaddress
import json
import random
import re
import struct
import types

from harness import common
from harness.common import Run

IPFAMS = [(1, 1), (1, 2), (1, 4), (1, 128), (2, 1), (2, 2), (2, 4), (2, 128)]
FAMTXT = 'ipv4 unicast ipv4 multicast ipv4 nlri-mpls ipv4 mpls-vpn ipv6 unicast ipv6 multicast ipv6 nlri-mpls ipv6 mpls-vpn'
FAMNAME = {(1, 1): 'ipv4 unicast', (1, 2): 'ipv4 multicast', (1, 4): 'ipv4 nlri-mpls', (1, 128): 'ipv4 mpls-vpn',
           (2, 1): 'ipv6 unicast', (2, 2): 'ipv6 multicast', (2, 4): 'ipv6 nlri-mpls', (2, 128): 'ipv6 mpls-vpn'}
OPAQUE_CODES = (22, 23, 26, 29, 40)
KNOWN_CODES = (1, 2, 3, 4, 5, 6, 7, 8, 9, 10, 14, 15, 16, 17, 18, 22, 23, 25, 26, 29, 32, 40)
TAW, DISCARD = 0xFFFF, 0xFFFE

# ------------------------------------------------------------------------------- sessions


class Sess:
    """One negotiated session: the 8 IP families, asn4 on/off, ADD-PATH receive on/off for every family."""

    def __init__(self, asn4, addpath, extnh=()):
        from exabgp.configuration.setup import create_minimal_configuration
        from exabgp.configuration.check import _negotiated
        from exabgp.protocol.family import AFI, SAFI
        from exabgp.util.enumeration import TriState

        self.asn4, self.addpath, self.extnh = asn4, addpath, [tuple(f) for f in extnh]
        self.key = f'asn4={int(asn4)},addpath={int(addpath)}' + (',extnh=' + '+'.join(f'{a}/{b}' for a, b in self.extnh) if self.extnh else '')
        self.conf = create_minimal_configuration(families=FAMTXT, add_path=addpath)
        self.neighbor = next(iter(self.conf.neighbors.values()))
        if addpath:
            self.neighbor.capability.add_path = 3
        if self.extnh:
            # RFC 8950 extended next hop: IPv6 next hops for these IPv4 families
            self.neighbor.capability.nexthop = TriState.TRUE
            for a, b in self.extnh:
                self.neighbor.add_nexthop(AFI.from_int(a), SAFI.from_int(b), AFI.ipv6)
        self.neg, _ = _negotiated(self.neighbor)
        self.neg.asn4 = asn4
        self.neg.aigp = True  # AIGP configured: the value decoder is reached (otherwise the attribute is discarded by design)

        for a, s in IPFAMS:
            if bool(self.neg.required(AFI.from_int(a), SAFI.from_int(s))) != addpath:
                raise RuntimeError('session does not negotiate ADD-PATH as requested')
        got = sorted((int(a), int(b)) for a, b, c in self.neg.nexthop if int(c) == 2)
        if got != sorted(self.extnh) or len(got) != len(self.neg.nexthop):
            raise RuntimeError(f'extended next hop negotiated as {self.neg.nexthop}, wanted {self.extnh}')
        if sorted((int(a), int(s)) for a, s in self.neg.families) != sorted(IPFAMS):
            raise RuntimeError(f'unexpected negotiated families {self.neg.families}')

    def coq(self):
        fams = '[' + ';'.join(f'({a},{s})' for a, s in IPFAMS) + ']'
        ext = '[' + ';'.join(f'({a},{s})' for a, s in self.extnh) + ']'
        return f'(mkS {"true" if self.asn4 else "false"} {fams} {fams if self.addpath else "[]"} {ext})'


EXTNH_ALL = [(1, 1), (1, 2), (1, 4), (1, 128)]


def make_sessions():
    # 4 plain sessions (asn4 x ADD-PATH), then RFC 8950 sessions: IPv6 next hops negotiated for every IPv4 family the
    # tree supports it for, and for ipv4 unicast alone
    return [Sess(a, p) for a in (True, False) for p in (False, True)] + [Sess(True, False, EXTNH_ALL), Sess(True, True, [(1, 1)])]


# ------------------------------------------------------------------------------- RFC encoders (independent of exabgp)


def enc_nlri(n, addpath):
    """RFC 4271 4.3 / 7911 3 / 8277 2 / 4364 4.3.4: [path-id] length labels rd prefix"""
    out = b''
    if addpath:
        out += struct.pack('!L', n['pid'] or 0)
    labels = n['labels']
    bits = 24 * len(labels) + (64 if n['rd'] is not None else 0) + n['mask']
    out += bytes([bits])
    for w in labels:
        out += w.to_bytes(3, 'big')
    if n['rd'] is not None:
        out += bytes(n['rd'])
    out += bytes(n['pfx'])
    return out


def tlv(flags, code, value, ext=False):
    if ext or len(value) > 255:
        return bytes([flags | 0x10, code]) + struct.pack('!H', len(value)) + value
    return bytes([flags & 0xEF, code, len(value)]) + value


def enc_path(segs, asn4):
    out = b''
    for t, asns in segs:
        out += bytes([t, len(asns)]) + b''.join(struct.pack('!L' if asn4 else '!H', a) for a in asns)
    return out


def enc_mp_reach(mp, addpath):
    afi, safi = mp['fam']
    nh = bytes(mp['nh'])
    if safi == 128:
        nh = bytes(8) + nh
    return struct.pack('!HBB', afi, safi, len(nh)) + nh + b'\0' + b''.join(enc_nlri(n, addpath) for n in mp['nlris'])


def enc_mp_unreach(mp, addpath):
    afi, safi = mp['fam']
    return struct.pack('!HB', afi, safi) + b''.join(enc_nlri(n, addpath) for n in mp['nlris'])


def build(desc, addpath):
    """desc -> UPDATE body.  desc['attrs'] is the ordered list of attribute descriptions."""
    wd = b''.join(enc_nlri(n, addpath) for n in desc['withdrawn'])
    ab = b''.join(bytes(a['raw']) if 'raw' in a else tlv(a['flags'], a['code'], bytes(a['value']), a.get('ext', False))
                  for a in desc['attrs'])
    nl = b''.join(enc_nlri(n, addpath) for n in desc['nlri'])
    return struct.pack('!H', len(wd)) + wd + struct.pack('!H', len(ab)) + ab + nl


# ------------------------------------------------------------------------------- generation

MASKS = {1: [0, 1, 8, 9, 16, 17, 23, 24, 25, 31, 32], 2: [0, 1, 8, 32, 47, 48, 64, 65, 96, 127, 128]}
ASNS2 = [1, 2, 64512, 65000, 65534, 65535, 23456]
ASNS4 = [65536, 70000, 131072, 4200000000, 4294967295]
CLASS_FLAGS = {1: 0x40, 2: 0x40, 3: 0x40, 4: 0x80, 5: 0x40, 6: 0x40, 7: 0xC0, 8: 0xC0, 9: 0x80, 10: 0x80, 14: 0x80,
               15: 0x80, 16: 0xC0, 17: 0xC0, 18: 0xC0, 22: 0xC0, 23: 0xC0, 25: 0xC0, 26: 0x80, 29: 0x80, 32: 0xC0, 40: 0xC0}


def gen_nlri(rng, fam, addpath, withdraw=False):
    afi, safi = fam
    mask = rng.choice(MASKS[afi]) if rng.random() < 0.7 else rng.randrange(0, 33 if afi == 1 else 129)
    size = (mask + 7) // 8
    pfx = [rng.getrandbits(8) for _ in range(size)]
    if size and mask % 8 and rng.random() < 0.8:
        pfx[-1] &= (0xFF << (8 - mask % 8)) & 0xFF
    labels = []
    if safi in (4, 128):
        if withdraw and rng.random() < 0.5:
            labels = [0x800000]
        else:
            k = rng.choice([1, 1, 1, 2, 3])
            labels = [(rng.choice([16, 100, 1000, 524287, 524289, 1048575, rng.randrange(16, 1 << 19)]) << 4) for _ in range(k)]
            labels[-1] |= 1
    rd = None
    if safi == 128:
        rd = rng.choice([[0, 0, 0xFD, 0xE8, 0, 0, 0, 1], [0, 1, 10, 0, 0, 1, 0, 5], [0, 2, 0, 1, 0, 0, 0, 9]])
    while 24 * len(labels) + (64 if rd else 0) + mask > 255:
        labels = labels[1:]  # the length octet holds at most 255 bits
    pid = None
    if addpath:
        pid = rng.choice([0, 1, 5, 0xFFFFFFFF, rng.getrandbits(32)])
    return {'fam': fam, 'pid': pid, 'labels': labels, 'rd': rd, 'mask': mask, 'pfx': pfx}


def gen_path(rng, big, confed=True):
    segs = []
    for _ in range(rng.choice([0, 1, 1, 1, 2, 2, 3])):
        t = rng.choice([2, 2, 2, 1] + ([3, 4] if confed else []))
        n = rng.choice([1, 1, 2, 3, 5])
        segs.append([t, [rng.choice(ASNS2 + (ASNS4 if big else [])) for _ in range(n)]])
    return segs


def rfc6793_merge(p2, p4):
    """RFC 6793 4.2.3 written from the RFC text: AS_SET counts 1, confederation segments 0."""
    def count(p):
        return sum(len(a) if t == 2 else 1 if t == 1 else 0 for t, a in p)
    n2, n4 = count(p2), count(p4)
    if n2 < n4:
        return [list(x) for x in p2]
    need = n2 - n4
    lead = []
    for t, a in p2:
        if t in (3, 4):
            lead.append([t, list(a)])
            continue
        if need <= 0:
            break
        if t == 1:
            lead.append([t, list(a)])
            need -= 1
        else:
            lead.append([2, list(a[:need])])
            need -= len(a[:need])
    return lead + [list(x) for x in p4]


def gen_update(rng, sess, want=None, plain_as4=False, overlap=False):
    """A well-formed UPDATE description.  `want`: None or a code that must be present (c08)."""
    ap = sess.addpath
    d = {'withdrawn': [], 'nlri': [], 'attrs': [], 'mp_reach': None, 'mp_unreach': None}
    shape = rng.choice(['v4', 'v4', 'mp', 'mp', 'both', 'wd', 'mpwd', 'mix'])
    if want in (14,):
        shape = rng.choice(['mp', 'both', 'mix'])
    if want in (15,):
        shape = rng.choice(['mpwd', 'mix'])
    if want == 3 and shape in ('mp', 'wd', 'mpwd'):
        shape = 'v4'
    if shape in ('v4', 'both', 'mix'):
        d['nlri'] = [gen_nlri(rng, (1, 1), ap) for _ in range(rng.choice([1, 1, 2, 3]))]
    if shape in ('wd', 'mix') or rng.random() < 0.15:
        d['withdrawn'] = [gen_nlri(rng, (1, 1), ap, True) for _ in range(rng.choice([1, 2, 3]))]
    if shape in ('mp', 'both', 'mix'):
        fam = rng.choice(IPFAMS)
        nhl = 4 if fam[0] == 1 else rng.choice([16, 16, 32])
        if fam == (2, 128):
            nhl = 16
        nh_tail = []
        if fam == (2, 128) and rng.random() < 0.3:
            # RFC 4659 3.2.1.1: a link-local VPN-IPv6 address (its own zero RD in front) follows the global one: 48 octets
            nh_tail = [0] * 8 + [0xFE, 0x80] + [rng.getrandbits(8) for _ in range(14)]
        if fam in sess.extnh and rng.random() < 0.7:
            nhl = 16 if fam[1] == 128 else rng.choice([16, 32])  # RFC 8950: an IPv6 next hop for an IPv4 family
        d['mp_reach'] = {'fam': fam, 'nh': [rng.getrandbits(8) for _ in range(nhl)] + (nh_tail if nhl == 16 else []),
                         'nlris': [gen_nlri(rng, fam, ap) for _ in range(rng.choice([1, 1, 2, 3]))]}
    if shape in ('mpwd', 'mix'):
        fam = rng.choice(IPFAMS)
        d['mp_unreach'] = {'fam': fam, 'nlris': [gen_nlri(rng, fam, ap, True) for _ in range(rng.choice([1, 2, 3]))]}
    if overlap:
        # RFC 4271 4.3: the same route in WITHDRAWN ROUTES and in NLRI (IPv4 fields), or in MP_UNREACH_NLRI and
        # MP_REACH_NLRI of one family: legal, "as though the WITHDRAWN ROUTES do not contain the prefix"
        if d['nlri'] and rng.random() < 0.6:
            d['withdrawn'] = d['withdrawn'] + [dict(rng.choice(d['nlri']))]
            rng.shuffle(d['withdrawn'])
        if d['mp_reach'] and rng.random() < 0.6:
            n = dict(rng.choice(d['mp_reach']['nlris']))
            if n['labels']:
                n['labels'] = [0x800000]
            if d['mp_unreach'] is None or d['mp_unreach']['fam'] != d['mp_reach']['fam']:
                d['mp_unreach'] = {'fam': d['mp_reach']['fam'], 'nlris': []}
            d['mp_unreach']['nlris'] = d['mp_unreach']['nlris'] + [n]
    announce = bool(d['nlri'] or d['mp_reach'])
    attrs = []

    def add(code, value, sem=None, flags=None):
        f = CLASS_FLAGS.get(code, 0xC0) if flags is None else flags
        if f & 0x80 and rng.random() < 0.25:
            f |= 0x20  # PARTIAL on optional attributes
        attrs.append({'code': code, 'flags': f, 'value': list(value), 'ext': rng.random() < 0.2, 'sem': sem})

    def maybe(code, p):
        return want == code or rng.random() < p

    if announce or want in (1, 2, 3, 5) or rng.random() < 0.1:
        add(1, [rng.choice([0, 1, 2])])
        big = sess.asn4 and rng.random() < 0.4
        p2 = gen_path(rng, big)
        if want == 2 and not p2:
            p2 = [[2, [65000]]]
        if plain_as4:
            p2 = [[2, [rng.choice(ASNS2) for _ in range(rng.choice([2, 3, 4]))]]]
        add(2, enc_path(p2, sess.asn4), sem=p2)
        if d['nlri'] or want == 3:
            add(3, [rng.getrandbits(8) for _ in range(4)])
        if maybe(5, 0.5):
            add(5, struct.pack('!L', rng.choice([0, 100, 4294967295, rng.getrandbits(32)])))
        if plain_as4 and want == 17:
            # C08 bases: one sequence, AS4_PATH repeats its tail (every merge procedure gives AS_PATH back)
            p4 = [[2, list(p2[0][1][1:])]]
            add(17, enc_path(p4, True), sem=p4)
        elif plain_as4:
            pass
        elif (not sess.asn4 and maybe(17, 0.35)) or want == 17:
            # a 2-byte peer: AS4_PATH carries the true AS numbers of the trailing part of AS_PATH
            p4 = []
            if rng.random() < 0.75 and p2:
                # consistent: the last k countable hops with big ASNs substituted for AS_TRANS
                tail = [list(x) for x in p2 if x[0] in (1, 2)][-rng.choice([1, 1, 2]):]
                p4 = [[t, [rng.choice(ASNS4) if a == 23456 or rng.random() < 0.3 else a for a in asns]] for t, asns in tail]
            else:
                p4 = gen_path(rng, True, confed=False)
            if want == 17 and not p4:
                p4 = [[2, [70000]]]
            add(17, enc_path(p4, True), sem=p4)
    if maybe(4, 0.4):
        add(4, struct.pack('!L', rng.choice([0, 7, 4294967295, rng.getrandbits(32)])))
    if maybe(6, 0.2):
        add(6, [])
    if maybe(7, 0.25):
        asn = rng.choice(ASNS2 + (ASNS4 if sess.asn4 else []))
        add(7, struct.pack('!L' if sess.asn4 else '!H', asn) + bytes(rng.getrandbits(8) for _ in range(4)))
    if maybe(8, 0.4):
        add(8, [rng.getrandbits(8) for _ in range(4 * rng.choice([1, 1, 2, 5]))])
    if maybe(9, 0.2):
        add(9, [rng.getrandbits(8) for _ in range(4)])
    if maybe(10, 0.2):
        add(10, [rng.getrandbits(8) for _ in range(4 * rng.choice([1, 2, 3]))])
    if maybe(16, 0.3):
        # opaque-typed extended communities (type 0x03/0x43: transitive/non-transitive opaque)
        add(16, sum(([rng.choice([0x03, 0x43]), 0x0C] + [rng.getrandbits(8) for _ in range(6)] for _ in range(rng.choice([1, 2]))), []))
    if maybe(18, 0.15):
        add(18, struct.pack('!L', rng.choice(ASNS4)) + bytes(rng.getrandbits(8) for _ in range(4)))
    if maybe(25, 0.1):
        add(25, [0x00, 0x02] + [rng.getrandbits(8) for _ in range(18)])
    if maybe(32, 0.3):
        lcs = [[rng.getrandbits(8) for _ in range(12)] for _ in range(rng.choice([1, 2, 3]))]
        if rng.random() < 0.3:
            lcs.append(list(lcs[0]))  # a duplicate value: RFC 8092 says it is removed silently
        add(32, sum(lcs, []))
    for _ in range(rng.choice([0, 0, 0, 1, 2])):
        code = rng.choice([c for c in (11, 12, 13, 19, 20, 21, 30, 31, 99, 128, 200, 254, 255) if all(a['code'] != c for a in attrs)])
        flags = rng.choice([0xC0, 0xC0, 0x80, 0xE0, 0xA0])
        attrs.append({'code': code, 'flags': flags, 'value': [rng.getrandbits(8) for _ in range(rng.choice([0, 1, 3, 8, 40]))],
                      'ext': rng.random() < 0.2, 'sem': None})
    if d['mp_reach']:
        add(14, enc_mp_reach(d['mp_reach'], ap))
    if d['mp_unreach']:
        add(15, enc_mp_unreach(d['mp_unreach'], ap))
    if want is not None and want in OPAQUE_CODES:
        add(want, OPAQUE_SAMPLES[want])
    # any attribute order (RFC 4271 does not prescribe one)
    if rng.random() < 0.7:
        rng.shuffle(attrs)
    for a in attrs:
        if a['code'] in (14, 15):
            a['flags'] &= 0xDF  # PARTIAL is meaningless on non-transitive MP attributes: keep them plain half the time
            if rng.random() < 0.3:
                a['flags'] |= 0x20
    d['attrs'] = attrs
    return d


# values the real decoders accept (checked at start-up by `opaque_outcome`)
OPAQUE_SAMPLES = {
    22: [0, 6, 0, 0, 0, 1, 2, 3, 4],  # PMSI: flags, tunnel type 6 (ingress replication), label, IPv4 endpoint
    23: [0, 1, 0, 0],  # TUNNEL_ENCAP: one TLV type 1 (L2TPv3) of length 0
    26: [1, 0, 11, 0, 0, 0, 0, 0, 0, 0, 10],  # AIGP TLV
    29: [4, 2, 0, 4, 1, 2, 3, 4],  # BGP-LS: node name TLV 1026 ... any TLV
    40: [1, 0, 7, 0, 0, 0, 0, 0, 0, 5],  # PREFIX_SID label-index TLV
}


# ------------------------------------------------------------------------------- reference semantics (from the description)


def nlri_key(n, with_labels):
    """what identifies / describes a route: family, path id, rd, prefix length and bits (+ 20-bit labels for announces)"""
    return (tuple(n['fam']), n['pid'], tuple(n['rd']) if n['rd'] is not None else None, n['mask'], tuple(n['pfx']),
            tuple(w >> 4 for w in n['labels']) if with_labels else ())


def dedup12(v):
    seen, out = set(), []
    for i in range(0, len(v), 12):
        c = tuple(v[i : i + 12])
        if c not in seen:
            seen.add(c)
            out += list(c)
    return out


def expected(desc, sess):
    """The semantic content an RFC decoder reports for a well-formed description."""
    ann, wd = [], []
    nh3 = next((a['value'] for a in desc['attrs'] if a['code'] == 3), None)
    for n in desc['nlri']:
        ann.append((nlri_key(n, True), tuple(nh3) if nh3 is not None else ()))
    for n in desc['withdrawn']:
        wd.append(nlri_key(n, False))
    if desc['mp_reach']:
        nh = desc['mp_reach']['nh'][:16]  # the global address (a link-local one may follow it)
        for n in desc['mp_reach']['nlris']:
            ann.append((nlri_key(n, True), tuple(nh)))
    if desc['mp_unreach']:
        for n in desc['mp_unreach']['nlris']:
            wd.append(nlri_key(n, False))
    attrs = {}
    seen = set()
    for a in desc['attrs']:
        c = a['code']
        if c in seen:
            continue
        seen.add(c)
        if c in (14, 15):
            continue
        if c in KNOWN_CODES:
            if c in (2, 17):
                attrs[c] = ('p', [[t, list(x)] for t, x in a['sem']])
            elif c == 32:
                attrs[c] = ('b', dedup12(a['value']))
            else:
                attrs[c] = ('b', list(a['value']))
        elif a['flags'] & 0x40:
            wire_flags = a['flags'] | (0x10 if a.get('ext') or len(a['value']) > 255 else 0)
            attrs[c] = ('g', wire_flags | 0x20, list(a['value']))
        # unrecognised optional non-transitive: not relayed, not compared
    if 2 in attrs and 17 in attrs:
        attrs[2] = ('p', rfc6793_merge(attrs[2][1], attrs[17][1]))
        del attrs[17]
    return {'ann': ann, 'wd': wd, 'attrs': attrs}


# ------------------------------------------------------------------------------- implementation side


def nlri_fields(o):
    pid = None
    if o._has_addpath:
        pid = int.from_bytes(bytes(o._packed[:4]), 'big')
    labels = []
    lab = getattr(o, 'labels', None)
    if lab is not None:
        raw = bytes(lab.pack_labels())
        labels = [int.from_bytes(raw[i : i + 3], 'big') for i in range(0, len(raw), 3)]
    rd = None
    r = getattr(o, 'rd', None)
    if r is not None and bytes(r.pack_rd()):
        rd = tuple(bytes(r.pack_rd()))
    c = o.cidr
    return {'fam': (int(o.afi), int(o.safi)), 'pid': pid, 'labels': labels, 'rd': rd, 'mask': int(c.mask),
            'pfx': list(bytes(c.pack_ip()))}


def nh_bytes(ip):
    try:
        return tuple(bytes(ip.pack_ip()))
    except Exception:
        return ()


def attr_obs(a):
    """model-level view of a real Attribute object"""
    from exabgp.bgp.message.update.attribute.aspath import ASPath
    from exabgp.bgp.message.update.attribute.attribute import TreatAsWithdraw, Discard

    if isinstance(a, (TreatAsWithdraw, Discard)):
        return (0, ('b', [] if a.aid is None else [int(a.aid)]))
    if isinstance(a, ASPath):
        return (int(a.FLAG), ('p', [[int(s.ID), [int(x) for x in s]] for s in a.aspath], bool(a._asn4)))
    packed = getattr(a, '_packed', None)
    if packed is None:
        return (int(a.FLAG), ('b', [])) if False else (int(a.FLAG), ('opaque', type(a).__name__))
    return (int(a.FLAG), ('b', list(bytes(packed))))


def reset_caches():
    from exabgp.bgp.message.update.attribute.collection import AttributeCollection

    AttributeCollection.cached = None
    AttributeCollection.previous = b''
    if hasattr(AttributeCollection, 'previous_session'):
        AttributeCollection.previous_session = None


def impl_decode(body, sess, json_too=True, fresh=True):
    """-> dict(kind=notify|pyerror|eor|upd, ...) as Protocol.read_message sees Message.unpack.
    fresh=False keeps the one-entry AttributeCollection.unpack cache as the previous message left it"""
    from exabgp.bgp.message import Message
    from exabgp.bgp.message.notification import Notify

    if fresh:
        reset_caches()
    try:
        m = Message.unpack(Message.CODE.UPDATE, bytes(body), sess.neg)
        if m.IS_EOR:
            n = m.nlris[0]
            return {'kind': 'eor', 'fam': (int(n.afi), int(n.safi)), 'msg': m}
        d = m.data
    except Notify as e:
        return {'kind': 'notify', 'code': (int(e.code), int(e.subcode)), 'text': str(e)[:120]}
    except Exception as e:  # read_message: Notify(1, 0)
        return {'kind': 'pyerror', 'exc': type(e).__name__, 'text': str(e)[:120]}
    out = {'kind': 'upd', 'msg': m}
    out['ann'] = [(nlri_fields(r.nlri), nh_bytes(r.nexthop)) for r in d.announces]
    out['wd'] = [nlri_fields(n) for n in d.withdraws]
    out['attrs'] = {}
    for k, a in d.attributes.items():
        if int(k) in OPAQUE_CODES:
            # abstracted value classes: the value is reported as the bytes the parser handed to the decoder
            sliced = next((v for f, c, ln, v in walk_tlvs(split_body(body)[1]) if c == int(k)), b'')
            out['attrs'][int(k)] = (int(a.FLAG), ('b', list(sliced)))
        else:
            out['attrs'][int(k)] = attr_obs(a)
    if json_too:
        from exabgp.reactor.api.response import Response
        from exabgp.version import json as json_version

        try:
            text = Response.JSON(json_version).update(sess.neighbor, 'receive', d, b'', b'', sess.neg)
            out['json'] = json.loads(text)['neighbor']['message']['update']
        except Exception as e:
            out['json_error'] = f'{type(e).__name__}: {e}'[:200]
    return out


def impl_canon(o):
    """comparable with model_canon"""
    if o['kind'] == 'notify':
        return ('notify',) + o['code']
    if o['kind'] == 'pyerror':
        return ('pyerror',)
    if o['kind'] == 'eor':
        return ('eor',) + o['fam']
    ann = [(canon_nlri(n), tuple(nh)) for n, nh in o['ann']]
    wd = [canon_nlri(n) for n in o['wd']]
    attrs = {}
    for c, (flag, v) in o['attrs'].items():
        attrs[c] = (flag, ('p', tuple((t, tuple(a)) for t, a in v[1]), v[2]) if v[0] == 'p' else ('b', tuple(v[1])))
    return ('upd', tuple(ann), tuple(wd), tuple(sorted(attrs.items())))


def canon_nlri(n):
    return (tuple(n['fam']), n['pid'], tuple(n['labels']), tuple(n['rd']) if n['rd'] else None, n['mask'], tuple(n['pfx']))


class RibRig:
    """A real IncomingRIB fed by the real UpdateHandler, behind read_message's INTERNAL_DISCARD filter."""

    def __init__(self, sess):
        from exabgp.rib.incoming import IncomingRIB
        from exabgp.reactor.peer.handlers.update import UpdateHandler

        self.sess = sess
        self.rib = IncomingRIB(True, set(sess.neg.families))
        self.handler = UpdateHandler()
        nb = types.SimpleNamespace(rib=types.SimpleNamespace(incoming=self.rib), session=sess.neighbor.session)
        self.ctx = types.SimpleNamespace(neighbor=nb, negotiated=sess.neg, stats=collections.Counter(), peer_id='verif')

    def feed(self, o):
        """what Protocol.read_message + Peer._main do with a decoded message"""
        from exabgp.bgp.message.update import Update
        from exabgp.bgp.message.update.attribute import Attribute
        import inspect
        from exabgp.reactor import protocol

        if o['kind'] != 'upd':
            return
        m = o['msg']
        if isinstance(m, Update) and Attribute.CODE.INTERNAL_DISCARD in m.data.attributes and READ_MESSAGE_DROPS_DISCARD():
            return
        for _ in self.handler.handle(self.ctx, m):
            pass

    def content(self):
        out = {}
        for r in self.rib.cached_routes():
            f = nlri_fields(r.nlri)
            key = (tuple(f['fam']), f['pid'], tuple(f['rd']) if f['rd'] else None, f['mask'], tuple(f['pfx']))
            out[key] = (nh_bytes(r.nexthop), {int(k): attr_obs(a) for k, a in r.attributes.items()})
        return out


_RM = {}


def READ_MESSAGE_DROPS_DISCARD():
    """Does Protocol.read_message of the tree under check turn an UPDATE carrying INTERNAL_DISCARD into a placeholder (_NOP / _IGNORED) instead of returning it?
    (read from the source text of the method: the harness does not open sockets for this property)"""
    if 'v' not in _RM:
        import inspect
        from exabgp.reactor.protocol import Protocol

        src = inspect.getsource(Protocol.read_message)
        _RM['v'] = bool(re.search(r'INTERNAL_DISCARD in message\.data\.attributes:\s*\n\s*return _[A-Z]+', src))
    return _RM['v']


def opaque_outcome(sess, code, flag, value):
    """Outcome of the real value decoder of an abstracted attribute class -> Coq vres term"""
    from exabgp.bgp.message.update.attribute import Attribute
    from exabgp.bgp.message.notification import Notify

    try:
        a = Attribute.unpack(code, flag, bytes(value), sess.neg)
    except Notify as e:
        return f'VNotify {int(e.code)} {int(e.subcode)}'
    except (ValueError, IndexError):
        return 'VValueError'
    except Exception:
        return 'VOther'
    if int(a.ID) == DISCARD:
        return 'VPseudoDiscard'
    return 'VOk (VBytes v)'


def walk_tlvs(ab):
    """attribute block walk with Python slicing semantics (glue: used only to find the abstracted decoders' inputs)"""
    out, d = [], bytes(ab)
    while d:
        if len(d) < 3:
            break
        flag, code = d[0], d[1]
        if flag & 0x10:
            if len(d) < 4:
                break
            ln, off = (d[2] << 8) + d[3], 4
        else:
            ln, off = d[2], 3
        out.append((flag, code, ln, d[off : off + ln]))
        d = d[off + ln :]
    return out


def split_body(body):
    b = bytes(body)
    if len(b) < 4:
        return b'', b'', b''
    lw = (b[0] << 8) + b[1]
    if len(b) < 4 + lw:
        return b'', b'', b''
    la = (b[2 + lw] << 8) + b[3 + lw]
    return b[2 : 2 + lw], b[4 + lw : 4 + lw + la], b[4 + lw + la :]


def opq_term(sess, body):
    """Coq function for the abstracted decoders on the opaque-coded attributes present in this body"""
    arms = []
    for flag, code, ln, val in walk_tlvs(split_body(body)[1]):
        if code in OPAQUE_CODES:
            f = flag & 0xDF  # the parser removes PARTIAL on optional attributes before Attribute.unpack
            if (f | 0x10) != (CLASS_FLAGS[code] | 0x10):
                continue
            arms.append(f'if (c =? {code}) && list_eqb v {common.zlist(val)} then {opaque_outcome(sess, code, f, val)} else')
    return '(fun (c : Z) (v : list Z) => ' + ' '.join(arms) + ' VValueError)'


# ------------------------------------------------------------------------------- model / spec side

HEADER = """From Coq Require Import ZArith Bool List.
From ExaV Require Import gen.Gen_AttrTable model.Model_Nlri model.Model_Update spec.Spec_Wire.
Import ListNotations. Open Scope Z_scope.
Definition ref_update (s : sess) (b : list Z) :=
  ref_update_gen unpack_nlri (fun _ _ => false) (mkRS (s_asn4 s) (s_fams s) (s_addpath s) (s_extnh s)) b.
Definition observe_ref := observe_ref_gen obs_nlri.
"""


def split_negative(zs):
    """flat list with negative markers -> list of (marker, [payload])"""
    out = []
    for z in zs:
        if z < 0:
            out.append((z, []))
        else:
            out[-1][1].append(z)
    return out


def take_list(p, i):
    n = p[i]
    return p[i + 1 : i + 1 + n], i + 1 + n


def parse_nlri(p, i=0):
    afi, safi = p[i], p[i + 1]
    i += 2
    if p[i] == 1:
        pid = int.from_bytes(bytes(p[i + 1 : i + 5]), 'big')
        i += 5
    else:
        pid = None
        i += 1
    labels, i = take_list(p, i)
    rd, i = take_list(p, i)
    mask = p[i]
    pfx, i = take_list(p, i + 1)
    return {'fam': (afi, safi), 'pid': pid, 'labels': labels, 'rd': tuple(rd) if rd else None, 'mask': mask, 'pfx': pfx}, i


def model_canon(zs):
    """Model_Update.observe output -> same shape as impl_canon"""
    items = split_negative(zs)
    m, p = items[0]
    if m == -1:
        return ('notify', p[0], p[1])
    if m == -2:
        return ('pyerror',)
    if m == -3:
        return ('eor', p[0], p[1])
    ann, wd, attrs = [], [], {}
    for m, p in items[1:]:
        if m == -5:
            n, i = parse_nlri(p)
            nh, _ = take_list(p, i)
            ann.append((canon_nlri(n), tuple(nh)))
        elif m == -6:
            n, _ = parse_nlri(p)
            wd.append(canon_nlri(n))
        elif m == -7:
            code, flag, kind = p[0], p[1], p[2]
            if kind == 0:
                v, _ = take_list(p, 3)
                attrs[code] = (flag, ('b', tuple(v)))
            else:
                nseg, i, segs = p[3], 4, []
                for _ in range(nseg):
                    t = p[i]
                    a, i = take_list(p, i + 1)
                    segs.append((t, tuple(a)))
                attrs[code] = (flag, ('p', tuple(segs), kind == 2))
    return ('upd', tuple(ann), tuple(wd), tuple(sorted(attrs.items())))


def coq_eval(cases, tag, what=('fixed', 'pinned', 'ref')):
    """cases: list of (sess, body).  -> dict name -> list of flat Z lists (None where evaluation failed)"""
    shards = common.chunked(list(range(len(cases))), 60)

    def defs(idx):
        out = []
        for name in what:
            items = []
            for i in idx:
                sess, body = cases[i]
                b = common.zbytes(body)
                if name == 'ref':
                    items.append(f'observe_ref (ref_update {sess.coq()} {b})')
                else:
                    items.append(f'observe (dec_update_gen {"true" if name == "fixed" else "false"} {opq_term(sess, body)} {sess.coq()} {b})')
            out.append('Eval vm_compute in [' + ';\n'.join(items) + '].')
        return '\n'.join(out) + '\n'

    res = common.eval_cases(HEADER, defs, shards, tag)
    out = {name: [None] * len(cases) for name in what}
    ok, logs = True, []
    for shard, (rc, text, parsed) in zip(shards, res):
        if rc != 0 or len(parsed) != len(what):
            ok = False
            logs.append(text[-1500:])
            continue
        for name, body in zip(what, parsed):
            lists = re.findall(r'\[([^\[\]]*)\]', body)
            if len(lists) != len(shard):
                ok = False
                logs.append(f'{name}: expected {len(shard)} results, parsed {len(lists)}')
                continue
            for i, l in zip(shard, lists):
                out[name][i] = [int(x) for x in re.findall(r'-?\d+', l)]
    return ok, out, logs


def eval_two_pass(cases, tag, with_ref):
    """repaired model (+ reference) on every case; the pinned model only where the implementation differs from the
    repaired one.  cases: dicts with sess, body, impl.  -> ok, ev, logs"""
    pairs = [(c['sess'], c['body']) for c in cases]
    ok, ev, logs = coq_eval(pairs, tag, what=('fixed', 'ref') if with_ref else ('fixed',))
    ev['pinned'] = [None] * len(cases)
    idx = [i for i, c in enumerate(cases) if ev['fixed'][i] is None or model_canon(ev['fixed'][i]) != impl_canon(c['impl'])]
    if idx:
        ok2, ev2, logs2 = coq_eval([pairs[i] for i in idx], tag + 'p', what=('pinned',))
        ok, logs = ok and ok2, logs + logs2
        for k, i in enumerate(idx):
            ev['pinned'][i] = ev2['pinned'][k]
    return ok, ev, logs


def ref_canon(zs):
    """Spec_Wire.observe_ref output -> ('none',) | ('eor', a, s) | dict like `expected`"""
    items = split_negative(zs)
    m, p = items[0]
    if m == -9:
        return None
    if m == -3:
        return ('eor', p[0], p[1])
    ann, wd, attrs = [], [], {}
    for m, p in items[1:]:
        if m == -5:
            n, i = parse_nlri(p)
            nh, _ = take_list(p, i)
            ann.append((nlri_key(dict(n, rd=list(n['rd']) if n['rd'] else None), True), tuple(nh)))
        elif m == -6:
            n, _ = parse_nlri(p)
            wd.append(nlri_key(dict(n, rd=list(n['rd']) if n['rd'] else None), False))
        elif m == -7:
            code, flag, kind = p[0], p[1], p[2]
            if kind == 0:
                v, _ = take_list(p, 3)
                attrs[code] = ('g', flag, list(v)) if code not in KNOWN_CODES else ('b', list(v))
            else:
                nseg, i, segs = p[3], 4, []
                for _ in range(nseg):
                    t = p[i]
                    a, i = take_list(p, i + 1)
                    segs.append([t, list(a)])
                attrs[code] = ('p', segs)
    return {'ann': ann, 'wd': wd, 'attrs': attrs}


# ------------------------------------------------------------------------------- comparison of an observation with the reference


def seg_norm(segs):
    """AS path value up to the grouping of consecutive AS_SEQUENCE (or AS_CONFED_SEQUENCE) segments, which any
    wire encoding may split (255 per segment) or join without changing the path"""
    out = []
    for t, a in segs:
        t, a = int(t), [int(x) for x in a]
        if out and out[-1][0] == t and t in (2, 3):
            out[-1][1] += a
        else:
            out.append([t, a])
    return out


def obs_vs_expected(o, exp):
    """-> list of difference strings between an implementation observation (kind upd) and the reference"""
    diffs = []
    ann = [((tuple(n['fam']), n['pid'], n['rd'], n['mask'], tuple(n['pfx']), tuple(w >> 4 for w in n['labels'])), tuple(nh)) for n, nh in o['ann']]
    wd = [(tuple(n['fam']), n['pid'], n['rd'], n['mask'], tuple(n['pfx']), ()) for n in o['wd']]
    if sorted(ann, key=repr) != sorted(exp['ann'], key=repr):
        diffs.append(f'announce: got {sorted(ann, key=repr)} expected {sorted(exp["ann"], key=repr)}')
    elif ann != exp['ann']:
        pass  # order inside a section is not part of the property
    if sorted(wd, key=repr) != sorted(exp['wd'], key=repr):
        diffs.append(f'withdraw: got {sorted(wd, key=repr)} expected {sorted(exp["wd"], key=repr)}')
    got = {}
    for c, (flag, v) in o['attrs'].items():
        if c in (TAW, DISCARD):
            got[c] = ('pseudo', v[1])
        elif c in KNOWN_CODES:
            got[c] = ('p', seg_norm(v[1])) if v[0] == 'p' else ('b', list(v[1]))
            if v[0] == 'p' and c in exp['attrs'] and exp['attrs'][c][0] == 'p':
                exp = dict(exp, attrs=dict(exp['attrs']))
                exp['attrs'][c] = ('p', seg_norm(exp['attrs'][c][1]))
        else:
            got[c] = ('g', flag, list(v[1]))
    if got != exp['attrs']:
        for c in sorted(set(got) | set(exp['attrs'])):
            if got.get(c) != exp['attrs'].get(c):
                diffs.append(f'attribute {c}: got {got.get(c)} expected {exp["attrs"].get(c)}')
    return diffs


def ip_text(fam, mask, pfx):
    n = 4 if fam[0] == 1 else 16
    addr = bytes(pfx) + bytes(n - len(pfx))
    return f'{ipaddress.ip_address(addr)}/{mask}'


def json_vs_expected(j, exp):
    """announce / withdraw members of the JSON event against the reference: family, next hop, prefix, path-id"""
    diffs = []
    want_a = collections.Counter()
    for (fam, pid, rd, mask, pfx, labels), nh in exp['ann']:
        nhs = str(ipaddress.ip_address(bytes(nh))) if len(nh) in (4, 16) else 'no-nexthop'
        want_a[(FAMNAME[fam], nhs, ip_text(fam, mask, pfx), None if pid is None else str(ipaddress.ip_address(pid)))] += 1
    got_a = collections.Counter()
    for famname, by_nh in j.get('announce', {}).items():
        for nhs, nlris in by_nh.items():
            for e in nlris:
                got_a[(famname, nhs if nhs != 'null' else 'no-nexthop', e.get('nlri'), e.get('path-information'))] += 1
    if got_a != want_a:
        diffs.append(f'json announce: got {dict(got_a)} expected {dict(want_a)}')
    want_w = collections.Counter()
    for fam, pid, rd, mask, pfx, labels in exp['wd']:
        want_w[(FAMNAME[fam], ip_text(fam, mask, pfx), None if pid is None else str(ipaddress.ip_address(pid)))] += 1
    got_w = collections.Counter()
    for famname, nlris in j.get('withdraw', {}).items():
        for e in nlris:
            got_w[(famname, e.get('nlri'), e.get('path-information'))] += 1
    if got_w != want_w:
        diffs.append(f'json withdraw: got {dict(got_w)} expected {dict(want_w)}')
    ja = j.get('attribute', {})
    ea = exp['attrs']
    checks = []
    if 1 in ea:
        checks.append(('origin', ja.get('origin'), ['igp', 'egp', 'incomplete'][ea[1][1][0]]))
    if 4 in ea:
        checks.append(('med', ja.get('med'), int.from_bytes(bytes(ea[4][1]), 'big')))
    if 5 in ea:
        checks.append(('local-preference', ja.get('local-preference'), int.from_bytes(bytes(ea[5][1]), 'big')))
    if 2 in ea:
        names = {1: 'as-set', 2: 'as-sequence', 3: 'as-confed-sequence', 4: 'as-confed-set'}
        want = {str(i): {'element': names[t], 'value': list(a)} for i, (t, a) in enumerate(seg_norm(ea[2][1]))}
        rev = {v: k for k, v in names.items()}
        gotp = ja.get('as-path', {})
        try:
            gotn = seg_norm([[rev[gotp[str(i)]['element']], gotp[str(i)]['value']] for i in range(len(gotp))])
            gotp = {str(i): {'element': names[t], 'value': list(a)} for i, (t, a) in enumerate(gotn)}
        except (KeyError, TypeError):
            pass
        checks.append(('as-path', gotp, want))
    if 8 in ea:
        v = ea[8][1]
        checks.append(('community', ja.get('community'), [[(v[i] << 8) + v[i + 1], (v[i + 2] << 8) + v[i + 3]] for i in range(0, len(v), 4)]))
    if 32 in ea:
        v = ea[32][1]
        checks.append(('large-community', ja.get('large-community'),
                       [[int.from_bytes(bytes(v[i + k : i + k + 4]), 'big') for k in (0, 4, 8)] for i in range(0, len(v), 12)]))
    if 9 in ea:
        checks.append(('originator-id', ja.get('originator-id'), str(ipaddress.ip_address(bytes(ea[9][1])))))
    if 10 in ea:
        v = ea[10][1]
        checks.append(('cluster-list', ja.get('cluster-list'), [str(ipaddress.ip_address(bytes(v[i : i + 4]))) for i in range(0, len(v), 4)]))
    checks.append(('atomic-aggregate', ja.get('atomic-aggregate', False), 6 in ea))
    for c, v in ea.items():
        if v[0] == 'g':
            checks.append((f'attribute-0x{c:02X}-0x{v[1]:02X}', ja.get(f'attribute-0x{c:02X}-0x{v[1]:02X}'), '0x' + bytes(v[2]).hex()))
    for name, got, want in checks:
        if name == 'community' and got is not None:
            # well-known communities are rendered by name
            got = [g if isinstance(g, list) else None for g in got]
            want = [w if g is not None else None for w, g in zip(want, got)] if len(want) == len(got) else want
        if got != want:
            diffs.append(f'json {name}: got {got!r} expected {want!r}')
    for k in ja:
        if k.startswith('attribute-0x'):
            c = int(k[12:14], 16)
            if c not in ea and c not in KNOWN_CODES:
                diffs.append(f'json reports {k} which the peer did not send as a transitive attribute')
    return diffs


def expected_rib(pre, exp):
    """RFC 4271 4.3 / Spec_Wire.ref_rib_after over route keys (labels are not part of a key): withdrawn routes removed,
    announced ones installed; a route both withdrawn and announced by the same UPDATE stays announced"""
    rib = dict(pre)
    for fam, pid, rd, mask, pfx, labels in exp['wd']:
        rib.pop((fam, pid, rd, mask, pfx), None)
    for (fam, pid, rd, mask, pfx, labels), nh in exp['ann']:
        rib[(fam, pid, rd, mask, pfx)] = tuple(nh)
    return rib


def overlap_keys(exp):
    """routes that the UPDATE both announces and withdraws"""
    return {k[0][:5] for k in exp['ann']} & {k[:5] for k in exp['wd']}


# ------------------------------------------------------------------------------- repeat pass: what came before must not matter


def obs_view(o):
    """everything that is judged on a single decode: objects, JSON event"""
    return (impl_canon(o), json.dumps(o.get('json'), sort_keys=True) if 'json' in o else o.get('json_error'))


def run_sequence(sess, bodies, memo):
    """Decode `bodies` in order in ONE process state (the real AttributeCollection.unpack cache live, one Adj-RIB-In).
    Every position must give what the same body gives when decoded from a fresh state (which the single-decode pass
    judges against the reference), and the Adj-RIB-In at the end must be the one those fresh decodes build.
    -> None | (position, what)"""
    fresh = []
    for b in bodies:
        k = (sess.key, bytes(b))
        if k not in memo:
            memo[k] = impl_decode(b, sess)
        fresh.append(memo[k])
    reset_caches()
    rig, ref = RibRig(sess), RibRig(sess)
    for i, b in enumerate(bodies):
        o = impl_decode(b, sess, fresh=False)
        rig.feed(o)
        ref.feed(fresh[i])
        if obs_view(o) != obs_view(fresh[i]):
            reset_caches()
            return (i, f'position {i}: decoded after {i} earlier message(s) {obs_view(o)[0]}; the same body from a fresh state {obs_view(fresh[i])[0]}')
    reset_caches()
    if rig.content() != ref.content():
        return (len(bodies) - 1, f'Adj-RIB-In after the sequence {rig.content()} differs from the one the fresh decodes build {ref.content()}')
    return None


def repeat_pass(candidates, goods, rng, pid):
    """candidates: list of (sess, body, label); goods: sess.key -> list of well-formed non-MP bodies.
    Sequences [good; X; X], [X; X], [X; good; X], [X; Y; X].  -> (number of sequences, failures [(sig, what, case)])"""
    memo, failures, n = {}, [], 0
    by_sess = collections.defaultdict(list)
    for sess, body, label in candidates:
        by_sess[sess.key].append((sess, body, label))
    for key, items in by_sess.items():
        for sess, x, label in items:
            g = rng.choice(goods[key]) if goods.get(key) else None
            y = rng.choice(items)[1]
            seqs = [('X;X', [x, x]), ('X;Y;X', [x, y, x])]
            if g is not None:
                seqs += [('good;X;X', [g, x, x]), ('X;good;X', [x, g, x])]
            for shape, bodies in seqs:
                n += 1
                bad = run_sequence(sess, bodies, memo)
                if bad:
                    failures.append((f'{pid}:history-dependent-decode:{shape}', bad[1][:1500],
                                     {'session': key, 'shape': shape, 'what_is_X': label, 'position': bad[0],
                                      'sequence_hex': [bytes(b).hex() for b in bodies]}))
    return n, failures


# ------------------------------------------------------------------------------- EOR shapes


def eor_cases(rng):
    out = [(b'\0\0\0\0', (1, 1), 'v4-marker')]
    for afi, safi in IPFAMS + [(1, 133), (25, 70), (16388, 71), (3, 9)]:
        out.append((b'\0\0\0\x07\x90\x0f\0\x03' + struct.pack('!HB', afi, safi), (afi, safi), 'mp-unreach-prefix-form'))
    for afi, safi in IPFAMS:
        # same marker written with the extended-length bit or the partial bit: 12 bytes
        out.append((b'\0\0\0\x06\x80\x0f\x03' + struct.pack('!HB', afi, safi), (afi, safi), 'mp-unreach-short-length'))
        out.append((b'\0\0\0\x06\xa0\x0f\x03' + struct.pack('!HB', afi, safi), (afi, safi), 'mp-unreach-partial-bit'))
    return out


# ------------------------------------------------------------------------------- check


def describe(desc):
    d = {k: desc[k] for k in ('withdrawn', 'nlri', 'mp_reach', 'mp_unreach')}
    d['attrs'] = [{k: a[k] for k in a if k != 'sem'} for a in desc['attrs']]
    return d


def check(tier, seed):
    run = Run('C02', tier, seed)
    run.trusted = [
        'Coq 8.16.1 kernel (coqc); vm_compute for case evaluation; no native_compute',
        'translate/t5_attrtable.py (reflection of the attribute registry and Family.size into Gen_AttrTable.v)',
        'harness/c02.py: the generator and its RFC encoders (NLRI, TLV, AS path, MP_REACH/MP_UNREACH), `expected` '
        '(semantic content of a description), extraction of fields from the real NLRI / Attribute / IP objects, the '
        'JSON-event-to-route mapping, RibRig (read_message filter re-enacted from the method source + real UpdateHandler '
        'and IncomingRIB), opaque_outcome (real decoder outcome of PMSI/TUNNEL_ENCAP/AIGP/BGP-LS/PREFIX_SID handed to the model)',
        'modelled, not verified: everything in Model_Update.v; the prefix NLRI decoders are Model_Nlri (C15)',
    ]
    run.assumptions = [
        'sessions negotiate the eight IP families, ADD-PATH receive for all or none of them; two of the six sessions negotiate the '
        'RFC 8950 extended next hop (for all four IPv4 families / for ipv4 unicast only)',
        'well-formed = what a conforming peer may send: unused flag bits zero, PARTIAL only on optional attributes, no '
        'duplicate attribute, AS4_PATH only on a 2-byte session, unrecognised attributes carry the Optional bit',
        'labels of withdrawn labelled routes are not compared (RFC 8277: the label field of a withdrawal is ignored)',
    ]
    common.standard_build(run, ['T5'])

    rng = random.Random(seed)
    sessions = make_sessions()
    n = 700 if tier == 'quick' else 30000
    cases = []
    for i in range(n):
        sess = sessions[i % len(sessions)]
        desc = gen_update(rng, sess, overlap=(i % 3 == 0))
        cases.append({'sess': sess, 'desc': desc, 'body': build(desc, sess.addpath), 'kind': 'wellformed'})
    # AS4 merge stream: a 2-byte session, AS_PATH + AS4_PATH of every small shape
    merge = []
    s2 = sessions[2]  # asn4 off, addpath off
    assert not s2.asn4 and not s2.addpath
    shapes2 = [[[2, [1, 23456, 23456]]], [[2, [1, 2]], [1, [3, 4]]], [[2, [23456]], [1, [23456, 5]], [2, [6]]], [[3, [64512]], [2, [1, 23456]]], []]
    shapes4 = [[[2, [70000, 70001]]], [[2, [70000]]], [[1, [70000, 5]], [2, [6]]], [], [[2, [1, 2, 3, 4, 5, 6, 7]]], [[2, [3]]]]
    for p2 in shapes2:
        for p4 in shapes4:
            d = {'withdrawn': [], 'nlri': [{'fam': (1, 1), 'pid': None, 'labels': [], 'rd': None, 'mask': 24, 'pfx': [10, 0, 0]}],
                 'mp_reach': None, 'mp_unreach': None,
                 'attrs': [{'code': 1, 'flags': 0x40, 'value': [0], 'sem': None},
                           {'code': 2, 'flags': 0x40, 'value': list(enc_path(p2, False)), 'sem': p2},
                           {'code': 3, 'flags': 0x40, 'value': [10, 0, 0, 1], 'sem': None},
                           {'code': 17, 'flags': 0xC0, 'value': list(enc_path(p4, True)), 'sem': p4}]}
            cases.append({'sess': s2, 'desc': d, 'body': build(d, False), 'kind': 'as4-merge'})
    n_main = len(cases)
    eors = eor_cases(rng)
    for body, fam, kind in eors:
        cases.append({'sess': sessions[0], 'desc': None, 'body': body, 'kind': 'eor:' + kind, 'eor': fam})

    # ---- implementation
    for c in cases:
        c['impl'] = impl_decode(c['body'], c['sess'])
    # ---- model (repaired and pinned) and reference decoder, in Coq
    ok, ev, logs = eval_two_pass(cases, 'c02', True)
    run.obligation('model and reference evaluation (vm_compute of dec_update, dec_update_pinned, ref_update on every case) ran',
                   ok, '\n'.join(logs)[-2500:])

    corr_fixed, corr_pinned, spec_bad, prop_bad = [], [], [], []
    dist = collections.Counter()
    for i, c in enumerate(cases):
        ic = impl_canon(c['impl'])
        dist[c['impl']['kind']] += 1
        mf = model_canon(ev['fixed'][i]) if ev['fixed'][i] else None
        mp = model_canon(ev['pinned'][i]) if ev['pinned'][i] else None
        c['agree_fixed'], c['agree_pinned'] = (mf == ic), (mf == ic or mp == ic)
        if not c['agree_fixed']:
            corr_fixed.append(i)
        if not c['agree_pinned']:
            corr_pinned.append(i)
        if c['desc'] is not None:
            exp = expected(c['desc'], c['sess'])
            c['exp'] = exp
            rf = ref_canon(ev['ref'][i]) if ev['ref'][i] else 'no-eval'
            # the Coq reference decoder must agree with the generator's semantic content
            rfn = rf
            if isinstance(rf, dict):
                rfn = {'ann': sorted(rf['ann'], key=repr), 'wd': sorted(rf['wd'], key=repr), 'attrs': rf['attrs']}
            expn = {'ann': sorted(exp['ann'], key=repr), 'wd': sorted(exp['wd'], key=repr), 'attrs': exp['attrs']}
            empty = not exp['ann'] and not exp['wd'] and not exp['attrs']
            if rfn != expn and not (empty and isinstance(rf, tuple)):
                spec_bad.append((i, f'Spec_Wire.ref_update = {rfn} generator = {expn}'))
            # property oracle on the implementation output
            o = c['impl']
            if o['kind'] == 'eor' and empty:
                continue
            if o['kind'] != 'upd':
                prop_bad.append((i, sig_for(c, [f'well-formed UPDATE not decoded: {o}']), f'{o}'))
                continue
            diffs = obs_vs_expected(o, exp)
            if 'json' in o:
                diffs += json_vs_expected(o['json'], exp)
            else:
                diffs.append('json: ' + o.get('json_error', 'not rendered'))
            if diffs:
                prop_bad.append((i, sig_for(c, diffs), '; '.join(diffs)[:1500]))
        else:
            fam = c['eor']
            o = c['impl']
            if o['kind'] != 'eor' or tuple(o['fam']) != tuple(fam):
                prop_bad.append((i, 'C02:eor-not-recognised:' + c['kind'], f'expected EOR {fam}, got {impl_canon(o)}'))

    # ---- Adj-RIB-In: (rib - withdrawn) (+) announced, from a pre-state that holds the routes to be withdrawn
    rib_bad = []
    n_rib = 0
    for i, c in enumerate(cases[:n_main]):
        if c['impl']['kind'] != 'upd' or i % 2:
            continue
        n_rib += 1
        sess, desc = c['sess'], c['desc']
        rig = RibRig(sess)
        pre = {'withdrawn': [], 'nlri': [dict(x, labels=[]) for x in desc['withdrawn']], 'mp_reach': None, 'mp_unreach': None,
               'attrs': [{'code': 1, 'flags': 0x40, 'value': [0], 'sem': None}, {'code': 2, 'flags': 0x40, 'value': [], 'sem': []},
                         {'code': 3, 'flags': 0x40, 'value': [192, 0, 2, 1], 'sem': None}]}
        if desc['mp_unreach']:
            fam = desc['mp_unreach']['fam']
            nl = []
            for x in desc['mp_unreach']['nlris']:
                y = dict(x)
                if fam[1] in (4, 128):
                    y['labels'] = [(100 << 4) | 1]
                nl.append(y)
            pre['mp_reach'] = {'fam': fam, 'nh': [192, 0, 2, 1] if fam[0] == 1 else [0x20, 1] + [0] * 13 + [1], 'nlris': nl}
            pre['attrs'].append({'code': 14, 'flags': 0x80, 'value': list(enc_mp_reach(pre['mp_reach'], sess.addpath)), 'sem': None})
        o0 = impl_decode(build(pre, sess.addpath), sess, json_too=False)
        rig.feed(o0)
        before = {k: v[0] for k, v in rig.content().items()}
        exp0 = expected(pre, sess)
        if before != expected_rib({}, exp0):
            rib_bad.append((i, 'C02:rib-in-differs:pre-state', f'pre-state {before} expected {expected_rib({}, exp0)}'))
            continue
        rig.feed(impl_decode(c['body'], sess, json_too=False))
        after = rig.content()
        want = expected_rib(before, c['exp'])
        got = {k: v[0] for k, v in after.items()}
        if got != want:
            diff = {k for k in set(got) | set(want) if got.get(k) != want.get(k)}
            if diff and diff <= overlap_keys(c['exp']):
                rib_bad.append((i, 'C02:rib-in:withdrawn-and-announced-route-lost',
                                f'the UPDATE withdraws and announces {sorted(diff)[:2]}: RFC 4271 4.3 keeps the announcement, Adj-RIB-In holds {got} expected {want}'))
            else:
                rib_bad.append((i, sig_for(c, ['rib']) .replace('C02:', 'C02:rib-in:'), f'Adj-RIB-In {got} expected {want}'))
            continue
        # attributes stored with the announced routes = the reference attribute map
        for (key, nh) in [((k[0], k[1], k[2], k[3], k[4]), nh) for k, nh in c['exp']['ann']]:
            stored = after.get(key)
            if stored is None:
                continue
            fake = {'ann': [], 'wd': [], 'attrs': stored[1]}
            d = [x for x in obs_vs_expected(fake, {'ann': [], 'wd': [], 'attrs': c['exp']['attrs']})]
            if d:
                rib_bad.append((i, sig_for(c, d).replace('C02:', 'C02:rib-in:'), '; '.join(d)[:800]))
                break

    # ---- repeat pass: sequences in one process state, every position judged as the single decode of that body
    n_x = 70 if tier == 'quick' else 1500
    pool = [c for c in cases]
    picked = [c for c in pool if c['kind'] != 'wellformed'][:40] + rng.sample([c for c in pool if c['kind'] == 'wellformed'], min(n_x, n))
    goods = collections.defaultdict(list)
    for c in cases[:n]:
        d = c['desc']
        if c['impl']['kind'] == 'upd' and d['nlri'] and not d['mp_reach'] and not d['mp_unreach'] and len(goods[c['sess'].key]) < 8:
            goods[c['sess'].key].append(c['body'])
    n_seq, rep_bad = repeat_pass([(c['sess'], c['body'], c['kind']) for c in picked], goods, rng, 'C02')

    def first(lst):
        if not lst:
            return ''
        i = lst[0] if isinstance(lst[0], int) else lst[0][0]
        c = cases[i]
        return (f'case {i} kind={c["kind"]} session={c["sess"].key} body={bytes(c["body"]).hex()} impl={impl_canon(c["impl"])} '
                f'fixed={model_canon(ev["fixed"][i]) if ev["fixed"][i] else None} pinned={model_canon(ev["pinned"][i]) if ev["pinned"][i] else None}')[:3000]

    # correspondence: the tree under check must be one of the two modelled generations, case by case
    neither = [i for i in corr_fixed if i in set(corr_pinned)]
    run.obligation(f'correspondence: Message.unpack (outcome, announces with next hop, withdraws, attribute objects) = Model_Update '
                   f'(repaired or pinned generation) on {len(cases)} bodies', not neither, f'{len(neither)} disagree with both; first: {first(neither)}')
    run.obligation(f'correspondence with the REPAIRED model dec_update on {len(cases)} bodies (the theorems of Prop_C02 are about it)',
                   not corr_fixed, f'{len(corr_fixed)} disagreements ({len(corr_fixed) - len(neither)} of them match the pinned model); first: {first(corr_fixed)}')
    run.obligation(f'reference decoder Spec_Wire.ref_update (Coq) = semantic content owned by the generator on {n_main} well-formed bodies',
                   not spec_bad, f'{len(spec_bad)} differ; first: {spec_bad[0] if spec_bad else ""}'[:2500])
    run.obligation(f'property oracle: objects and JSON event of the implementation = reference content on {n_main} well-formed bodies; '
                   f'{len(eors)} End-of-RIB shapes recognised for their family', not prop_bad,
                   f'{len(prop_bad)} failing; first: {prop_bad[0] if prop_bad else ""}'[:2500])
    run.obligation(f'property oracle: Adj-RIB-In after the UPDATE = (before - withdrawn) + announced, attributes as the reference, on {n_rib} bodies',
                   not rib_bad, f'{len(rib_bad)} failing; first: {rib_bad[0] if rib_bad else ""}'[:2500])

    from translate import t5_attrtable
    try:
        wfirst, wmsg = t5_attrtable._probe_ribin_order(), ''
    except Exception as exc:
        wfirst, wmsg = False, str(exc)
    run.obligation('UpdateHandler.handle / handle_async apply the withdraws of an UPDATE before its announces (hypothesis '
                   'RIBIN_WITHDRAW_FIRST = true of C02_ribin_tree and C02_ribin_reference, read from the source by T5)',
                   wfirst, wmsg or 'the announce loop comes first: a route both withdrawn and announced by one UPDATE is lost (RFC 4271 4.3)')
    run.coverage['withdrawn_and_announced_cases'] = sum(1 for c in cases if c.get('exp') and overlap_keys(c['exp']))
    run.obligation('repeat pass: in one process state (AttributeCollection.unpack cache live, one Adj-RIB-In) every position of the '
                   'sequences [good;X;X] [X;X] [X;good;X] [X;Y;X] decodes as the same body decoded from a fresh state',
                   not rep_bad, f'{n_seq} sequences; {len(rep_bad)} failing; first: {rep_bad[0] if rep_bad else ""}'[:2500])
    rep_seen = set()
    for sig, what, case in rep_bad:
        key = ':'.join(sig.split(':')[:2])
        if key not in rep_seen:
            rep_seen.add(key)
            run.fail_case(key, what, case)
    run.coverage['repeat_pass_sequences'] = n_seq

    seen = set()
    for i, sig, what in prop_bad + rib_bad:
        if sig in seen:
            continue
        seen.add(sig)
        c = cases[i]
        case = {'session': c['sess'].key, 'body_hex': bytes(c['body']).hex(), 'kind': c['kind'],
                'description': describe(c['desc']) if c['desc'] else None, 'observed': str(impl_canon(c['impl']))[:1500]}
        if c['desc'] is not None and sig.startswith('C02:'):
            case = shrink(c, sig, case)
        run.fail_case(sig, what, case)

    run.coverage.update({
        'evaluations': len(cases),
        'distinct_nontrivial': len({bytes(c['body']) for c in cases if len(c['body']) > 4}),
        'rule': f'{n} well-formed UPDATE descriptions (random mix of withdrawn / NLRI / MP_REACH / MP_UNREACH over the 8 IP families, '
                f'attributes of the core set + unknown optional ones in any order, extended-length flag on 20%, PARTIAL on 25% of optional '
                f'ones, 1-3 NLRIs per section, duplicates inside LARGE_COMMUNITY) round-robin over 6 sessions (asn4 x ADD-PATH, two with RFC 8950 extended next hop), '
                f'{len(shapes2) * len(shapes4)} AS_PATH x AS4_PATH shape pairs on a 2-byte session, {len(eors)} End-of-RIB shapes; '
                f'non-trivial = distinct body longer than 4 bytes',
        'outcome_distribution': dict(dist),
        'sessions': [s.key for s in sessions],
        'attribute_code_histogram': dict(collections.Counter(a['code'] for c in cases if c['desc'] for a in c['desc']['attrs'])),
        'section_histogram': dict(collections.Counter(
            ('wd' if c['desc']['withdrawn'] else '') + ('+nlri' if c['desc']['nlri'] else '') + ('+reach' if c['desc']['mp_reach'] else '')
            + ('+unreach' if c['desc']['mp_unreach'] else '') for c in cases if c['desc'])),
        'adj_rib_in_cases': n_rib,
        'ipv6_next_hop_for_ipv4_family_cases': sum(1 for c in cases if c['desc'] and c['desc']['mp_reach']
                                                    and c['desc']['mp_reach']['fam'][0] == 1 and len(c['desc']['mp_reach']['nh']) >= 16),
        'read_message_drops_discard': READ_MESSAGE_DROPS_DISCARD(),
        'exhaustive': False,
    })
    for c in cases[:3]:
        run.samples.append({'session': c['sess'].key, 'body': bytes(c['body']).hex(), 'impl': str(impl_canon(c['impl']))[:500]})
    if run.broken() and not run.failing:
        run.coverage['search'] = f'{len(cases)} bodies judged by the reference content; none failed the property itself'
    return run.finish(checker_cmd='make -C coq props/Prop_C02.vo && coqc -Q coq ExaV coq/props/Prop_C02.v (Print Assumptions)')


def sig_for(c, diffs):
    """specific, stable signature of a failing well-formed case"""
    text = ' '.join(diffs)
    codes = {a['code'] for a in c['desc']['attrs']} if c['desc'] else set()
    mp0 = c['desc'].get('mp_reach') if c['desc'] else None
    if 'not decoded' in text and 'next-hop length 48' in text and mp0 and tuple(mp0['fam']) == (2, 128) and len(mp0['nh']) == 40:
        return 'C02:vpn6-nexthop-48-refused'
    if 2 in codes and 17 in codes and ('attribute 2' in text or 'as-path' in text or 'not decoded' in text or 'attribute 17' in text):
        if 'not decoded' in text:
            return 'C02:as4-merge:exception'
        return 'C02:as4-merge:wrong-path'
    if 'not decoded' in text:
        mp = c['desc'].get('mp_reach') if c['desc'] else None
        if mp and tuple(mp['fam']) == (2, 128) and len(mp['nh']) == 40:
            return 'C02:vpn6-nexthop-48-refused'
        return 'C02:well-formed-update-refused'
    if 'announce' in text or 'withdraw' in text:
        return 'C02:routes-differ'
    m = re.search(r'attribute (\d+)', text)
    if m:
        return f'C02:attribute-value-differs:{m.group(1)}'
    return 'C02:event-differs'


def shrink(c, sig, case):
    """drop attributes / routes while the same signature remains"""
    sess = c['sess']
    desc = json.loads(json.dumps({k: c['desc'][k] for k in c['desc']}))  # deep copy (tuples -> lists)
    for a, b in zip(desc['attrs'], c['desc']['attrs']):
        a['sem'] = b.get('sem')

    def fix(d):
        for n in d['withdrawn'] + d['nlri'] + (d['mp_reach']['nlris'] if d['mp_reach'] else []) + (d['mp_unreach']['nlris'] if d['mp_unreach'] else []):
            n['fam'] = tuple(n['fam'])
        for k in ('mp_reach', 'mp_unreach'):
            if d[k]:
                d[k]['fam'] = tuple(d[k]['fam'])
        return d

    desc = fix(desc)

    def fails(d):
        o = impl_decode(build(d, sess.addpath), sess)
        exp = expected(d, sess)
        if o['kind'] != 'upd':
            ds = [f'well-formed UPDATE not decoded: {o["kind"]}'] if (exp['ann'] or exp['wd'] or exp['attrs']) else []
        else:
            ds = obs_vs_expected(o, exp) + (json_vs_expected(o['json'], exp) if 'json' in o else ['json'])
        return bool(ds) and sig_for({'desc': d}, ds) == sig.replace('C02:rib-in:', 'C02:')

    if not fails(desc):
        return case
    # whole sections first, then single routes, then attributes
    for sect, code in (('mp_reach', 14), ('mp_unreach', 15)):
        if desc[sect] is not None:
            cand = dict(desc, attrs=[a for a in desc['attrs'] if a['code'] != code])
            cand[sect] = None
            if (cand['nlri'] or cand['withdrawn'] or cand['mp_reach'] or cand['mp_unreach']) and fails(cand):
                desc = cand
    for sect in ('withdrawn', 'nlri'):
        while len(desc[sect]) > (0 if (desc['mp_reach'] or desc['mp_unreach'] or desc['nlri' if sect == 'withdrawn' else 'withdrawn']) else 1):
            cand = dict(desc)
            cand[sect] = desc[sect][1:]
            if not fails(cand):
                break
            desc = cand
    changed = True
    while changed:
        changed = False
        for k in range(len(desc['attrs'])):
            if desc['attrs'][k]['code'] in (14, 15):
                continue
            cand = dict(desc, attrs=desc['attrs'][:k] + desc['attrs'][k + 1 :])
            if fails(cand):
                desc, changed = cand, True
                break
    body = build(desc, sess.addpath)
    case = dict(case, body_hex=bytes(body).hex(), description=describe(desc), observed=str(impl_canon(impl_decode(body, sess)))[:1500])
    return case


def replay(path):
    """./check C02 --replay <file>: decode the recorded body again; the oracle is Spec_Wire.ref_update evaluated in Coq"""
    data = json.load(open(path))
    case = data.get('case', data)
    run = Run('C02', 'replay', 0)
    common.standard_build(run, ['T5'])
    sess = next(s for s in make_sessions() if s.key == case['session'])
    body = bytes.fromhex(case['body_hex'])
    o = impl_decode(body, sess)
    c = {'sess': sess, 'body': body, 'impl': o}
    ok, ev, _ = eval_two_pass([c], 'c02r', True)
    ic = impl_canon(o)
    agree_fixed = bool(ev['fixed'][0]) and model_canon(ev['fixed'][0]) == ic
    agree_pinned = bool(ev['pinned'][0]) and model_canon(ev['pinned'][0]) == ic
    ref = ref_canon(ev['ref'][0]) if ev['ref'][0] else None
    diffs = []
    if isinstance(ref, dict):
        if o['kind'] != 'upd':
            diffs.append(f'well-formed UPDATE not decoded: {ic}')
        else:
            diffs = obs_vs_expected(o, ref) + (json_vs_expected(o['json'], ref) if 'json' in o else ['json not rendered'])
    elif isinstance(ref, tuple):
        if o['kind'] != 'eor' or tuple(o['fam']) != tuple(ref[1:]):
            diffs.append(f'End-of-RIB {ref[1:]} expected, got {ic}')
    print(json.dumps({'session': sess.key, 'body': body.hex(), 'reference': 'not a well-formed UPDATE' if ref is None else str(ref)[:1500],
                      'observed': str(ic)[:1500], 'matches_repaired_model': agree_fixed, 'matches_pinned_model': agree_pinned,
                      'property': diffs or 'holds'}, indent=1))
    common.cleanup()
    return 1 if diffs or not (agree_fixed or agree_pinned) else 0
