"""CLI: ./check <ID> [--tier quick|thorough] [--seed N] | --setup"""

from __future__ import annotations

import argparse
import importlib
import os
import sys
import time

from harness import common


def setup() -> int:
    t0 = time.time()
    res = common.run_all_translators()
    for name, ok, msg in res:
        print(f'translator {name}: {"ok" if ok else "FAILED " + msg}')
    bad = common.forbidden_scan()
    if bad:
        print('forbidden constructs:', bad)
    ok, log = common.coq_make(None, timeout=3000)
    print(log[-3000:])
    # the build of a property that is not claimed yet (work in progress) must not fail the setup
    import json

    manifest = json.load(open(os.path.join(common.VERIF, 'MANIFEST.json')))
    missing = []
    for chk in manifest.get('checks', []):
        vo = os.path.join(common.COQ, 'props', f'Prop_{chk["property_id"]}.vo')
        if not os.path.exists(vo):
            missing.append(chk['property_id'])
    print(f'setup: make {"ok" if ok else "had failures"}; claimed property files missing: {missing}; {time.time() - t0:.1f}s')
    common.cleanup()
    return 0 if not missing and not bad else 1


def main() -> int:
    if '--setup' in sys.argv[1:] or 'setup' in sys.argv[1:2]:
        return setup()
    ap = argparse.ArgumentParser()
    ap.add_argument('target')
    ap.add_argument('--tier', default=os.environ.get('VERIF_TIER', 'quick'))
    ap.add_argument('--seed', type=int, default=int(os.environ.get('VERIF_SEED', '1') or 1))
    ap.add_argument('--replay')
    args = ap.parse_args()
    if args.target == '--setup':
        return setup()
    pid = args.target.upper()
    mod = importlib.import_module(f'harness.{pid.lower()}')
    # one check at a time: coq/gen is regenerated from the tree under check (VERIF_REPO or /repo) at the
    # start of every run, two concurrent runs on different trees would overwrite each other's models
    import fcntl

    lock = open(os.path.join(common.VERIF, '.check.lock'), 'w')
    fcntl.flock(lock, fcntl.LOCK_EX)
    try:
        if args.replay:
            return mod.replay(args.replay)
        try:
            return mod.check(args.tier, args.seed)
        except Exception:  # noqa: BLE001
            # the harness itself did not survive the tree it was pointed at (an entry point it drives was rewritten, or
            # the implementation raised where the harness expects none): the property is no longer shown to hold
            import hashlib, json, traceback

            tb = traceback.format_exc()
            d = os.path.join(common.VERIF, 'replays', pid)
            os.makedirs(d, exist_ok=True)
            path = os.path.join(d, 'broken-%s.json' % hashlib.sha1(tb.encode()).hexdigest()[:12])
            with open(path, 'w') as f:
                json.dump({'property': pid, 'kind': 'check-did-not-complete', 'tier': args.tier, 'seed': args.seed,
                           'what': 'the correspondence harness raised before its obligations were decided; no theorem or '
                                   'correspondence of this property is shown on this tree',
                           'traceback': tb.splitlines()[-40:]}, f, indent=1)
            print(tb[-3000:], flush=True)
            print(f'[{pid}] obligation FAILED: the check ran to completion: {tb.strip().splitlines()[-1][:300]}', flush=True)
            print(f'VIOLATION property={pid} replay={path} no-failing-input-found', flush=True)
            return 1
    finally:
        fcntl.flock(lock, fcntl.LOCK_UN)


if __name__ == '__main__':
    sys.exit(main())
