"""C07 - negotiated session parameters are the RFC function of the two OPENs.  H-open + property oracle.

Implementation side: a Neighbor parsed from a generated text configuration, our OPEN built by
Capabilities().new + Open.make_open + pack_message, the peer OPEN given as BYTES to Message.unpack,
Negotiated.sent/received/validate.  Model side: Model_Open.session / enc_open (vm_compute).  Oracle:
Spec_Open.rfc_negotiate / rfc_faults on the advertisement views that the generator itself knows (it
built the peer OPEN; our view is read off the configuration), never on the model's decoder."""

from __future__ import annotations

import collections
import random
import time

from harness import common
from harness.common import Run, zlist

AS_TRANS = 23456
FAMILY_NAMES = {
    (1, 1): 'ipv4 unicast', (1, 2): 'ipv4 multicast', (1, 4): 'ipv4 nlri-mpls', (1, 128): 'ipv4 mpls-vpn',
    (1, 133): 'ipv4 flow', (1, 134): 'ipv4 flow-vpn', (1, 85): 'ipv4 mup', (1, 5): 'ipv4 mcast-vpn',
    (2, 1): 'ipv6 unicast', (2, 4): 'ipv6 nlri-mpls', (2, 128): 'ipv6 mpls-vpn',
    (2, 133): 'ipv6 flow', (2, 134): 'ipv6 flow-vpn', (2, 85): 'ipv6 mup',
    (25, 65): 'l2vpn vpls', (25, 70): 'l2vpn evpn', (16388, 71): 'bgp-ls bgp-ls',
}
ALL_FAMS = sorted(FAMILY_NAMES)
ADDPATH_OK = [(1, 1), (2, 1), (1, 4), (2, 4), (1, 128), (2, 128), (1, 85), (2, 85)]
NEXTHOP_OK = [(1, 1, 2), (1, 2, 2), (1, 4, 2), (1, 128, 2)]
AFI_NAME = {1: 'ipv4', 2: 'ipv6'}
SAFI_NAME = {1: 'unicast', 2: 'multicast', 4: 'nlri-mpls', 128: 'mpls-vpn'}
ASNS = [1, 64512, 65000, 65534, 65535, 65536, 70000, 4200000000, 4294967295]


# ------------------------------------------------------------------------------- configurations


def gen_config(rng, idx, big=False):
    """-> dict describing a neighbor configuration (JSON-able) with its text."""
    local_as = rng.choice(ASNS) if rng.random() > 0.12 else 0  # 0: local-as auto (the peer's AS is mirrored)
    r = rng.random()
    if r < 0.35:
        peer_as = local_as  # iBGP
    elif r < 0.45:
        peer_as = None  # not configured: any AS accepted
    else:
        peer_as = rng.choice(ASNS)
    rid = rng.choice([0x01020304, 0x0A000001, 0xC0A80001, 0xFFFFFFFE, rng.randint(1, 0xFFFFFFFF)])
    hold = rng.choice([0, 3, 4, 90, 180, 180, 65535, rng.randint(3, 65535)])
    if big or rng.random() < 0.1:
        fams = 'all'
    else:
        fams = rng.sample(ALL_FAMS, rng.choice([0, 1, 1, 2, 3, 5, 8]))
    cap = {
        'asn4': rng.random() < 0.8,
        'route-refresh': rng.random() < 0.6,
        'graceful-restart': rng.choice([None, None, 0, 120, 4095]),
        'add-path': rng.choice(['disable', 'disable', 'send', 'receive', 'send/receive']),
        'extended-message': rng.random() < 0.6,
        'nexthop': rng.random() < 0.4,
        'software-version': rng.random() < 0.3,
        'operational': rng.random() < 0.2,
        'link-local-nexthop': rng.random() < 0.2,
    }
    if big:
        cap.update({'asn4': True, 'route-refresh': True, 'graceful-restart': 120, 'add-path': 'send/receive',
                    'extended-message': True, 'nexthop': True, 'software-version': True})
    addpaths = rng.sample(ADDPATH_OK[:6], rng.choice([0, 1, 2, 4, 6])) if cap['add-path'] != 'disable' else []
    nexthops = rng.sample(NEXTHOP_OK, rng.choice([0, 1, 2, 4])) if cap['nexthop'] else []
    if big:
        addpaths, nexthops = ADDPATH_OK[:6], list(NEXTHOP_OK)
    limits = {f: rng.choice([1, 10, 65535]) for f in addpaths if rng.random() < 0.4}
    multisession = rng.random() < 0.2 and not big
    host = rng.choice(['', '', 'rtr1', 'a' * 63, 'b' * 64, 'c' * 70, 'edge-' + str(idx)])
    domain = rng.choice(['', 'example.net', 'd' * 64, 'e' * 80]) if host else ''
    if big:
        host, domain = 'my-host-name', 'my.domain.example'
    lines = ['neighbor 127.0.0.1 {', f'  router-id {rid >> 24}.{(rid >> 16) & 255}.{(rid >> 8) & 255}.{rid & 255};',
             '  local-address 127.0.0.2;', f'  local-as {local_as if local_as else "auto"};']
    lines.append(f'  peer-as {peer_as if peer_as is not None else "auto"};')  # auto: any AS is accepted
    lines.append(f'  hold-time {hold};')
    if host:
        lines.append(f'  host-name {host};')
    if domain:
        lines.append(f'  domain-name {domain};')
    if fams == 'all':
        lines.append('  family { all; }')
    elif fams:
        lines.append('  family { ' + ' '.join(FAMILY_NAMES[f] + ';' for f in fams) + ' }')
    c = ['  capability {']
    for k in ('asn4', 'route-refresh', 'extended-message', 'nexthop', 'software-version', 'operational', 'link-local-nexthop'):
        c.append(f'    {k} {"enable" if cap[k] else "disable"};')
    c.append('    graceful-restart %s;' % ('disable' if cap['graceful-restart'] is None else cap['graceful-restart']))
    c.append(f'    add-path {cap["add-path"]};')
    c.append('    multi-session %s;' % ('enable' if multisession else 'disable'))
    c.append('  }')
    lines += c
    if addpaths:
        lines.append('  add-path { ' + ' '.join(FAMILY_NAMES[f] + (f' limit {limits[f]};' if f in limits else ';') for f in addpaths) + ' }')
    if nexthops:
        lines.append('  nexthop { ' + ' '.join(f'{AFI_NAME[a]} {SAFI_NAME[s]} {AFI_NAME[h]};' for a, s, h in nexthops) + ' }')
    lines.append('}')
    return {'text': '\n'.join(lines), 'restarted': rng.random() < 0.2, 'big': big, 'any_peer_as': peer_as is None}


def load_neighbor(conf):
    from exabgp.configuration.configuration import Configuration

    c = Configuration([conf['text']], text=True)
    if not c.reload():
        return None
    return next(iter(c.neighbors.values()))


def rid_int(router_id):
    a, b, c, d = (int(x) for x in str(router_id).split('.'))
    return (a << 24) | (b << 16) | (c << 8) | d


def cfg_of_neighbor(n, restarted):
    """The abstraction map Neighbor -> Model_Open.cfg (only attribute reads)."""
    from exabgp.version import version

    cap = n.capability
    return {
        'local_as': int(n.session.local_as),
        'peer_as': int(n.session.peer_as or 0),
        'rid': rid_int(n.session.router_id),
        'hold': int(n.hold_time),
        'families': [(int(a), int(s)) for a, s in n.families()],
        'asn4': cap.asn4.is_enabled(),
        'nexthop': cap.nexthop.is_enabled(),
        'nexthops': [(int(a), int(s), int(h)) for a, s, h in n.nexthops()],
        'addpath': int(cap.add_path),
        'addpaths': [(int(a), int(s)) for a, s in n.addpaths()],
        'gr': bool(cap.graceful_restart),
        'gr_time': int(cap.graceful_restart.time),
        'restarted': bool(restarted),
        'refresh': bool(cap.route_refresh),
        'operational': cap.operational.is_enabled(),
        'extmsg': cap.extended_message.is_enabled(),
        'host': list((n.host_name or '').encode('utf-8')),
        'domain': list((n.domain_name or '').encode('utf-8')),
        'software': list(f'ExaBGP/{version}'.encode('utf-8')) if cap.software_version else [],
        'linklocal': cap.link_local_nexthop.is_enabled(),
        'multisession': cap.multi_session.is_enabled(),
        'paths_limit': [((int(f[0]), int(f[1])), int(v)) for f, v in cap.paths_limit_per_family.items()],
    }


def auto_as(peer_adv):
    """local-as auto: the AS of the session is the peer's true AS."""
    return peer_adv['as4'][-1] if peer_adv['as4'] else peer_adv['as2']


def our_adv(cfg, peer_adv=None):
    """What the configuration enables, as a Spec_Open.adv (the independent reading of Capabilities.new)."""
    if cfg['local_as'] == 0:
        cfg = dict(cfg, local_as=auto_as(peer_adv))
    return {
        'version': 4,
        'as2': cfg['local_as'] if cfg['local_as'] <= 65535 else AS_TRANS,
        'hold': cfg['hold'],
        'id': cfg['rid'],
        'mp': list(cfg['families']),
        'as4': [cfg['local_as']] if cfg['asn4'] else [],
        'addpath': [(f, cfg['addpath']) for f in ADDPATH_OK if f in cfg['addpaths']] if cfg['addpath'] else [],
        'nexthop': [t for t in NEXTHOP_OK if t in cfg['nexthops']] if cfg['nexthop'] else [],
        'extmsg': cfg['extmsg'],
        'refresh': cfg['refresh'],
        'enhanced': cfg['refresh'],
        # a limit is advertised for the families we accept several paths for
        'pl': [(f, v) for f, v in cfg['paths_limit'] if f in ADDPATH_OK and f in cfg['addpaths'] and v > 0]
              if cfg['addpath'] in (1, 3) else [],
        'ms': cfg['multisession'],
        'ms_ids': [1] if cfg['multisession'] else [],  # sessions are grouped on MULTIPROTOCOL
    }


# ------------------------------------------------------------------------------- peer OPENs (bytes)


def be16(x):
    return bytes([(x >> 8) & 255, x & 255])


def be32(x):
    return bytes([(x >> 24) & 255, (x >> 16) & 255, (x >> 8) & 255, x & 255])


def cap_bytes(c):
    """structured capability -> (code, value bytes); the generator's own encoder (RFC formats)."""
    k = c[0]
    if k == 'mp':
        return 1, be16(c[1][0]) + bytes([c[2], c[1][1]])  # c[2] = reserved octet
    if k == 'as4':
        return 65, (be32(c[1]) if not c[2] else be16(c[1]))  # c[2]: 2 octet form (accepted by the code)
    if k == 'addpath':
        return 69, b''.join(be16(f[0]) + bytes([f[1], sr]) for f, sr in c[1])
    if k == 'nexthop':
        return 5, b''.join(be16(a) + bytes([0, s]) + be16(h) for a, s, h in c[1])
    if k == 'ext':
        return 6, bytes(c[1])
    if k == 'rr':
        return 2, b''
    if k == 'err':
        return 70, b''
    if k == 'gr':
        return 64, be16((c[1] << 12) | c[2]) + b''.join(be16(f[0]) + bytes([f[1], fl]) for f, fl in c[3])
    if k == 'pl':
        return 76, b''.join(be16(f[0]) + bytes([f[1]]) + be16(v) for f, v in c[1])
    if k == 'ms':
        return 68, bytes(c[1])
    if k == 'raw':
        return c[1], bytes(c[2])
    raise ValueError(k)


def pack_params(rng, tlvs, extended, grouping):
    """capability TLVs -> optional parameters field (with its length octet(s))."""
    groups = []
    cur = b''
    for code, val in tlvs:
        tlv = bytes([code, len(val)]) + val
        if grouping == 'one' or (grouping == 'mixed' and rng.random() < 0.5) or len(cur) + len(tlv) > 250:
            if cur:
                groups.append(cur)
            cur = tlv
        else:
            cur += tlv
    if cur:
        groups.append(cur)
    std = b''.join(bytes([2, len(g)]) + g for g in groups)
    if not extended and len(std) <= 255:
        return bytes([len(std)]) + std, False
    ext = b''.join(bytes([2]) + be16(len(g)) + g for g in groups)
    # RFC 9072 s.2: the type octet 255 selects the encoding; the length octet before it SHOULD be 255, MUST NOT be 0
    # and is ignored by the receiver
    lenoct = rng.choice([255, 255, 255, 1, 4, 200, 254])
    return bytes([lenoct, 255]) + be16(len(ext)) + ext, lenoct


def gen_peer(rng, cfg, stream):
    """-> dict(body bytes, adv (what it advertises), kind, notes).  stream: 'valid' | 'odd' | 'malformed'."""
    fam_pool = list(dict.fromkeys(cfg['families'] + rng.sample(ALL_FAMS, 4) + [(1, 1), (2, 1), (3, 7), (1, 200)]))
    # AS numbers
    r = rng.random()
    if cfg['peer_as'] and r < 0.75:
        true_as = cfg['peer_as']
    elif r < 0.85:
        true_as = cfg['local_as']
    else:
        true_as = rng.choice(ASNS + [AS_TRANS, 2, 65537])
    has_as4 = rng.random() < 0.8 or true_as > 65535
    as2 = true_as if true_as <= 65535 else AS_TRANS
    version = 4 if rng.random() < 0.96 else rng.choice([0, 3, 5, 255])
    hold = rng.choice([0, 1, 2, 3, 4, 30, 90, 180, 65535, rng.randint(0, 65535)])
    r = rng.random()
    rid = cfg['rid'] if r < 0.25 else (0 if r < 0.30 else rng.choice([0x01020305, 0x0A0A0A0A, rng.randint(1, 0xFFFFFFFF)]))
    caps = []
    nmp = rng.choice([0, 1, 2, 3, 5, len(fam_pool)])
    if cfg['multisession'] and rng.random() < 0.6:
        mp_list = list(cfg['families'])  # the same group, in our order
        if rng.random() < 0.15 and len(mp_list) > 1:
            mp_list.reverse()
    else:
        mp_list = rng.sample(fam_pool, min(nmp, len(fam_pool)))
    for f in mp_list:
        caps.append(('mp', f, 0 if rng.random() < 0.9 else rng.getrandbits(8)))
    if rng.random() < (0.7 if cfg['multisession'] else 0.1):
        caps.append(('ms', rng.choice([[], [0], [0, 1], [1, 2, 3]])))
    if caps and rng.random() < 0.3:
        caps.append(rng.choice(caps))  # duplicated family
    as4_values = []
    if has_as4:
        two = true_as <= 65535 and rng.random() < 0.1
        if rng.random() < 0.1:
            other = rng.choice(ASNS)  # an earlier instance with another value: the last one counts
            caps.append(('as4', other, False))
            as4_values.append(other)
        caps.append(('as4', true_as, two))
        as4_values.append(true_as)
    ap_entries_all = []
    for _ in range(rng.choice([0, 0, 1, 1, 1, 2])):
        entries = []
        for f in rng.sample(fam_pool, rng.choice([0, 1, 2, 3, 5])):
            sr = rng.choice([0, 1, 2, 3, 3]) if stream != 'odd' else rng.choice([1, 2, 3, 4, 5, 6, 7, 255])
            entries.append((f, sr))
        if entries and rng.random() < 0.2:
            f, sr = rng.choice(entries)
            entries.append((f, rng.choice([1, 2, 3])))  # same family again, other value
        caps.append(('addpath', entries))
        ap_entries_all.append(entries)
    nh_all = []
    for _ in range(rng.choice([0, 0, 1, 1, 2])):
        entries = rng.sample(NEXTHOP_OK + [(2, 1, 1), (1, 1, 1), (1, 133, 2)], rng.choice([0, 1, 2, 4]))
        if entries and rng.random() < 0.2:
            entries.append(entries[0])
        caps.append(('nexthop', entries))
        nh_all.append(entries)
    ext = rng.random() < 0.5
    if ext:
        caps.append(('ext', [] if rng.random() < 0.9 else [1, 2]))
    rr = rng.random() < 0.6
    if rr:
        caps.append(('rr',))
        if rng.random() < 0.1:
            caps.append(('rr',))
    err = rng.random() < 0.45
    if err:
        caps.append(('err',))
    if rng.random() < 0.3:
        caps.append(('gr', rng.choice([0, 8, 4, 15]), rng.choice([0, 120, 4095]),
                     [(f, rng.choice([0, 0x80])) for f in rng.sample(fam_pool, rng.choice([0, 1, 3]))]))
    if rng.random() < 0.25:
        h = bytes(rng.choice(b'abcxyz-09') for _ in range(rng.choice([0, 1, 5, 64])))
        d = bytes(rng.choice(b'abc.de') for _ in range(rng.choice([0, 3, 20])))
        caps.append(('raw', 73, bytes([len(h)]) + h + bytes([len(d)]) + d))
    if rng.random() < 0.15:
        v = bytes(rng.choice(b'FRR/8.1') for _ in range(rng.choice([0, 3, 30])))
        caps.append(('raw', 75, bytes([len(v)]) + v))
    for _ in range(rng.choice([0, 0, 1, 2])):
        code = rng.choice([0, 3, 4, 7, 66, 67, 71, 72, 74, 77, 128, 129, 131, 185, 200, 255, rng.randint(0, 255)])
        if code in (1, 2, 5, 6, 64, 65, 68, 69, 70, 73, 75, 76):
            code = 129
        caps.append(('raw', code, bytes(rng.getrandbits(8) for _ in range(rng.choice([0, 0, 1, 4, 9])))))
    for _ in range(rng.choice([0, 0, 0, 1, 1, 2])):
        ents = [(f, rng.choice([0, 1, 10, 65535])) for f in rng.sample(fam_pool, rng.choice([0, 1, 2, 4]))]
        if ents and rng.random() < 0.3:
            ents.append((ents[0][0], rng.choice([0, 7])))
        caps.append(('pl', ents))
    order = rng.choice(['as-is', 'shuffled', 'shuffled'])
    if order == 'shuffled':
        # shuffling changes which duplicate comes last: recompute the views from the final order
        rng.shuffle(caps)
    tlvs = [cap_bytes(c) for c in caps]
    extended = rng.random() < 0.18
    grouping = rng.choice(['one', 'one', 'all', 'mixed'])
    base255 = False
    if not extended and stream == 'valid' and rng.random() < 0.06:
        # base encoding whose length octet is exactly 255 (the next octet, a parameter type, is not 255)
        need = 255 - sum(len(v) + 4 for _, v in tlvs)
        if 4 <= need <= 255:
            caps.append(('raw', 200, bytes(need - 4)))
            tlvs.append(cap_bytes(caps[-1]))
            grouping, base255 = 'one', True
    params, is_ext = pack_params(rng, tlvs, extended, grouping)
    as4_in_order = [c[1] for c in caps if c[0] == 'as4']
    consistent = True
    note = []
    if stream == 'odd':
        # RFC-inconsistent but decodable inputs: AS pair inconsistent, or Send/Receive outside 1..3
        if as4_in_order and rng.random() < 0.6:
            as2 = rng.choice([AS_TRANS, 65000, cfg['peer_as'] & 0xFFFF if cfg['peer_as'] else 1, cfg['local_as'] & 0xFFFF])
    if as4_in_order:
        last = as4_in_order[-1]
        if stream != 'odd':
            as2 = last if last <= 65535 else AS_TRANS
        consistent = as2 == (last if last <= 65535 else AS_TRANS)
    if any(sr > 3 for c in caps if c[0] == 'addpath' for _, sr in c[1]):
        consistent = False
        note.append('send-receive>3')
    if not consistent:
        note.append('rfc-inconsistent')
    if is_ext and is_ext != 255:
        note.append(f'rfc9072-len-octet-{is_ext}')
    if base255 and not is_ext:
        note.append('base-encoding-length-255')
    body = bytes([version]) + be16(as2) + be16(hold) + be32(rid) + params
    adv = {
        'version': version, 'as2': as2, 'hold': hold, 'id': rid,
        'mp': [c[1] for c in caps if c[0] == 'mp'],
        'as4': as4_in_order,
        'addpath': [e for c in caps if c[0] == 'addpath' for e in c[1]],
        'nexthop': [e for c in caps if c[0] == 'nexthop' for e in c[1]],
        'extmsg': any(c[0] == 'ext' for c in caps),
        'refresh': any(c[0] == 'rr' for c in caps),
        'enhanced': any(c[0] == 'err' for c in caps),
        'pl': [e for c in caps if c[0] == 'pl' for e in c[1]],
        'ms': any(c[0] == 'ms' for c in caps),
        'ms_ids': [x for c in caps if c[0] == 'ms' for x in c[1][1:]],
    }
    kind = stream
    if stream == 'malformed':
        body, why = mutate(rng, body, caps, version, as2, hold, rid)
        adv = None
        note.append(why)
    return {'body': list(body), 'adv': adv, 'kind': kind, 'consistent': consistent, 'extended_params': bool(is_ext),
            'ncaps': len(caps), 'note': note, 'true_as': true_as}


def mutate(rng, body, caps, version, as2, hold, rid):
    fixed = body[:9]
    how = rng.choice(['short', 'trunc', 'optlen+', 'optlen-', 'auth', 'auth-late', 'unknown-param', 'cap-len', 'bad-cap', 'noise', 'ext-odd', 'len255'])
    if how == 'short':
        return body[: rng.randint(0, 9)], how
    if how == 'trunc':
        return body[: rng.randint(9, max(9, len(body) - 1))], how
    if how in ('optlen+', 'optlen-') and len(body) > 9 and body[9] != 255:
        b = bytearray(body)
        b[9] = min(254, b[9] + rng.randint(1, 5)) if how == 'optlen+' else max(0, b[9] - rng.randint(1, 5))
        return bytes(b), how
    if how == 'auth':
        p = bytes([1, 2, 0, 0])
        return fixed + bytes([len(p)]) + p, how
    if how == 'auth-late':
        good = bytes([2, 6, 1, 4, 0, 1, 0, 1])
        bad = bytes([2, 3, 1, 1, 0])  # multiprotocol of one octet: 2/0 comes first when it is first
        p = rng.choice([good + bytes([1, 0]), bad + bytes([1, 0]), bytes([1, 0]) + bad])
        return fixed + bytes([len(p)]) + p, how
    if how == 'unknown-param':
        p = bytes([rng.choice([0, 3, 4, 200, 255]), 2, 0, 0])
        if p[0] == 255:
            p = bytes([2, 2, 2, 0]) + p  # 255 as the first parameter type means RFC 9072
        return fixed + bytes([len(p)]) + p, how
    if how == 'cap-len':
        p = bytes([2, 4, 1, rng.choice([3, 5, 200]), 0, 1])
        return fixed + bytes([len(p)]) + p, how
    if how == 'bad-cap':
        code, val = rng.choice([
            (1, b'\x00\x01\x00'), (1, b''), (65, b'\x00'), (65, b'\x00\x00\x01'), (65, b'\x00\x00\x00\x01\x00'), (65, b''),
            (69, b'\x00\x01\x01'), (69, b'\x00\x01\x01\x03\x00'), (5, b'\x00\x01\x00\x01\x00'), (5, b'\x00\x01\x00\x01\x00\x02\x00'),
            (64, b'\x00'), (64, b''), (64, b'\x00\x78\x00\x01\x01'), (73, b''), (73, b'\x05ab'), (73, b'\x02ab'), (73, b'\x02ab\x05c'),
            (75, b''), (75, b'\x05ab'), (76, b'\x00\x01\x01\x00'), (76, b'\x00\x01\x01\x00\x05\x00'),
        ])
        tlv = bytes([code, len(val)]) + val
        pre = bytes([2, 6, 1, 4, 0, 1, 0, 1]) if rng.random() < 0.5 else b''
        p = pre + bytes([2, len(tlv)]) + tlv
        return fixed + bytes([len(p)]) + p, how + f':{code}'
    if how == 'ext-odd':
        choice = rng.choice([
            bytes([255]), bytes([255, 255]), bytes([255, 255, 0]), bytes([255, 255, 0, 0]), bytes([255, 255, 0, 5, 2, 0, 2, 2, 0]),
            bytes([255, 255, 0, 5, 2, 0, 3, 2, 0]), bytes([255, 255, 0, 6, 2, 0, 2, 2, 0]), bytes([255, 255, 0, 2, 2, 0]),
            bytes([255, 2, 2, 2, 0]), bytes([255, 255, 0, 4, 1, 0, 1, 0]), bytes([255, 255, 0, 4, 9, 0, 1, 0]),
        ])
        return fixed + choice, how
    if how == 'len255':
        # standard encoding whose length octet is 255 (first parameter type is not 255)
        tl = [bytes([2, 53, 200, 51]) + bytes(51)] * 4 + [bytes([2, 33, 201, 31]) + bytes(31)]
        p = b''.join(tl)
        p = p[:255]
        return fixed + bytes([255]) + p, how
    return fixed + bytes(rng.getrandbits(8) for _ in range(rng.choice([1, 2, 5, 20]))), 'noise'


# ------------------------------------------------------------------------------- implementation


def run_impl(neighbor, restarted, body, universe):
    """Drive Protocol.new_open / Message.unpack / Negotiated the way Peer._establish does.
    -> (our OPEN body bytes or None, outcome).  outcome: ['D', code, sub] | ['X', exc] | ['N', refusal|None, fields]"""
    from exabgp.bgp.message.notification import Notify
    from translate.t6_registry import open_exchange

    ours_bytes = None
    try:
        ours, peer, neg = open_exchange(neighbor, restarted, body)
        if ours is not None:
            ours_bytes = ours.pack_message(neg)[19:]
        if isinstance(peer, Notify):
            return ours_bytes, ['D', int(peer.code), int(peer.subcode)]
        err = neg.validate(neighbor)
    except Exception as exc:  # noqa: BLE001 - a crash on peer input is a finding
        return ours_bytes, ['X', type(exc).__name__ + ': ' + str(exc)[:120]]
    fields = {
        'families': [(int(a), int(s)) for a, s in neg.families],
        'asn4': bool(neg.asn4),
        'local_as': int(neg.local_as),
        'peer_as': int(neg.peer_as),
        'ap_send': [((int(k[0]), int(k[1])), bool(v)) for k, v in neg.addpath._send.items()],
        'ap_recv': [((int(k[0]), int(k[1])), bool(v)) for k, v in neg.addpath._receive.items()],
        'send_q': [bool(neg.addpath.send(*f)) for f in universe],
        'recv_q': [bool(neg.addpath.receive(*f)) for f in universe],
        'nexthop': [(int(a), int(s), int(h)) for a, s, h in neg.nexthop],
        'refresh': int(neg.refresh),
        'msg_size': int(neg.msg_size),
        'holdtime': int(neg.holdtime),
        'paths_limit': [((int(k[0]), int(k[1])), int(v)) for k, v in neg.paths_limit.items()],
        'adv_paths_limit': [((int(k[0]), int(k[1])), int(v)) for k, v in neg.advertised_paths_limit.items()],
        'pl_q': [neg.paths_limit.get(f) for f in universe],
        'apl_q': [neg.advertised_paths_limit.get(f) for f in universe],
        'ms': [int(neg.multisession[0]), int(neg.multisession[1])] if isinstance(neg.multisession, tuple) else bool(neg.multisession),
    }
    return ours_bytes, ['N', None if err is None else [int(err[0]), int(err[1])], fields]


GOOD_PEER = bytes([4, 0xFD, 0xE9, 0, 90, 9, 9, 9, 9, 8, 2, 6, 0x41, 4, 0, 0, 0xFD, 0xE9])  # AS 65001, ASN4(65001)


def our_roundtrip(neighbor, restarted, body=GOOD_PEER):
    """Our OPEN (Protocol.new_open): pack, unpack, pack again; -> (bytes, same bytes?, same text?, extended parameters?)"""
    from exabgp.bgp.message import Message
    from translate.t6_registry import open_exchange

    ours, _, neg = open_exchange(neighbor, restarted, body)
    b1 = ours.pack_message(neg)
    back = Message.unpack(Message.CODE.OPEN, b1[19:], neg)
    b2 = back.pack_message(neg)
    same_fixed = (int(back.version), int(back.asn), int(back.hold_time), str(back.router_id)) == (
        int(ours.version), int(ours.asn), int(ours.hold_time), str(ours.router_id))
    # capability by capability: same keys (but for a capability that puts nothing on the wire), same rendering
    sent, got = ours.capabilities, back.capabilities
    def show(k, c):
        if k == 73:  # host name capability: the draft limits both names to 64 octets, the encoder truncates
            return (c.host_name.encode()[:64], c.domain_name.encode()[:64])
        return str(c)

    same_caps = all(k in sent and show(k, sent[k]) == show(k, got[k]) for k in got) and all(
        k in got or sent[k].extract_capability_bytes() == [] for k in sent)
    return b1[19:], b1 == b2, same_fixed and same_caps, b1[19 + 9] == 255 and b1[19 + 10] == 255


# ------------------------------------------------------------------------------- Coq literals

def cb(b):
    return 'true' if b else 'false'


def cfam(f):
    return f'({f[0]}, {f[1]})'


def cfams(l):
    return '[' + '; '.join(cfam(f) for f in l) + ']'


def cnhs(l):
    return '[' + '; '.join(f'({a}, {s}, {h})' for a, s, h in l) + ']'


def ccfg(c):
    return (
        f'(Build_cfg {c["local_as"]} {c["peer_as"]} {c["rid"]} {c["hold"]} {cfams(c["families"])} {cb(c["asn4"])} '
        f'{cb(c["nexthop"])} {cnhs(c["nexthops"])} {c["addpath"]} {cfams(c["addpaths"])} {cb(c["gr"])} {c["gr_time"]} '
        f'{cb(c["restarted"])} {cb(c["refresh"])} {cb(c["operational"])} {cb(c["extmsg"])} {zlist(c["host"])} '
        f'{zlist(c["domain"])} {zlist(c["software"])} {cb(c["linklocal"])} {cfz(c["paths_limit"])} {cb(c["multisession"])})'
    )


def cfz(l):
    return '[' + '; '.join(f'({cfam(f)}, {v})' for f, v in l) + ']'


def coptz(l):
    return '[' + '; '.join('None' if v is None else f'(Some {int(v)})' for v in l) + ']'


def cneg(f):
    aps = '[' + '; '.join(f'({cfam(k)}, {cb(v)})' for k, v in f['ap_send']) + ']'
    apr = '[' + '; '.join(f'({cfam(k)}, {cb(v)})' for k, v in f['ap_recv']) + ']'
    return (
        f'(Build_negotiated {cfams(f["families"])} {cb(f["asn4"])} {f["local_as"]} {f["peer_as"]} {aps} {apr} '
        f'{cnhs(f["nexthop"])} {f["refresh"]} {f["msg_size"]} {f["holdtime"]} {cfz(f["paths_limit"])} {cfz(f["adv_paths_limit"])} '
        + ('MsYes' if f['ms'] is True else 'MsNo' if f['ms'] is False else f'(MsRefuse {f["ms"][0]} {f["ms"][1]})') + ')'
    )


def coutcome(o):
    if o[0] == 'D':
        return f'(DecodeError {o[1]} {o[2]})'
    ref = 'None' if o[1] is None else f'(Some ({o[1][0]}, {o[1][1]}))'
    return f'(Exchanged {ref} {cneg(o[2])})'


def cadv(a):
    ap = '[' + '; '.join(f'({cfam(f)}, {sr})' for f, sr in a['addpath']) + ']'
    return (
        f'(Build_adv {a["version"]} {a["as2"]} {a["hold"]} {a["id"]} {cfams(a["mp"])} {zlist(a["as4"])} {ap} '
        f'{cnhs(a["nexthop"])} {cb(a["extmsg"])} {cb(a["refresh"])} {cb(a["enhanced"])} {cfz(a["pl"])} {cb(a["ms"])} {zlist(a["ms_ids"])})'
    )


HEADER_MODEL = """From Coq Require Import ZArith Bool List.
From ExaV Require Import gen.Gen_Registry model.Model_Open.
Import ListNotations. Open Scope Z_scope.
Fixpoint zl_eqb (a b : list Z) : bool :=
  match a, b with [], [] => true | x :: a', y :: b' => (x =? y) && zl_eqb a' b' | _, _ => false end.
Fixpoint l_eqb {A} (e : A -> A -> bool) (a b : list A) : bool :=
  match a, b with [], [] => true | x :: a', y :: b' => e x y && l_eqb e a' b' | _, _ => false end.
Definition fz_eqb (a b : fam * Z) := fam_eqb (fst a) (fst b) && (snd a =? snd b).
Definition fb_eqb (a b : fam * bool) := fam_eqb (fst a) (fst b) && Bool.eqb (snd a) (snd b).
Definition neg_eqb (a b : negotiated) : bool :=
  l_eqb fam_eqb (n_families a) (n_families b) && Bool.eqb (n_asn4 a) (n_asn4 b) && (n_local_as a =? n_local_as b)
  && (n_peer_as a =? n_peer_as b) && l_eqb fb_eqb (n_ap_send a) (n_ap_send b) && l_eqb fb_eqb (n_ap_recv a) (n_ap_recv b)
  && l_eqb nh_eqb (n_nexthop a) (n_nexthop b) && (n_refresh a =? n_refresh b) && (n_msg_size a =? n_msg_size b)
  && (n_holdtime a =? n_holdtime b) && l_eqb fz_eqb (n_paths_limit a) (n_paths_limit b)
  && l_eqb fz_eqb (n_adv_paths_limit a) (n_adv_paths_limit b)
  && match n_ms a, n_ms b with MsNo, MsNo | MsYes, MsYes => true | MsRefuse c1 s1, MsRefuse c2 s2 => (c1 =? c2) && (s1 =? s2) | _, _ => false end.
Definition ref_eqb (a b : option (Z * Z)) : bool :=
  match a, b with None, None => true | Some (x, y), Some (u, v) => (x =? u) && (y =? v) | _, _ => false end.
Definition out_eqb (a b : outcome) : bool :=
  match a, b with
  | DecodeError c1 s1, DecodeError c2 s2 => (c1 =? c2) && (s1 =? s2)
  | Exchanged r1 n1, Exchanged r2 n2 => ref_eqb r1 r2 && neg_eqb n1 n2
  | _, _ => false end.
Definition okc (c : cfg * list Z * outcome) : bool :=
  match c with (cf, body, expect) => out_eqb (session cf body) expect end.
Fixpoint bad {A} (ok : A -> bool) (l : list A) (i : nat) : list nat :=
  match l with [] => [] | c :: l' => if ok c then bad ok l' (S i) else i :: bad ok l' (S i) end.
(* our OPEN: bytes of the model = bytes of the implementation, and the model decodes them back *)
Definition oko (c : cfg * list Z) : bool :=
  match c with (cf, bytes) =>
    zl_eqb (enc_open (open_of cf)) bytes &&
    match dec_open bytes with
    | Ok o => zl_eqb (enc_open o) bytes && (o_asn o =? o_asn (open_of cf)) && (o_hold o =? c_hold cf) && (o_rid o =? c_rid cf)
    | Notify _ _ => false end end.
(* local-as auto: our OPEN depends on the peer's *)
Definition oka (c : cfg * list Z * list Z) : bool :=
  match c with (cf, body, bytes) =>
    match dec_open body with
    | Ok r => zl_eqb (enc_open (our_open cf r)) bytes
    | Notify _ _ => false end end.
"""

HEADER_SPEC = """From Coq Require Import ZArith Bool List.
From ExaV Require Import spec.Spec_Open.
Import ListNotations. Open Scope Z_scope.
Fixpoint l_eqb {A} (e : A -> A -> bool) (a b : list A) : bool :=
  match a, b with [], [] => true | x :: a', y :: b' => e x y && l_eqb e a' b' | _, _ => false end.
Definition rcode (k : refresh_kind) : Z := match k with RefreshAbsent => 1 | RefreshNormal => 2 | RefreshEnhanced => 4 end.
(* the implementation's Negotiated fields, as observed: families asn4 local_as peer_as nexthop refresh msg_size hold,
   send/receive answers on a list of families *)
Definition obs := (list family * bool * Z * Z * list nexthop * Z * Z * Z * list family * list bool * list bool
                   * list (option Z) * list (option Z))%type.
Definition oz_eqb (a b : option Z) : bool :=
  match a, b with None, None => true | Some x, Some y => x =? y | _, _ => false end.
(* which fields differ from the RFC function: 1 families 2 asn4 3 local_as 4 peer_as 5 nexthop 6 refresh 7 msg_size
   8 hold 9 add-path send 10 add-path receive 11 paths-limit 12 advertised paths-limit *)
Definition diff (ours theirs : adv) (o : obs) : list nat :=
  match o with (fams, asn4, las, pas, nh, rf, ms, hd, univ, sq, rq, plq, aplq) =>
    let p := rfc_negotiate ours theirs in
    (if l_eqb same_family fams (p_families p) then [] else [1%nat])
    ++ (if Bool.eqb asn4 (p_asn4 p) then [] else [2%nat])
    ++ (if las =? p_local_as p then [] else [3%nat])
    ++ (if pas =? p_peer_as p then [] else [4%nat])
    ++ (if l_eqb same_nexthop nh (p_nexthop p) then [] else [5%nat])
    ++ (if rf =? rcode (p_refresh p) then [] else [6%nat])
    ++ (if ms =? p_msg_size p then [] else [7%nat])
    ++ (if hd =? p_hold p then [] else [8%nat])
    ++ (if l_eqb Bool.eqb sq (map (p_send p) univ) then [] else [9%nat])
    ++ (if l_eqb Bool.eqb rq (map (p_recv p) univ) then [] else [10%nat])
    ++ (if l_eqb oz_eqb plq (map (p_paths_limit p) univ) then [] else [11%nat])
    ++ (if l_eqb oz_eqb aplq (map (p_adv_paths_limit p) univ) then [] else [12%nat])
  end.
(* refusal verdict: 0 ok, 20 accepted although a fault is present, 21 refused without fault,
   22 refused with a subcode that names none of the faults present *)
Definition verdict (expected local_id : Z) (ours theirs : adv) (r : option (Z * Z)) : nat :=
  let f := rfc_faults expected local_id ours theirs in
  match r with
  | None => match f with [] => 0%nat | _ => 20%nat end
  | Some (c, s) => match f with [] => 21%nat | _ => if existsb (fun x => (fst x =? c) && (snd x =? s)) f then 0%nat else 22%nat end
  end.
Definition judge (c : Z * Z * adv * adv * option (Z * Z) * option obs) : list nat :=
  match c with (expected, local_id, ours, theirs, r, o) =>
    (match verdict expected local_id ours theirs r with O => [] | v => [v] end)
    ++ (match o with Some ob => diff ours theirs ob | None => [] end)
  end.
Fixpoint judge_all (l : list (Z * Z * adv * adv * option (Z * Z) * option obs)) (i : nat) : list (nat * list nat) :=
  match l with [] => [] | c :: l' => match judge c with [] => judge_all l' (S i) | d => (i, d) :: judge_all l' (S i) end end.
"""


def spec_case(cfg, peer, out, universe):
    """Spec literal of one decodable case.  out = ['N', refusal, fields] or ['D', c, s] (refused while decoding)."""
    ours, theirs = our_adv(cfg, peer['adv']), peer['adv']
    if out[0] == 'N':
        f = out[2]
        ref = 'None' if out[1] is None else f'(Some ({out[1][0]}, {out[1][1]}))'
        obs = (
            f'(Some ({cfams(f["families"])}, {cb(f["asn4"])}, {f["local_as"]}, {f["peer_as"]}, {cnhs(f["nexthop"])}, '
            f'{f["refresh"]}, {f["msg_size"]}, {f["holdtime"]}, {cfams(universe)}, '
            f'[{"; ".join(cb(x) for x in f["send_q"])}], [{"; ".join(cb(x) for x in f["recv_q"])}], '
            f'{coptz(f["pl_q"])}, {coptz(f["apl_q"])}))'
        )
    else:
        ref = f'(Some ({out[1]}, {out[2]}))'
        obs = 'None'
    return f'({cfg["peer_as"]}, {cfg["rid"]}, {cadv(ours)}, {cadv(theirs)}, {ref}, {obs})'


FIELD = {1: 'families', 2: 'asn4', 3: 'local_as', 4: 'peer_as', 5: 'nexthop', 6: 'refresh', 7: 'msg_size', 8: 'holdtime',
         9: 'addpath-send', 10: 'addpath-receive', 11: 'paths-limit', 12: 'advertised-paths-limit', 20: 'accepted-with-fault', 21: 'refused-without-fault', 22: 'wrong-subcode'}


def parse_pairs(s):
    """'[(3, [3; 4]); (9, [20])]' -> [(3, [3, 4]), (9, [20])]"""
    import re

    out = []
    s = s.replace('%nat', '')
    for m in re.finditer(r'\((\d+),\s*\[([\d;\s]*)\]\)', s):
        out.append((int(m.group(1)), [int(x) for x in re.findall(r'\d+', m.group(2))]))
    return out


# ------------------------------------------------------------------------------- the check


def universe_of(cfg, peer):
    fams = list(cfg['addpaths'])
    if peer['adv']:
        fams += [f for f, _ in peer['adv']['addpath']] + [f for f, _ in peer['adv']['pl']]
    fams += [(1, 1), (2, 1), (1, 128), (3, 7)]
    return sorted(set(fams))


def describe(conf, cfg, peer, out):
    return {
        'configuration': conf['text'], 'restarted': conf['restarted'], 'any_peer_as': conf.get('any_peer_as', False),
        'peer_open_body_hex': bytes(peer['body']).hex(), 'peer_kind': peer['kind'], 'notes': peer['note'],
        'implementation': out if out[0] != 'N' else {'refusal': out[1], **{k: v for k, v in out[2].items() if k not in ('send_q', 'recv_q', 'pl_q', 'apl_q')}},
        'local_as_configured': cfg['local_as'], 'peer_as_configured': cfg['peer_as'],
    }


def minimal_peer(cfg, true_as, rid, hold=90, caps=None, lenoct=None):
    """A small well-formed peer OPEN used to shrink findings."""
    caps = caps if caps is not None else [('mp', (1, 1), 0)]
    caps = list(caps) + [('as4', true_as, False)]
    tlvs = [cap_bytes(c) for c in caps]
    params = b''.join(bytes([2, len(v) + 2, k, len(v)]) + v for k, v in tlvs)
    as2 = true_as if true_as <= 65535 else AS_TRANS
    if lenoct is None:
        body = bytes([4]) + be16(as2) + be16(hold) + be32(rid) + bytes([len(params)]) + params
    else:
        params = b''.join(bytes([2]) + be16(len(v) + 2) + bytes([k, len(v)]) + v for k, v in tlvs)
        body = bytes([4]) + be16(as2) + be16(hold) + be32(rid) + bytes([lenoct, 255]) + be16(len(params)) + params
    adv = {'version': 4, 'as2': as2, 'hold': hold, 'id': rid, 'mp': [c[1] for c in caps if c[0] == 'mp'], 'as4': [true_as],
           'addpath': [], 'nexthop': [], 'extmsg': False, 'refresh': False, 'enhanced': False, 'pl': [], 'ms': False, 'ms_ids': []}
    return {'body': list(body), 'adv': adv, 'kind': 'valid', 'consistent': True, 'extended_params': False, 'ncaps': len(caps),
            'note': ['shrunk'] + ([f'rfc9072-len-octet-{lenoct}'] if lenoct not in (None, 255) else []), 'true_as': true_as}


def check(tier, seed):
    run = Run('C07', tier, seed)
    run.trusted = [
        'Coq 8.16.1 kernel (coqc), vm_compute for case evaluation; no native_compute',
        'translator translate/t6_registry.py (import-time reflection of codes/tables/constants; two behaviour probes '
        'classified into whitelisted outcomes; fail-closed)',
        'harness/c07.py: configuration text generator, Neighbor -> Model_Open.cfg attribute reads, the generator\'s own OPEN '
        'encoder and its knowledge of what the peer OPEN advertises (Spec_Open.adv), canonicalisation of Negotiated fields',
        'modelled, not verified: Open/Capabilities/Negotiated python code (hand model Model_Open, constants regenerated)',
    ]
    run.assumptions = [
        'configurations: local-as different from AS_TRANS (23456); local-as and peer-as may be auto',
        'peer OPEN AS-consistent in the RFC 6793 sense and Send/Receive in 0..3 for the property oracle; inconsistent '
        'pairs and other octet values only in the "odd" stream where only the correspondence is demanded',
        'host name / software version strings of the peer are ASCII (UTF-8 validity of capability strings is not modelled)',
    ]
    pc = common.standard_build(run, ['T6'])
    try:
        import importlib

        gen_flags = importlib.import_module(common.TRANSLATORS['T6']).main(common.REPO, common.GEN) or {}
    except Exception as exc:  # noqa: BLE001 - already reported by the translator obligation
        gen_flags = {'error': str(exc)}
    run.coverage['behaviour_probes'] = gen_flags
    run.obligation(
        'tree behaviour: Negotiated.local_as is the true local AS (Gen_Registry.LOCAL_AS_FROM_CAP = true), so the '
        'full-strength corollary C07_negotiate_is_rfc (fx = true) is about this tree',
        gen_flags.get('LOCAL_AS_FROM_CAP') is True,
        f'probe: {gen_flags}; with false only C07_negotiate_is_rfc under local-as <= 65535 applies (C07_local_as_refuted)',
    )
    run.obligation(
        'tree behaviour: iBGP BGP-identifier collision is tested on the true peer AS (Gen_Registry.COLLISION_ON_TRUE_AS = true)',
        gen_flags.get('COLLISION_ON_TRUE_AS') is True,
        f'probe: {gen_flags}; with false C07_refusals holds only for local-as <= 65535 (C07_collision_refuted)',
    )

    run.obligation(
        'tree behaviour: an unknown optional parameter is answered 2/4 Unsupported Optional Parameter '
        '(Gen_Registry.UNKNOWN_PARAM_SUBCODE = 4, RFC 4271 6.2)',
        gen_flags.get('UNKNOWN_PARAM_SUBCODE') == 4, f'probe: {gen_flags}')

    for flag, what in (('EXT_BY_TYPE_OCTET', 'the RFC 9072 encoding is selected by the type octet 255 alone (any non-zero length octet before it)'),
                       ('MS_VALUE_PARSED', 'the MultiSession capability value is one TLV [flags, codes] and is read back on receipt'),
                       ('AUTO_AS_FROM_PEER_CAP', 'with local-as auto our OPEN carries the true AS of the peer, in My AS and in the ASN4 capability'),
                       ('AUTO_COLLISION_CHECK', 'with local-as auto the identifier collision test uses the negotiated local AS')):
        run.obligation(f'tree behaviour: {what} (Gen_Registry.{flag} = true)', gen_flags.get(flag) is True, f'probe: {gen_flags}')

    rng = random.Random(seed)
    nconf = 120 if tier == "quick" else 1500
    per = 16 if tier == "quick" else 32
    confs = [gen_config(rng, i, big=(i % 15 == 0)) for i in range(nconf)]
    t_impl = time.time()
    cases = []  # (conf index, cfg, peer, outcome, universe)
    ours_cases = []  # (cfg, our bytes)
    auto_cases = []  # local-as auto: (conf index, cfg, peer body, our bytes)
    rt_bad = []
    skipped = 0
    ext_ours = 0
    loaded = {}
    for ci, conf in enumerate(confs):
        n = load_neighbor(conf)
        if n is None:
            skipped += 1
            continue
        cfg = cfg_of_neighbor(n, conf['restarted'])
        if cfg['local_as'] == AS_TRANS:
            skipped += 1
            continue
        loaded[ci] = (n, cfg)
        try:
            ob, same_bytes, same_text, is_ext = our_roundtrip(n, conf['restarted'])
        except Exception as exc:  # noqa: BLE001
            # "the OPEN ExaBGP sends for any configuration decodes back to the same capability set": it must exist first
            import traceback

            del loaded[ci]
            rt_bad.append(ci)
            run.fail_case('our-open-cannot-be-encoded:' + type(exc).__name__,
                          f'no OPEN can be produced or read back for this configuration: {type(exc).__name__}: {exc}',
                          {'configuration': conf['text'], 'traceback': traceback.format_exc().splitlines()[-6:]})
            continue
        ext_ours += is_ext
        if cfg['local_as']:
            ours_cases.append((ci, cfg, list(ob)))
        else:
            auto_cases.append((ci, cfg, list(GOOD_PEER), list(ob)))
        if not (same_bytes and same_text):
            rt_bad.append(ci)
            run.fail_case('our-open-roundtrip-multisession' if cfg['multisession'] else 'our-open-roundtrip',
                          'our OPEN does not survive pack/unpack/pack unchanged'
                          + (' (MultiSession.unpack_capability drops the value it is given)' if cfg['multisession'] else ''),
                          {'configuration': conf['text'], 'open_body_hex': ob.hex()})
        for j in range(per):
            stream = ['valid', 'valid', 'valid', 'valid', 'valid', 'odd', 'malformed', 'malformed'][j % 8]
            peer = gen_peer(rng, cfg, stream)
            univ = universe_of(cfg, peer)
            ob2, out = run_impl(n, conf['restarted'], peer['body'], univ)
            cases.append((ci, cfg, peer, out, univ))
            if not cfg['local_as'] and ob2 is not None:
                auto_cases.append((ci, cfg, list(peer['body']), list(ob2)))
    t_impl = time.time() - t_impl

    # crashes on peer input are findings of their own (no model value to compare with)
    crashed = [k for k, c in enumerate(cases) if c[3][0] == 'X']
    for k in crashed[:5]:
        ci, cfg, peer, out, _ = cases[k]
        run.fail_case('crash:' + out[1].split(':')[0], 'exception other than Notify while handling a peer OPEN',
                      describe(confs[ci], cfg, peer, out))

    # RFC 4271 6.2: an optional parameter that is not recognised MUST be answered with subcode 4
    unk = [k for k, c in enumerate(cases) if any(str(x).startswith('unknown-param') for x in c[2]['note']) and c[2]['body'][0] == 4]
    unk_bad = [k for k in unk if cases[k][3][:3] != ['D', 2, 4]]
    run.obligation(f'property oracle: an OPEN with an unknown optional parameter type is refused with 2/4 ({len(unk)} cases)',
                   not unk_bad, f'{len(unk_bad)} failing inputs, first outcome: {cases[unk_bad[0]][3] if unk_bad else ""}')
    if unk_bad:
        ci, cfg, peer, out, _ = cases[unk_bad[0]]
        small = dict(peer, body=list(bytes([4, 0xFD, 0xE9, 0, 90, 1, 2, 3, 4, 4, 3, 2, 0, 0])), note=['unknown-param', 'shrunk'])
        _, sout = run_impl(loaded[ci][0], confs[ci]['restarted'], small['body'], [])
        if sout[:3] == ['D', 2, 4] or sout[0] != 'D':
            small, sout = peer, out
        run.fail_case('unknown-optional-parameter-not-2/4',
                      'an unknown OPEN optional parameter is not answered with 2/4 (Unsupported Optional Parameter)',
                      describe(confs[ci], cfg, small, sout))

    # ---- model correspondence
    t_eval = time.time()
    live = [k for k in range(len(cases)) if cases[k][3][0] != 'X']
    shards = common.chunked(live, 150)

    def model_defs(idx):
        items = [f'({ccfg(cases[k][1])}, {zlist(cases[k][2]["body"])}, {coutcome(cases[k][3])})' for k in idx]
        return ('Definition cases : list (cfg * list Z * outcome) := [' + ';\n'.join(items) + '].\n'
                'Eval vm_compute in (bad okc cases 0).\n')

    mres = common.eval_cases(HEADER_MODEL, model_defs, shards, 'c07_m')
    model_ok = all(rc == 0 for rc, _, _ in mres)
    model_bad = []
    for shard, (rc, out, parsed) in zip(shards, mres):
        if rc == 0 and parsed:
            model_bad += [shard[j] for j in common.nat_list_of(parsed[0])]

    oshards = common.chunked(list(range(len(ours_cases))), 40)

    def ours_defs(idx):
        items = [f'({ccfg(ours_cases[k][1])}, {zlist(ours_cases[k][2])})' for k in idx]
        return ('Definition cases : list (cfg * list Z) := [' + ';\n'.join(items) + '].\n'
                'Eval vm_compute in (bad oko cases 0).\n')

    ores = common.eval_cases(HEADER_MODEL, ours_defs, oshards, 'c07_o')
    ours_ok = all(rc == 0 for rc, _, _ in ores)
    ours_bad = []
    for shard, (rc, out, parsed) in zip(oshards, ores):
        if rc == 0 and parsed:
            ours_bad += [shard[j] for j in common.nat_list_of(parsed[0])]

    ashards = common.chunked(list(range(len(auto_cases))), 60)

    def auto_defs(idx):
        items = [f'({ccfg(auto_cases[k][1])}, {zlist(auto_cases[k][2])}, {zlist(auto_cases[k][3])})' for k in idx]
        return ('Definition cases : list (cfg * list Z * list Z) := [' + ';\n'.join(items) + '].\n'
                'Eval vm_compute in (bad oka cases 0).\n')

    ares = common.eval_cases(HEADER_MODEL, auto_defs, ashards, 'c07_a') if auto_cases else []
    ours_ok = ours_ok and all(rc == 0 for rc, _, _ in ares)
    auto_bad = []
    for shard, (rc, out, parsed) in zip(ashards, ares):
        if rc == 0 and parsed:
            auto_bad += [shard[j] for j in common.nat_list_of(parsed[0])]

    # ---- property oracle (spec): decodable, RFC-consistent peers
    # wf_cfg of the theorems: a 4-octet local AS is configured together with the ASN4 capability
    def cfg_rfc_sane(cfg, peer):
        la = cfg['local_as'] or (auto_as(peer['adv']) if peer['adv'] else 0)
        return (cfg['asn4'] or la <= 65535) and la not in (0, AS_TRANS)

    judged = [k for k in live if cases[k][2]['adv'] is not None and cases[k][2]['consistent'] and cfg_rfc_sane(cases[k][1], cases[k][2])]
    sshards = common.chunked(judged, 150)

    def spec_defs(idx):
        items = [spec_case(cases[k][1], cases[k][2], cases[k][3], cases[k][4]) for k in idx]
        return ('Definition cases : list (Z * Z * adv * adv * option (Z * Z) * option obs) := [' + ';\n'.join(items) + '].\n'
                'Eval vm_compute in (judge_all cases 0).\n')

    sres = common.eval_cases(HEADER_SPEC, spec_defs, sshards, 'c07_s')
    spec_ok = all(rc == 0 for rc, _, _ in sres)
    spec_bad = []  # (case index, [field codes])
    for shard, (rc, out, parsed) in zip(sshards, sres):
        if rc == 0 and parsed:
            spec_bad += [(shard[i], d) for i, d in parse_pairs(parsed[0])]
    t_eval = time.time() - t_eval
    logs = [out for rc, out, _ in mres + ores + ares + sres if rc != 0]
    print(f'[C07] impl {t_impl:.1f}s coq eval {t_eval:.1f}s cases={len(cases)} configs={len(loaded)}', flush=True)
    run.coverage['timing_s'] = {'implementation': round(t_impl, 1), 'coq_evaluation': round(t_eval, 1)}

    run.obligation('model evaluation (vm_compute of Model_Open.session / enc_open / dec_open on every case) ran',
                   model_ok and ours_ok, '\n'.join(logs)[-2000:])
    run.obligation('spec evaluation (vm_compute of Spec_Open.rfc_negotiate / rfc_faults) ran', spec_ok, '\n'.join(logs)[-2000:])
    run.obligation('no exception other than Notify while decoding / negotiating a peer OPEN', not crashed,
                   f'{len(crashed)} crashes, first: {cases[crashed[0]][3] if crashed else ""}')
    first = ''
    if model_bad:
        ci, cfg, peer, out, _ = cases[model_bad[0]]
        first = str(describe(confs[ci], cfg, peer, out))
    run.obligation(
        f'correspondence: Negotiated fields and refusal of the implementation = Model_Open.session on {len(live)} (configuration, peer OPEN bytes) pairs',
        not model_bad, f'{len(model_bad)} disagreements, first: {first}')
    run.obligation(
        f'correspondence: bytes of our OPEN = Model_Open.enc_open (open_of cfg), and dec_open reads them back, on {len(ours_cases)} configurations '
        f'({ext_ours} with RFC 9072 extended optional parameters)',
        not ours_bad and ext_ours > 0,
        f'{len(ours_bad)} disagreements, first: {confs[ours_cases[ours_bad[0]][0]]["text"] if ours_bad else ""}; extended={ext_ours}')
    run.obligation(
        f'correspondence: with local-as auto the bytes of our OPEN = Model_Open.enc_open (our_open cfg peer) on {len(auto_cases)} pairs',
        not auto_bad,
        f'{len(auto_bad)} disagreements, first: {confs[auto_cases[auto_bad[0]][0]]["text"] + " peer " + bytes(auto_cases[auto_bad[0]][2]).hex() if auto_bad else ""}')
    run.obligation(f'our OPEN survives Open.pack_message -> Message.unpack -> pack_message unchanged on {len(ours_cases)} configurations',
                   not rt_bad, f'{len(rt_bad)} failures')
    run.obligation(
        f'property oracle: Negotiated fields = Spec_Open.rfc_negotiate and refusal within Spec_Open.rfc_faults on {len(judged)} RFC-consistent pairs',
        not spec_bad, f'{len(spec_bad)} failing inputs')

    # ---- report failing inputs, one per signature, shrunk to a minimal peer OPEN when that still fails
    def judge_one(cfg, cand, cout, univ):
        res = common.eval_cases(HEADER_SPEC, lambda idx: (
            'Definition cases : list (Z * Z * adv * adv * option (Z * Z) * option obs) := ['
            + spec_case(cfg, cand, cout, univ) + '].\nEval vm_compute in (judge_all cases 0).\n'), [[0]], 'c07_shrink')
        if res[0][0] != 0 or not res[0][2]:
            return []
        return [FIELD[c] for _, d in parse_pairs(res[0][2][0]) for c in d]

    def len_octet(peer):
        for x in peer['note']:
            if str(x).startswith('rfc9072-len-octet-'):
                return int(str(x).rsplit('-', 1)[1])
        return None

    def sig_of(name, cfg, peer, out):
        if len_octet(peer) is not None and out[0] == 'D':
            return 'rfc9072-extended-encoding-refused-when-length-octet-not-255'
        if not cfg['local_as']:
            return f'local-as-auto:{name}'
        if cfg['multisession'] and name in ('accepted-with-fault', 'refused-without-fault', 'wrong-subcode'):
            return f'multisession:{name}'
        four = cfg['local_as'] > 65535
        if name == 'local_as' and four and out[0] == 'N' and out[2]['local_as'] == AS_TRANS:
            return 'local-as-is-as-trans'
        if name == 'accepted-with-fault' and four and peer['adv']['id'] == cfg['rid'] and peer['true_as'] == cfg['local_as']:
            return 'ibgp-identifier-collision-accepted-4byte-as'
        return f'{name}:{"as4byte" if four else "as2byte"}'

    seen = set()
    for k, codes in spec_bad:
        ci, cfg, peer, out, univ = cases[k]
        for name in [FIELD[c] for c in codes]:
            sig = sig_of(name, cfg, peer, out)
            if sig in seen or len(seen) >= 12:
                continue
            seen.add(sig)
            n = loaded[ci][0]
            small, sout = peer, out
            other_id = 0x01020305 if cfg['rid'] != 0x01020305 else 0x01020306
            hold = peer['adv']['hold'] if name == 'holdtime' else 90
            for true_as, rid in ((cfg['peer_as'] or peer['true_as'], other_id), (peer['true_as'], other_id),
                                 (peer['true_as'], peer['adv']['id'])):
                cand = minimal_peer(cfg, true_as, rid, hold, lenoct=len_octet(peer))
                _, cout = run_impl(n, confs[ci]['restarted'], cand['body'], univ)
                if cout[0] != 'X' and name in judge_one(cfg, cand, cout, univ) and sig_of(name, cfg, cand, cout) == sig:
                    small, sout = cand, cout
                    break
            d = describe(confs[ci], cfg, small, sout)
            d['differs_in'] = name
            d['rfc_says'] = {'true_local_as': our_adv(cfg, small['adv'])['as4'][-1] if cfg['asn4'] else our_adv(cfg, small['adv'])['as2'],
                             'peer_true_as': small['true_as'], 'peer_identifier': small['adv']['id'], 'our_identifier': cfg['rid']}
            run.fail_case(sig, f'Negotiated differs from the RFC function of the two OPENs in: {name}', d)
    if model_bad and not spec_bad:
        for k in model_bad[:3]:
            ci, cfg, peer, out, _ = cases[k]
            run.notes.append({'model_disagreement': describe(confs[ci], cfg, peer, out)})

    # ---- coverage
    kinds = collections.Counter(c[2]['kind'] for c in cases)
    outs = collections.Counter(('decode-error %d/%d' % (c[3][1], c[3][2])) if c[3][0] == 'D' else ('crash' if c[3][0] == 'X' else
                               ('established' if c[3][1] is None else 'refused %d/%d' % tuple(c[3][1]))) for c in cases)
    distinct = len({(c[0], bytes(c[2]['body'])) for c in cases if c[3][0] == 'N'})
    run.coverage.update({
        'evaluations': len(cases) + len(ours_cases),
        'distinct_nontrivial': distinct,
        'rule': 'random neighbor configurations (text, parsed by Configuration.reload: local/peer AS incl. 65535/65536/4294967295, '
                'hold 0/3/65535, 0..all families, every capability switch, add-path and nexthop sections, host names up to >64 octets, '
                'one in 15 with `family all` + every capability so that optional parameters exceed 255 octets) x peer OPEN bytes '
                '(any subset/order/duplication of MP, ASN4 incl. 2-octet form, ADD-PATH, NEXTHOP, EXTMSG, RR, ERR, GR, hostname, '
                'software, unknown codes; RFC 4271 and RFC 9072 parameter encodings; several capabilities per parameter; boundary '
                'hold times and AS numbers) + odd stream (inconsistent AS pair, Send/Receive > 3) + malformed stream (truncation, '
                'bad lengths, auth parameter, unknown parameter, malformed capability values, RFC 9072 corner cases). '
                'non-trivial = distinct (configuration, peer bytes) that decoded and were negotiated',
        'distribution': dict(kinds),
        'outcomes': dict(outs),
        'peer_extended_params': sum(1 for c in cases if c[2]['extended_params']),
        'peer_extended_params_length_octet_not_255': sum(1 for c in cases if any(str(x).startswith('rfc9072-len-octet') for x in c[2]['note'])),
        'peer_base_encoding_length_255': sum(1 for c in cases if 'base-encoding-length-255' in c[2]['note']),
        'our_open_extended_params': ext_ours,
        'configs_loaded': len(loaded), 'configs_skipped': skipped,
        'local_as_4byte_cases': sum(1 for c in cases if c[1]['local_as'] > 65535),
        'local_as_auto_cases': sum(1 for c in cases if c[1]['local_as'] == 0), 'local_as_auto_open_bytes_compared': len(auto_cases),
        'multisession_cases': sum(1 for c in cases if c[1]['multisession']),
        'judged_by_spec': len(judged),
        'exhaustive': False,
    })
    for c in cases[:3]:
        run.samples.append({'cfg': {k: v for k, v in c[1].items() if k in ('local_as', 'peer_as', 'hold', 'families', 'addpath')},
                            'peer_body_hex': bytes(c[2]['body']).hex()[:160], 'outcome': str(c[3])[:300]})
    if run.broken() and not run.failing:
        run.coverage['search'] = (f'{len(cases)} generated (configuration, peer OPEN) pairs were run on the implementation and judged by '
                                  'Spec_Open.rfc_negotiate / rfc_faults; none failed')
    return run.finish(checker_cmd='make -C coq props/Prop_C07.vo && coqc -Q coq ExaV coq/props/Prop_C07.v (Print Assumptions)')
