"""H-peer: a REAL exabgp Peer + Protocol + Negotiated/neighbor (text configuration) driven under a
virtual-time asyncio loop with the transport replaced by scripted in-memory sockets.  Shared by C05
and C10.

What is real: Peer (run/_run/_establish/_main/_reset/_close/handle_connection/teardown/...), Protocol,
Connection/Incoming/Outgoing (reader_async/writer_async/establish_async/close), Negotiated, the message
classes, the timers, Delay.  What is substituted, from outside the repository:
  * the event loop: VLoop (virtual clock; sock_recv_into / sock_sendall / sock_connect act on FakeIO),
  * time.time (= epoch + virtual clock) while a script runs,
  * Outgoing._setup (creates a FakeIO instead of a kernel socket),
  * reactor.processes (a recording stub),
  * Connection.__del__ (same effect, the close is recorded as done by the finaliser),
and observation wrappers on FSM.change, Peer._run (attempt started), Peer._read_open / Peer._read_ka (their timers
firing), Peer._send_operational_messages (the send phase of a main-loop iteration that has something to send),
ReceiveTimer.check_ka (hold timer firing), Outgoing.establish_async (connect resolved).

The observed trace is one ordered list of entries
  ['ev', name, arg, fsm]       abstract event, logged at the moment the stimulus takes effect in the
                               implementation (bytes of a message consumed by the reader, connect resolved,
                               timer fired, handle_connection/teardown called, _run entered ...)
  ['fsm', a, b]                FSM.change(b) called with FSM.state == a
  ['w', tid, kind, c, s, st]   one BGP message written on transport tid while FSM.state == st
  ['close', tid, how]          transport closed (how = 'close' | 'gc')
  ['api', what(, tid)]         Processes.up/down/connected (connected: the transport just taken)
"""

from __future__ import annotations

import asyncio
import errno
import gc
import struct
import time as _time

MARKER = b'\xff' * 16
IDLE, ACTIVE, CONNECT, OPENSENT, OPENCONFIRM, ESTABLISHED = 1, 2, 4, 8, 16, 32
STATE_NAME = {1: 'IDLE', 2: 'ACTIVE', 4: 'CONNECT', 8: 'OPENSENT', 16: 'OPENCONFIRM', 32: 'ESTABLISHED'}
EPOCH = 1_700_000_000.0

CONF = """
neighbor 127.0.0.2 {
  router-id 10.0.0.5; local-address 127.0.0.1; local-as 65000; peer-as 65001; hold-time 180;
  adj-rib-in true;
  family { ipv4 unicast; }
  capability { route-refresh enable; }
  static { route 10.1.0.0/24 next-hop 1.1.1.1; }
}
"""

CONF2 = CONF.replace('route 10.1.0.0/24 next-hop 1.1.1.1;', 'route 10.2.0.0/24 next-hop 1.1.1.1;')

CONF_EXT = CONF.replace('capability { route-refresh enable; }', 'capability { route-refresh enable; extended-message enable; }')
# the local AS is taken from the peer's OPEN: ExaBGP reads the OPEN first and sends its own after it
CONF_AUTO = CONF_EXT.replace('local-as 65000;', 'local-as auto;')
CONFS = {'base': CONF, 'ext': CONF_EXT, 'auto': CONF_AUTO}

HOLD = 180
OPENWAIT = 60


def msg(ty, body=b''):
    return MARKER + struct.pack('!HB', 19 + len(body), ty) + body


# ------------------------------------------------------------------------------- virtual loop


class Deadlock(Exception):
    pass


class FakeIO:
    """in-memory socket object; all I/O goes through VLoop.sock_*"""

    def __init__(self, rig, direction):
        self.rig = rig
        self.tid = 0  # numbered when the TCP connection exists (connect succeeded / accepted)
        self.direction = direction
        self.rx = bytearray()
        self.labels = []  # [remaining bytes, event name, arg] for each injected message
        self.eof = False
        self.err = False
        self.closed = False
        self.waiter = None
        self.connect_fut = None
        self.hung_reads = 0
        self.partial = False
        self.lost_partial = False

    def connected(self):
        self.tid = self.rig.next_tid
        self.rig.next_tid += 1
        self.rig.ios[self.tid] = self

    # socket API used by exabgp
    def fileno(self):
        return -1 if self.closed else 1000 + self.tid

    def close(self):
        if not self.closed:
            self.closed = True
            self.closed_at = self.rig.loop.time()
            if not self.tid:
                return  # a socket that never connected
            self.rig.log.append(['close', self.tid, 'gc' if self.rig.in_gc else 'close'])
            if self.waiter is not None and not self.waiter.done():
                # the pending read is never completed (see VLoop.sock_recv_into)
                self.rig.hung.add(self.tid)

    def setblocking(self, flag):
        pass

    def setsockopt(self, *a):
        pass

    def getsockname(self):
        return ('127.0.0.1', 40000 + self.tid)

    def getpeername(self):
        return ('127.0.0.2', 179)

    def send(self, data):  # used by the generator writer of Incoming.notification
        self.rig.record_write(self, bytes(data))
        return len(data)

    # driver side
    def wake(self):
        w, self.waiter = self.waiter, None
        if w is not None and not w.done():
            w.set_result(None)

    def feed_part(self, data, a, b, name, arg=None):
        """octets [a, b) of one message; the event is logged when the reader has taken the last octet of the
        message (of its header for a header error), however many reads that takes"""
        if a == 0:
            n = 19 if str(arg).startswith('Header') else len(data)
            self.labels.append([n, name, arg, n, False])
            if len(data) > n:
                self.labels.append([len(data) - n, None, None, len(data) - n, False])
        self.rx += data[a:b]
        self.wake()

    def feed(self, data, name, arg=None):
        self.rx += data
        self.rig.last_feed_vt = self.rig.loop.time()
        # a header error is detected once the 19 header octets are read: the event is logged there
        n = 19 if str(arg).startswith('Header') else len(data)
        self.labels.append([n, name, arg, n, False])
        if len(data) > n:
            self.labels.append([len(data) - n, None, None, len(data) - n, False])
        self.wake()


class VLoop(asyncio.SelectorEventLoop):
    """asyncio loop with a virtual clock: it jumps to the next timer when nothing is ready"""

    def __init__(self):
        super().__init__()
        self._vt = 0.0

    def time(self):
        return self._vt

    def _run_once(self):
        if not self._ready:
            if not self._scheduled:
                raise Deadlock('virtual loop: nothing ready and nothing scheduled')
            when = self._scheduled[0]._when
            if when > self._vt:
                self._vt = when
        super()._run_once()

    async def sock_recv_into(self, io, view):
        rig = io.rig
        if io.lost_partial and not io.closed:
            # ... and the transport is read again: what follows is read from the middle of a message
            io.lost_partial = False
            rig.log.append(['dropped', io.tid, rig.fsm()])
        while True:
            if io.closed:
                # a read pending on (or started on) a socket that was closed locally never completes:
                # the selector forgets the descriptor (observed with kernel sockets, DESIGN D13)
                io.hung_reads += 1
                rig.hung.add(io.tid)
                await self.create_future()
            if io.rx:
                n = min(len(view), len(io.rx))
                view[:n] = io.rx[:n]
                del io.rx[:n]
                left = n
                while left and io.labels:
                    take = min(left, io.labels[0][0])
                    io.labels[0][0] -= take
                    left -= take
                    if io.labels[0][0] == 0:
                        name, arg = io.labels[0][1], io.labels[0][2]
                        io.labels.pop(0)
                        if name is not None:
                            rig.ev(name, arg)
                            io.partial = False
                if io.labels and not io.rx:
                    head = io.labels[0]
                    if head[1] is not None and 0 < head[0] < head[3] and not head[4]:
                        # the reader holds the first octets of a message whose rest has not arrived
                        head[4] = True
                        io.partial = True
                        rig.ev('RecvPart', head[2])
                return n
            if io.err:
                rig.ev('SockErr')
                raise OSError(errno.ECONNRESET, 'scripted reset')
            if io.eof:
                rig.ev('Eof')
                return 0
            io.waiter = self.create_future()
            try:
                await io.waiter
            except asyncio.CancelledError:
                if io.partial and not io.closed:
                    # the read is given up while it holds part of a message: those octets are gone
                    io.lost_partial = True
                raise

    async def sock_sendall(self, io, data):
        if io.closed:
            raise OSError(errno.EBADF, 'write on a closed scripted socket')
        io.rig.record_write(io, bytes(data))

    async def sock_connect(self, io, addr):
        rig = io.rig
        if rig.connect_mode == 'refuse':
            raise OSError(errno.ECONNREFUSED, 'scripted refusal')
        io.connect_fut = self.create_future()
        rig.connecting = io
        try:
            await io.connect_fut
            io.connected()
        finally:
            if rig.connecting is io:
                rig.connecting = None


class RecProc:
    """recording stand-in for reactor.processes; `arm(name)` makes the NEXT call of that callback raise
    ProcessError once (the API helper's pipe breaks, Processes respawns it): name in
    fsm (next FSM event) / fsm_idle (next FSM event reporting IDLE, i.e. inside Peer._close or Peer.stop) /
    up / down / connected / message (any per-message event: message, packets, notification, negotiated ...)"""

    def __init__(self, rig):
        self.rig = rig
        self.terminate_on_error = False
        self.fail_up = False
        self.armed = None

    def arm(self, name):
        self.armed = name

    def _maybe_fail(self, name):
        if self.armed == name:
            from exabgp.reactor.api.processes import ProcessError

            self.armed = None
            self.rig.log.append(['api', 'failed', name, self.rig.fsm()])
            raise ProcessError()

    def broken(self, neighbor):
        return False

    def up(self, neighbor):
        if self.fail_up:
            from exabgp.reactor.api.processes import ProcessError

            self.rig.log.append(['api', 'up-failed'])
            raise ProcessError()
        self._maybe_fail('up')
        self.rig.log.append(['api', 'up'])

    def down(self, neighbor, reason=''):
        self._maybe_fail('down')
        self.rig.log.append(['api', 'down'])

    def connected(self, neighbor):
        self._maybe_fail('connected')
        # accept() and connect() number the transport just before reporting it
        self.rig.log.append(['api', 'connected', self.rig.next_tid - 1])

    def fsm(self, neighbor, fsm):
        if int(fsm.state) == IDLE:
            self._maybe_fail('fsm_idle')
        self._maybe_fail('fsm')

    def __getattr__(self, name):
        if name.startswith('__'):
            raise AttributeError(name)

        def rec(*a, **k):
            if name in ('message', 'packets', 'notification', 'negotiated', 'refresh', 'update', 'operational', 'signal'):
                self._maybe_fail('message')
            return None

        return rec


def classify_written(raw):
    """bytes of ONE write -> list of (kind, code, sub) (a write is one message in exabgp)"""
    out = []
    pos = 0
    while pos < len(raw):
        if len(raw) - pos < 19 or raw[pos : pos + 16] != MARKER:
            out.append(('GARBAGE', 0, 0))
            break
        ln, ty = struct.unpack('!HB', raw[pos + 16 : pos + 19])
        body = raw[pos + 19 : pos + ln]
        if ty == 1:
            out.append(('OPEN', 0, 0))
        elif ty == 2:
            # End-of-RIB: empty UPDATE, or only an empty MP_UNREACH
            wl = struct.unpack('!H', body[:2])[0] if len(body) >= 2 else 0
            al = struct.unpack('!H', body[2 + wl : 4 + wl])[0] if len(body) >= 4 + wl else 0
            attrs = body[4 + wl : 4 + wl + al]
            nlri = body[4 + wl + al :]
            if wl == 0 and not nlri and (al == 0 or (al == 6 and attrs[1] == 15)):
                out.append(('EOR', 0, 0))
            else:
                out.append(('UPDATE', 0, 0))
        elif ty == 3:
            out.append(('NOTIFICATION', body[0] if body else -1, body[1] if len(body) > 1 else -1))
        elif ty == 4:
            out.append(('KEEPALIVE', 0, 0))
        elif ty == 5:
            out.append(('REFRESH', 0, 0))
        else:
            out.append((f'TYPE{ty}', 0, 0))
        pos += max(ln, 19)
    return out


class Rig:
    """one real Peer under the virtual loop"""

    def __init__(self, conf=CONF, local_rid='10.0.0.5', api_subs=False):
        self.api_subs = api_subs
        from exabgp.environment import getenv
        from exabgp.configuration.configuration import Configuration
        from exabgp.reactor.loop import Reactor
        from exabgp.reactor.peer import Peer

        self.log = []
        self.ios = {}
        self.next_tid = 1
        self.hung = set()
        self.in_gc = False
        self.connect_mode = 'wait'
        self.connecting = None
        self.end = None
        self.reloads = 0
        self.race = None  # (kind) octets to deliver while the main loop sits in the last pause of an iteration
        getenv().bgp.openwait = OPENWAIT
        getenv().bgp.passive = False
        getenv().tcp.attempts = 0
        import logging

        logging.getLogger('asyncio').setLevel(logging.CRITICAL)  # 'Task exception was never retrieved' of a dropped read
        self.loop = VLoop()
        asyncio.set_event_loop(self.loop)
        self._patch()
        from exabgp.rib import RIB

        RIB._cache.clear()  # the RIBs are shared by neighbor name process-wide: every script starts from a fresh one
        self.configuration = Configuration([conf], text=True)
        if not self.configuration.reload():
            raise RuntimeError(f'rig configuration rejected: {self.configuration.error}')
        self.reactor = Reactor(self.configuration)
        self.proc = RecProc(self)
        self.reactor.processes = self.proc
        (self.key, self.neighbor), = self.configuration.neighbors.items()
        self.apply_api(self.neighbor)
        self.peer = Peer(self.neighbor, self.reactor)
        self.reactor._peers[self.key] = self.peer
        self.task = None

    def apply_api(self, neighbor):
        """what `api { processes [..]; neighbor-changes; }` gives; with api_subs also fsm, negotiated and every
        receive-/send- message event in parsed form (each is one more call into reactor.processes)"""
        neighbor.api['neighbor-changes'] = True
        if self.api_subs:
            for key in list(neighbor.api):
                if key in ('fsm', 'negotiated', 'receive-parsed', 'send-parsed') or (
                    key.split('-')[0] in ('receive', 'send') and key.split('-', 1)[1] in ('open', 'keepalive', 'update', 'notification', 'refresh', 'operational')
                ):
                    neighbor.api[key] = True

    # ---- patches (all restored by close())

    def _patch(self):
        import exabgp.bgp.fsm as fsmmod
        import exabgp.reactor.peer.peer as peermod
        import exabgp.reactor.protocol as protomod
        import exabgp.reactor.network.outgoing as outmod
        import exabgp.bgp.timer as timermod
        from exabgp.bgp.message import Notify

        rig = self
        self._saved = []

        def patch(obj, name, new):
            self._saved.append((obj, name, getattr(obj, name)))
            setattr(obj, name, new)

        patch(_time, 'time', lambda: EPOCH + rig.loop.time())

        real_change = fsmmod.FSM.change

        def change(fsm, state):
            rig.log.append(['fsm', int(fsm.state), int(state)])
            return real_change(fsm, state)

        patch(fsmmod.FSM, 'change', change)

        def _setup(conn):
            conn.io = FakeIO(rig, 'outgoing')
            return None

        patch(outmod.Outgoing, '_setup', _setup)

        real_establish = outmod.Outgoing.establish_async

        async def establish_async(conn, *a, **k):
            ok = await real_establish(conn, *a, **k)
            rig.ev('ConnectOk' if ok else 'ConnectFail')
            return ok

        patch(outmod.Outgoing, 'establish_async', establish_async)

        real_run = peermod.Peer._run

        async def _run(peer):
            rig.ev('Tick')
            return await real_run(peer)

        patch(peermod.Peer, '_run', _run)

        real_read_open = peermod.Peer._read_open

        async def _read_open(peer):
            try:
                return await real_read_open(peer)
            except Notify as n:
                if bytes(n.data).startswith(b'waited for open'):
                    rig.ev('OpenWaitExpire')
                raise

        patch(peermod.Peer, '_read_open', _read_open)

        import sys as _sys

        import exabgp.rib.outgoing as ribmod

        real_replace_reload = ribmod.OutgoingRIB.replace_reload

        def replace_reload(rib, previous, current):
            if rig.fsm() == ESTABLISHED:
                rig.ev('Handover')  # Peer._main adopts the reloaded neighbor at the top of an iteration
            return real_replace_reload(rib, previous, current)

        patch(ribmod.OutgoingRIB, 'replace_reload', replace_reload)

        real_cancel_read = peermod.Peer._cancel_read

        def _cancel_read(peer):
            if _sys.exc_info()[0] is None and peer._teardown:
                rig.ev('LoopExit')  # the loop is left for the requested teardown (no exception in flight)
            return real_cancel_read(peer)

        patch(peermod.Peer, '_cancel_read', _cancel_read)

        real_pending = peermod.Peer._has_pending_work

        def _has_pending_work(peer, new_routes, message):
            res = real_pending(peer, new_routes, message)
            if not res and peer._teardown:
                rig.ev('LoopPause')  # the iteration ends with the 1 ms pause, after which the loop looks at _teardown
            if rig.race is not None and not res:
                # the iteration ends with `await asyncio.sleep(0.001)`: the scripted octets arrive in the middle
                # of that pause, i.e. after the 100 ms read wait returned and before the loop looks at _teardown
                kind, rig.race = rig.race, None
                io = rig.cur_io()
                if io is not None and not io.closed:
                    rig.loop.call_later(0.0005, io.feed, wire(kind), 'Recv', kind)
            return res

        patch(peermod.Peer, '_has_pending_work', _has_pending_work)

        real_read_ka = peermod.Peer._read_ka

        async def _read_ka(peer):
            try:
                return await real_read_ka(peer)
            except Notify as n:
                if bytes(n.data).startswith(b'hold timer expired while waiting'):
                    rig.ev('HoldExpire', rig.hold_info(getattr(getattr(getattr(peer, 'proto', None), 'negotiated', None), 'holdtime', None)))
                raise

        patch(peermod.Peer, '_read_ka', _read_ka)

        real_send_phase = peermod.Peer._send_operational_messages

        async def _send_operational_messages(peer):
            # first call of the send phase of a main-loop iteration: the stimulus "the loop has something
            # to send" (queued ROUTE-REFRESH, pending routes) is logged before the sends
            if peer.proto is None:
                rig.ev('LoopExit')  # remove/shutdown took the proto away: the loop dies here (assert), _reset()
            elif peer.neighbor.refresh or peer.neighbor.rib.outgoing.pending():
                rig.ev('Tick')
            return await real_send_phase(peer)

        patch(peermod.Peer, '_send_operational_messages', _send_operational_messages)

        import exabgp.reactor.network.connection as connmod

        def __del__(conn):
            # a Connection dropped without close() is closed by its finaliser: recorded as how='gc'
            was, rig.in_gc = rig.in_gc, True
            try:
                conn.close()
            finally:
                rig.in_gc = was

        patch(connmod.Connection, '__del__', __del__)

        real_check_ka = timermod.ReceiveTimer.check_ka

        def check_ka(timer, message=None, *a):
            try:
                return real_check_ka(timer, message, *a)
            except Notify as n:
                if (n.code, n.subcode) == (timer.code, timer.subcode):
                    rig.ev('HoldExpire', rig.hold_info(getattr(timer, 'holdtime', None)))
                raise

        patch(timermod.ReceiveTimer, 'check_ka', check_ka)

    def close(self):
        try:
            if self.task is not None and not self.task.done():
                self.task.cancel()
                try:
                    self.loop.run_until_complete(asyncio.gather(self.task, return_exceptions=True))
                except Exception:
                    pass
            pending = [t for t in asyncio.all_tasks(self.loop) if not t.done()]
            for t in pending:
                t.cancel()
            if pending:
                try:
                    self.loop.run_until_complete(asyncio.gather(*pending, return_exceptions=True))
                except Exception:
                    pass
        finally:
            for obj, name, old in reversed(self._saved):
                setattr(obj, name, old)
            self.peer.proto = None
            asyncio.set_event_loop(None)
            self.loop.close()

    # ---- observation

    def fsm(self):
        return int(self.peer.fsm.state)

    def ev(self, name, arg=None):
        self.log.append(['ev', name, arg, self.fsm()])

    def hold_info(self, holdtime):
        """[negotiated hold time, virtual seconds since the last COMPLETE message was handed to the transport]: lets the
        oracle tell a hold timer that fired from one that was due"""
        try:
            return [int(holdtime), round(self.loop.time() - getattr(self, 'last_feed_vt', 0.0), 2)]
        except Exception:
            return None

    def record_write(self, io, raw):
        for kind, c, s in classify_written(raw):
            self.log.append(['w', io.tid, kind, c, s, self.fsm()])

    def cur_io(self):
        p = self.peer.proto
        if p is None or p.connection is None:
            return None
        return p.connection.io

    # ---- stimuli

    def start(self):
        self.task = self.loop.create_task(self.peer.run())

    async def sleep(self, dt):
        await asyncio.sleep(dt)

    def connect_ok(self):
        io = self.connecting
        if io is None or io.connect_fut is None or io.connect_fut.done():
            return False
        io.connect_fut.set_result(None)
        return True

    def connect_fail(self):
        io = self.connecting
        self.connect_mode = 'refuse'
        if io is None or io.connect_fut is None or io.connect_fut.done():
            return False
        io.connect_fut.set_exception(OSError(errno.ECONNREFUSED, 'scripted refusal'))
        return True

    def incoming(self):
        """an incoming TCP connection is offered to the peer (what Listener.new_connections does)"""
        from exabgp.reactor.network.incoming import Incoming
        from exabgp.protocol.family import AFI

        io = FakeIO(self, 'incoming')
        io.connected()
        conn = Incoming(AFI.ipv4, '127.0.0.2', '127.0.0.1', io)
        conn.writing = lambda: True  # the kernel poll of the generator writer
        self.ev('Incoming')
        try:
            denied = self.reactor.handle_connection(self.key, conn)
        except Exception as exc:  # an API failure inside handle_connection reaches the listener
            self.log.append(['escaped', 'handle_connection', type(exc).__name__])
            denied = None
        # Listener.new_connections logs "refused" and drops the generator without running it
        res = 'denied' if denied else 'accepted'
        del denied, conn
        self.collect()
        return res, io

    def collect(self):
        self.in_gc = True
        try:
            gc.collect()
        finally:
            self.in_gc = False


# ------------------------------------------------------------------------------- remote speaker bytes


def open_bytes(asn=65001, hold=HOLD, rid='10.0.0.9', version=4, caps=True, ext=False):
    """a valid OPEN of the remote speaker, built with the real Open class"""
    from exabgp.bgp.message.open import Open, Version, RouterID
    from exabgp.bgp.message.open.asn import ASN
    from exabgp.bgp.message.open.holdtime import HoldTime
    from exabgp.bgp.message.open.capability import Capabilities
    from exabgp.bgp.message.open.capability.capability import Capability
    from exabgp.bgp.message.open.capability.mp import MultiProtocol
    from exabgp.bgp.message.open.capability.refresh import RouteRefresh
    from exabgp.bgp.message.open.capability.asn4 import ASN4
    from exabgp.bgp.message.direction import Direction
    from exabgp.bgp.message.open.capability.negotiated import Negotiated
    from exabgp.bgp.neighbor import Neighbor
    from exabgp.protocol.family import AFI, SAFI

    capa = Capabilities()
    if caps:
        mp = MultiProtocol()
        mp.append((AFI.ipv4, SAFI.unicast))
        capa[Capability.CODE.MULTIPROTOCOL] = mp
        capa[Capability.CODE.ROUTE_REFRESH] = RouteRefresh()
        capa[Capability.CODE.FOUR_BYTES_ASN] = ASN4(asn)
        if ext:
            from exabgp.bgp.message.open.capability.extended import ExtendedMessage

            capa[Capability.CODE.EXTENDED_MESSAGE] = ExtendedMessage()  # RFC 8654
    o = Open.make_open(Version(version), ASN(asn), HoldTime(hold), RouterID(rid), capa)
    return o.pack_message(Negotiated.make_negotiated(Neighbor.EMPTY, Direction.IN))


def attr(flag, code, val):
    if flag & 0x10:
        return bytes([flag, code]) + struct.pack('!H', len(val)) + val
    return bytes([flag, code, len(val)]) + val


def update_bytes(attrs, nlri=b'\x18\x0a\x09\x00', wd=b''):
    a = b''.join(attrs)
    return msg(2, struct.pack('!H', len(wd)) + wd + struct.pack('!H', len(a)) + a + nlri)


ORIGIN = attr(0x40, 1, b'\x00')
ASPATH = attr(0x40, 2, b'\x02\x01' + struct.pack('!I', 65001))  # AS_SEQUENCE [65001], 4-byte (ASN4 negotiated)
NEXTHOP = attr(0x40, 3, bytes([192, 0, 2, 1]))


def big_update(total):
    """a valid UPDATE of exactly `total` octets: only withdrawn IPv4 routes (/24: 4 octets, /32: 5 octets), all distinct"""
    wlen = total - 23
    n5 = wlen % 4
    n4 = (wlen - 5 * n5) // 4
    assert n4 >= 0 and 4 * n4 + 5 * n5 == wlen
    wd = b''.join(bytes([24, 11 + (i >> 16), (i >> 8) & 255, i & 255]) for i in range(n4))
    wd += b''.join(bytes([32, 9, 9, 9, i]) for i in range(n5))
    out = msg(2, struct.pack('!H', len(wd)) + wd + b'\x00\x00')
    assert len(out) == total
    return out


def wire(kind):
    """concrete bytes of the remote speaker for an abstract message kind -> (bytes, event name, event arg)
    The expected (code, subcode) of the error kinds is what RFC 4271 s6 / RFC 6608 / RFC 7313 say for the class;
    it is NOT read from the implementation."""
    k = kind
    if k == 'OpenOk':
        return open_bytes()
    if k.startswith('OpenOkHold'):  # valid OPEN proposing that hold time (ours is 180): RFC 4271 4.2, the smaller one counts
        return open_bytes(hold=int(k[len('OpenOkHold'):]))
    if k == 'OpenOkExt':  # valid OPEN announcing Extended Message (RFC 8654)
        return open_bytes(ext=True)
    if k.startswith('UpdateBig'):  # valid UPDATE of that many octets
        return big_update(int(k[len('UpdateBig'):]))
    if k == 'HeaderOver4097':  # a 4097-octet UPDATE on a session without Extended Message: 1/2
        return big_update(4097)
    if k == 'OpenOkLow':  # valid OPEN with a BGP identifier lower than ours (10.0.0.5)
        return open_bytes(rid='10.0.0.1')
    if k == 'OpenBadVersion':  # 2/1
        b = bytearray(open_bytes())
        b[19] = 3
        return bytes(b)
    if k == 'OpenBadAs':  # 2/2
        return open_bytes(asn=65009)
    if k == 'OpenBadId':  # 2/3
        return open_bytes(rid='0.0.0.0')
    if k == 'OpenBadHold':  # 2/6
        b = bytearray(open_bytes())
        b[22:24] = struct.pack('!H', 1)
        return bytes(b)
    if k == 'OpenBadParam':  # 2/4 unsupported optional parameter (type 9)
        b = bytearray(open_bytes(caps=False))
        body = bytes(b[19:28]) + bytes([4, 9, 2, 0, 0])
        return msg(1, body)
    if k == 'Keepalive':
        return msg(4)
    if k == 'UpdateOk':
        return update_bytes([ORIGIN, ASPATH, NEXTHOP])
    if k == 'Eor':
        return msg(2, b'\x00\x00\x00\x00')
    if k == 'UpdateBadAttrLen':  # 3/1 total attribute length overruns the message
        return msg(2, b'\x00\x00\x00\x40' + ORIGIN)
    if k == 'UpdateBadWdLen':  # 3/1 withdrawn length overruns the message
        return msg(2, b'\x00\x30\x00\x00')
    if k == 'UpdateBadOriginFlag':  # 3/4 attribute flags error on ORIGIN (optional bit set)
        return update_bytes([attr(0xC0, 1, b'\x00'), ASPATH, NEXTHOP])
    if k == 'UpdateBadOriginLen':  # 3/5 attribute length error
        return update_bytes([attr(0x40, 1, b'\x00\x00'), ASPATH, NEXTHOP])
    if k == 'UpdateBadOriginVal':  # 3/6 invalid ORIGIN
        return update_bytes([attr(0x40, 1, b'\x07'), ASPATH, NEXTHOP])
    if k == 'UpdateMissing':  # 3/3 missing well-known (no NEXT_HOP)
        return update_bytes([ORIGIN, ASPATH])
    if k == 'UpdateBadNlri':  # 3/10 invalid network field (prefix length 33)
        return update_bytes([ORIGIN, ASPATH, NEXTHOP], nlri=b'\x21\x0a\x09\x00\x00\x00')
    if k == 'UpdateBadAsPath':  # 3/11 malformed AS_PATH (segment length overruns)
        return update_bytes([ORIGIN, attr(0x40, 2, b'\x02\x05' + struct.pack('!I', 65001)), NEXTHOP])
    if k == 'Notification':
        return msg(3, b'\x06\x02')
    if k == 'NotificationShort':  # a NOTIFICATION without subcode octet passes no length check (min 21)
        return msg(3, b'\x06\x04admin')
    if k == 'Refresh':
        return msg(5, b'\x00\x01\x00\x01')
    if k == 'RefreshBadSubtype':
        return msg(5, b'\x00\x01\x07\x01')
    if k == 'Operational':
        return msg(6, b'\xff\xfe\x00\x02\x01\x02')  # a well-formed OPERATIONAL of an unassigned type
    if k == 'UnknownType':
        return msg(77)
    if k == 'HeaderBadMarker':  # 1/1
        return b'\x00' * 16 + struct.pack('!HB', 19, 4)
    if k == 'HeaderShortLen':  # 1/2
        return MARKER + struct.pack('!HB', 18, 4)
    if k == 'HeaderLongLen':  # 1/2
        return MARKER + struct.pack('!HB', 4097, 2)
    if k == 'HeaderKaLen':  # 1/2 KEEPALIVE must be exactly 19
        return MARKER + struct.pack('!HB', 20, 4) + b'\x00'
    raise KeyError(kind)


def run_script(steps, conf=CONF, gap=0.5, trace_exc=False, api_subs=False):
    conf = CONFS.get(conf, conf)
    """steps: list of [what, arg]; what in
         'tick'            let time pass until the peer starts a new attempt (bounded) or `arg` seconds
         'connect_ok' / 'connect_fail'
         'incoming'        arg = remote router-id relation is irrelevant here (only OPENCONFIRM compares ids)
         'recv'            arg = message kind (bytes on the transport currently owned by the peer)
         'eof' / 'sockerr'
         'silence'         arg = seconds
         'teardown'        arg = code
         'reestablish' / 'reconfigure' / 'remove' / 'shutdown'
         'refresh'         queue a ROUTE-REFRESH (what the API command does)
         'upfail'          Processes.up raises ProcessError from now on
    -> dict(log=[...], final_fsm, hung=[tids], skipped=[indices of steps that had no transport/connect to act on])"""
    rig = Rig(conf, api_subs=api_subs)
    skipped = []
    exc = []

    async def wait_connecting():
        # the peer starts its attempt after its restart delay (0.1 s + back-off, at most about 60 s)
        for _ in range(700):
            if rig.connecting is not None or rig.task.done():
                return
            await asyncio.sleep(0.1)

    async def main():
        rig.start()
        await asyncio.sleep(0)
        for i, step in enumerate(steps):
            what, arg = step[0], step[1]
            after = step[2] if len(step) > 2 else gap
            if what == 'tick':
                await asyncio.sleep(arg if arg else gap)
            elif what == 'connect_ok':
                await wait_connecting()
                if not rig.connect_ok():
                    skipped.append(i)
            elif what == 'connect_fail':
                await wait_connecting()
                if not rig.connect_fail():
                    skipped.append(i)
                await asyncio.sleep(6.0)  # 50 attempts, 0.1 s apart
                rig.connect_mode = 'wait'
            elif what == 'incoming':
                rig.incoming()
            elif what in ('recv', 'eof', 'sockerr'):
                io = rig.cur_io()
                if io is None or io.closed:
                    skipped.append(i)
                elif what == 'recv':
                    io.feed(wire(arg), 'Recv', arg)
                elif what == 'eof':
                    io.eof = True
                    io.wake()
                else:
                    io.err = True
                    io.wake()
            elif what == 'recv_part':
                # arg = [kind, a, b]: octets [a, b) of the message (b = -1: to the end)
                io = rig.cur_io()
                kind, a, b = arg
                data = wire(kind)
                if io is None or io.closed:
                    skipped.append(i)
                else:
                    io.feed_part(data, a, len(data) if b < 0 else b, 'Recv', kind)
            elif what == 'reload':
                # SIGUSR1 with the same neighbor and other routes: the real Reactor.reload(), Peer.reconfigure()
                rig.reloads += 1
                rig.configuration._configurations[:] = [CONF2 if rig.reloads % 2 else CONF]
                rig.ev('Reconfigure', None)
                if not rig.reactor.reload():
                    raise RuntimeError(f'scripted reload refused: {rig.configuration.error}')
                for n in rig.configuration.neighbors.values():
                    rig.apply_api(n)
            elif what == 'teardown_race':
                # arg = [code, kind]: API teardown, and `kind` arrives while the loop is in its last 1 ms pause
                rig.ev('Teardown', arg[0])
                rig.race = arg[1]
                rig.reactor.teardown_peer(rig.key, arg[0])
            elif what == 'apifail':
                rig.proc.arm(arg)  # the next call of that API callback raises ProcessError, once
                continue
            elif what == 'silence':
                await asyncio.sleep(arg)
            elif what == 'teardown':
                rig.ev('Teardown', arg)
                rig.reactor.teardown_peer(rig.key, arg)
            elif what == 'reestablish':
                rig.ev('Reestablish', None)
                rig.peer.reestablish()
            elif what == 'reconfigure':
                rig.ev('Reconfigure', None)
                rig.peer.reconfigure()
            elif what == 'remove':
                rig.ev('Remove', None)
                try:
                    rig.peer.remove()
                except Exception as exc:  # an API failure inside the call reaches the caller (API command / reload)
                    rig.log.append(['escaped', 'remove', type(exc).__name__])
            elif what == 'shutdown':
                rig.ev('Shutdown', None)
                try:
                    rig.peer.shutdown()
                except Exception as exc:  # an API failure inside the call reaches the caller (API command / reload)
                    rig.log.append(['escaped', 'shutdown', type(exc).__name__])
            elif what == 'refresh':
                from exabgp.bgp.message.refresh import RouteRefresh
                from exabgp.protocol.family import AFI, SAFI

                if rig.peer.neighbor.refresh:
                    skipped.append(i)  # the model keeps ONE queued ROUTE-REFRESH (a boolean)
                else:
                    rig.ev('ApiRefresh', None)
                    rig.peer.neighbor.refresh.append(RouteRefresh.make_route_refresh(AFI.ipv4, SAFI.unicast))
            elif what == 'upfail':
                rig.ev('ProcessBroken', None)
                rig.proc.fail_up = True
            else:
                raise ValueError(what)
            # the offset keeps the driver's timestamps away from the peer's own timers (100 ms pauses): a
            # stimulus never falls in the same loop iteration as a timer of the peer task
            await asyncio.sleep(after + 0.01371)
            rig.collect()
        await asyncio.sleep(gap)
        rig.end = len(rig.log)
        now = rig.loop.time()
        # reads still pending on a transport the implementation closed itself (they never complete)
        rig.wedged = [
            [io.tid, round(now - io.closed_at, 1)]
            for io in rig.ios.values()
            if io.closed and io.waiter is not None and not io.waiter.done()
        ]

    try:
        try:
            rig.loop.run_until_complete(main())
        except Deadlock:
            rig.log.append(['deadlock'])
            rig.end = len(rig.log)
        return {
            'log': rig.log[: rig.end],
            'final_fsm': rig.fsm(),
            'hung': sorted(rig.hung),
            'skipped': skipped,
            'task_exception': (type(rig.task.exception()).__name__ if rig.task.done() and not rig.task.cancelled() and rig.task.exception() else None),
            'wedged': getattr(rig, 'wedged', []),
            'owned_open': (rig.cur_io().tid if rig.cur_io() is not None and not rig.cur_io().closed else 0),
            'task_done': rig.task.done(),
            'vt': rig.loop.time(),
        }
    finally:
        rig.close()


# ------------------------------------------------------------------------------- C12 tie: the loop gap


def measure_loop_gap(hold, nroutes=5000, block_s=0.0, block_at=1000):
    """Longest virtual-time gap between two consecutive consultations of the timers (ReceiveTimer.check_ka and
    KA.send_if_needed, both called once per iteration of Peer._main) while a batch of `nroutes` UPDATEs (one route
    each: distinct MED) is being sent; the write number `block_at` of the batch blocks for `block_s` seconds (a
    peer that stops reading).  The remote speaker sends a KEEPALIVE every hold/3 seconds.
    -> dict(hold, routes, block_s, updates_written, batch_s, max_gap_check_ka_s, max_gap_send_ka_s, iterations, ended)"""
    import exabgp.bgp.timer as timermod
    import exabgp.reactor.keepalive as kamod

    routes = '\n'.join(f'    route 10.{(i >> 8) & 255}.{i & 255}.0/24 next-hop 1.1.1.1 med {i + 1};' for i in range(nroutes))
    conf = CONF.replace('hold-time 180;', f'hold-time {hold};').replace('route 10.1.0.0/24 next-hop 1.1.1.1;', routes)
    rig = Rig(conf)
    calls = {'check_ka': [], 'send_ka': []}
    state = {'updates': 0, 'first': None, 'last': None}

    real_check = timermod.ReceiveTimer.check_ka  # already wrapped by the rig

    def check_ka(timer, message=None, *a):
        calls['check_ka'].append(rig.loop.time())
        return real_check(timer, message, *a)

    timermod.ReceiveTimer.check_ka = check_ka
    real_send = kamod.KA.send_if_needed

    async def send_if_needed(ka):
        calls['send_ka'].append(rig.loop.time())
        return await real_send(ka)

    kamod.KA.send_if_needed = send_if_needed
    real_sendall = VLoop.sock_sendall

    async def sock_sendall(loop, io, data):
        if len(data) > 18 and data[18] == 2:
            state['updates'] += 1
            if state['first'] is None:
                state['first'] = loop.time()
            state['last'] = loop.time()
            if block_s and state['updates'] == block_at:
                await asyncio.sleep(block_s)  # the kernel buffer is full: the peer does not read
        return await real_sendall(loop, io, data)

    VLoop.sock_sendall = sock_sendall
    rig.record_write = lambda io, raw: None  # 5 000 writes: not logged one by one

    async def main():
        rig.start()
        for _ in range(50):
            if rig.connecting is not None:
                break
            await asyncio.sleep(0.1)
        rig.connect_ok()
        await asyncio.sleep(0.3)
        io = rig.cur_io()
        io.feed(open_bytes(hold=hold), 'Recv', 'OpenOk')
        await asyncio.sleep(0.3)
        io.feed(msg(4), 'Recv', 'Keepalive')
        t_end = rig.loop.time() + nroutes / 25 * 0.11 + block_s + 5
        while rig.loop.time() < t_end and not io.closed:
            await asyncio.sleep(max(hold / 3.0, 0.5))
            if not io.closed:
                io.feed(msg(4), 'Recv', 'Keepalive')

    try:
        rig.loop.run_until_complete(main())
    finally:
        timermod.ReceiveTimer.check_ka = real_check
        kamod.KA.send_if_needed = real_send
        VLoop.sock_sendall = real_sendall
        ended = [e for e in rig.log if e[0] == 'fsm' and e[1] == ESTABLISHED]
        rig.close()

    def max_gap(ts):
        lo, hi = state['first'], state['last']
        if lo is None:
            return None
        inside = [t for t in ts if lo - 0.2 <= t <= hi + 0.2]
        return round(max((b - a for a, b in zip(inside, inside[1:])), default=0.0), 4)

    return {
        'hold': hold, 'routes': nroutes, 'block_s': block_s, 'updates_written': state['updates'],
        'batch_s': None if state['first'] is None else round(state['last'] - state['first'], 2),
        'max_gap_check_ka_s': max_gap(calls['check_ka']), 'max_gap_send_ka_s': max_gap(calls['send_ka']),
        'iterations': len(calls['check_ka']), 'session_ended_during_batch': bool(ended),
    }
