"""C19 - Decoding does not depend on what was decoded before.  H-cache.

Long mixed sequences of UPDATE / OPEN / NOTIFICATION / ROUTE-REFRESH / KEEPALIVE bodies over four sessions with
different negotiated parameters are decoded and rendered

  (seq)     in ONE long-running process, in sequence order, nothing reset (the implementation under test),
  (cleared) each distinct message alone, after every piece of process-wide state found by reading the source was
            put back to its import-time value,
  (fresh)   a sample of them, each alone in its own brand-new interpreter.

Property oracle: seq == cleared per message (routes, every attribute, str/json/index of the collection, the
API lines of the four encoders with time/counter/pid/host masked, or the raised error), and the objects kept
from message i render at the end of their sequence as they rendered right after decoding.  `cleared == fresh`
on the sample validates the baseline (a difference there is state the reading missed: an obligation breaks).
Correspondence: Model_Cache (vm_compute inside coqc) is given the fresh decodings as tables and must predict,
message by message, which collection the long-running process hands out - stale ones included.

Everything that touches exabgp runs in child interpreters (`python -m harness.c19 child job out`)."""

from __future__ import annotations

import collections
import concurrent.futures
import glob
import json
import os
import random
import re
import struct
import subprocess
import sys
import time

PID = 'C19'
PY = sys.executable or '/venv/bin/python'

SESSIONS = [
    {'name': 's0', 'peer': '10.9.0.1', 'families': 'all', 'asn4': True, 'aigp': True, 'addpath': [], 'nexthop': []},
    {'name': 's1', 'peer': '10.9.0.2', 'families': 'all', 'asn4': False, 'aigp': True, 'addpath': [], 'nexthop': []},
    {'name': 's2', 'peer': '10.9.0.3', 'families': 'all', 'asn4': True, 'aigp': False, 'addpath': 'all',
     'nexthop': [[1, 1, 2], [1, 4, 2]]},
    {'name': 's3', 'peer': '10.9.0.4', 'families': 'ipv4 unicast ipv6 unicast ipv4 mpls-vpn', 'asn4': False, 'aigp': False,
     'addpath': [[1, 1]], 'nexthop': []},
    {'name': 's4', 'peer': '10.9.0.5', 'families': 'all', 'asn4': True, 'aigp': False, 'addpath': [], 'nexthop': []},
]

# =============================================================================== child side (imports exabgp)

_CALLS = []  # log of AttributeCollection.unpack calls of the message being decoded
_IMPORT_STATE = {}


def _items(coll):
    out = []
    for k in sorted(coll.keys()):
        a = coll[k]
        try:
            s = str(a)
        except Exception as exc:
            s = f'EXC {type(exc).__name__}'
        out.append([int(k), type(a).__name__, int(getattr(a, 'FLAG', 0)), s])
    return out


def child_setup():
    """what application/server.py does at start + outside instrumentation of the cache entry point"""
    from exabgp.bgp.message.update.attribute.attribute import Attribute
    from exabgp.bgp.message.update.attribute.collection import AttributeCollection
    from exabgp.bgp.message.open.capability.capability import Capability
    import exabgp.bgp.message.update  # noqa: F401  registers everything
    import exabgp.bgp.message.open  # noqa: F401
    import exabgp.bgp.message.refresh  # noqa: F401
    import exabgp.bgp.message.notification  # noqa: F401
    import exabgp.bgp.message.keepalive  # noqa: F401
    import exabgp.bgp.message.operational  # noqa: F401

    Attribute.caching = True  # exabgp.cache.attributes defaults to true (application/server.py:109)
    original = AttributeCollection.unpack.__func__

    def logged(cls, data, negotiated):
        entry = {'hex': bytes(data).hex()}
        _CALLS.append(entry)
        try:
            r = original(cls, data, negotiated)
        except BaseException as exc:
            entry['exc'] = f'{type(exc).__name__}: {exc}'[:200]
            raise
        entry['items'] = _items(r)
        entry['obj'] = id(r)
        return r

    AttributeCollection.unpack = classmethod(logged)
    snapshot_state()


def _registries():
    from exabgp.bgp.message.update.attribute.attribute import Attribute
    from exabgp.bgp.message.update.collection import UpdateCollection
    from exabgp.bgp.message.update.attribute.bgpls.linkstate import LinkState
    from exabgp.bgp.message.update.attribute.community.initial.community import Community
    from exabgp.bgp.message.update.attribute.community.large.community import LargeCommunity
    from exabgp.bgp.message.open.capability.capability import CapabilityCode
    from exabgp.protocol.resource import Resource
    from exabgp.reactor.api.response.json import JSON

    regs = {
        'UpdateCollection._EOR_CACHE': UpdateCollection._EOR_CACHE,
        'Community.cache': Community.cache,
        'LargeCommunity._instance_cache': LargeCommunity._instance_cache,
        'CapabilityCode._cache': CapabilityCode._cache,
        'JSON._count': JSON._count,
    }
    if hasattr(LinkState, 'registered_lsids'):
        regs['LinkState.registered_lsids'] = LinkState.registered_lsids
    for code, cache in Attribute.cache.items():
        regs[f'Attribute.cache[{code}]'] = cache
    for cls, cache in Resource.cache.items():
        regs[f'Resource.cache[{cls.__name__}]'] = cache
    return regs


def snapshot_state():
    from exabgp.bgp.message.update.attribute.attribute import Attribute
    from exabgp.bgp.message.open.capability.capability import Capability

    _IMPORT_STATE['regs'] = {name: dict(d) for name, d in _registries().items()}
    _IMPORT_STATE['attr_ids'] = {kls: kls.__dict__.get('ID', None) for kls in set(Attribute.registered_attributes.values())}
    _IMPORT_STATE['cap_ids'] = {kls: kls.__dict__.get('ID', None) for kls in set(Capability.registered_capability.values())}


def reset_state():
    """every piece of process-wide state found by reading the source, back to its import-time value"""
    from exabgp.bgp.message.update.attribute.collection import AttributeCollection
    from exabgp.protocol.resource import Resource

    AttributeCollection.cached = None
    AttributeCollection.previous = b''
    regs = _registries()
    for name, d in regs.items():
        snap = _IMPORT_STATE['regs'].get(name)
        if snap is None:
            d.clear()
        else:
            for k in [k for k in d if k not in snap]:
                dict.pop(d, k)
            if hasattr(d, 'ordered'):
                d.ordered[:] = [k for k in d.ordered if k in d]
    for kls, ident in list(_IMPORT_STATE['attr_ids'].items()) + list(_IMPORT_STATE['cap_ids'].items()):
        if ident is not None and kls.__dict__.get('ID', None) != ident:
            kls.ID = ident


def state_digest():
    """sizes of the registries and the class IDs: reported, and used to show which state a run wrote"""
    from exabgp.bgp.message.update.attribute.collection import AttributeCollection

    d = {name: len(reg) for name, reg in _registries().items() if not name.startswith('Resource.cache')}
    d['AttributeCollection.cached'] = AttributeCollection.cached is not None
    d['class_ids'] = {kls.__name__: int(kls.ID) for kls, ident in _IMPORT_STATE['cap_ids'].items()
                      if ident is not None and int(kls.ID) != int(ident)}
    return d


def build_session(spec):
    from exabgp.configuration.setup import create_minimal_configuration
    from exabgp.configuration.check import _negotiated
    from exabgp.protocol.family import AFI, SAFI

    conf = create_minimal_configuration(peer_address=spec['peer'], families=spec['families'], add_path=bool(spec['addpath']))
    neighbor = next(iter(conf.neighbors.values()))
    if spec['addpath']:
        neighbor.capability.add_path = 3
    neg, _ = _negotiated(neighbor)
    neg.asn4 = spec['asn4']
    neg.aigp = spec['aigp']
    if spec['addpath'] != 'all':
        keep = {tuple(f) for f in spec['addpath']}
        for table in (neg.addpath._receive, neg.addpath._send):
            for fam in list(table):
                if (int(fam[0]), int(fam[1])) not in keep:
                    table[fam] = False
    neg.nexthop = [(AFI.from_int(a), SAFI.from_int(s), AFI.from_int(n)) for a, s, n in spec['nexthop']]
    return {'spec': spec, 'conf': conf, 'neighbor': neighbor, 'neg': neg}


_MASKS = [
    (re.compile(r'"time": [0-9.eE+-]+'), '"time": 0'),
    (re.compile(r'"host" : "[^"]*"'), '"host" : "h"'),
    (re.compile(r'"pid" : \d+'), '"pid" : 0'),
    (re.compile(r'"ppid" : \d+'), '"ppid" : 0'),
    (re.compile(r'"counter": \d+'), '"counter": 0'),
]


def mask(line):
    if line is None:
        return None
    for rx, rep in _MASKS:
        line = rx.sub(rep, line)
    return line


def _safe(fn):
    try:
        return fn()
    except Exception as exc:
        return f'EXC {type(exc).__name__}: {exc}'[:200]


def header_of(code, body):
    return b'\xff' * 16 + (19 + len(body)).to_bytes(2, 'big') + bytes([code])


class Encoders:
    def __init__(self):
        from exabgp.reactor.api.response import Response
        from exabgp.version import json as jv, json_v4, text_v4

        self.encs = {'json6': Response.JSON(jv), 'text6': Response.Text(jv),
                     'json4': Response.V4.JSON(json_v4), 'text4': Response.V4.Text(text_v4)}

    def lines(self, sess, code, target, msg, body):
        n, neg = sess['neighbor'], sess['neg']
        hdr = header_of(code, body)
        out = {}
        for name, enc in self.encs.items():
            def call():
                if code == 1:
                    return enc.open(n, 'receive', target, hdr, body, neg)
                if code == 2:
                    return enc.update(n, 'receive', target, hdr, body, neg)
                if code == 3:
                    return enc.notification(n, 'receive', target, hdr, body, neg)
                if code == 4:
                    return enc.keepalive(n, 'receive', hdr, body, neg)
                if code == 5:
                    return enc.refresh(n, 'receive', target, hdr, body, neg)
                return None
            out[name] = mask(_safe(call))
        return out


def render_held(encs, sess, held):
    """renderings of the objects a decoded message consists of; called right after decoding and again later"""
    code, body, msg = held['code'], held['body'], held['msg']
    r = {}
    if code == 2:
        if getattr(msg, 'IS_EOR', False):
            n = msg.nlris[0]
            r['eor'] = [int(n.afi), int(n.safi)]
            r['lines'] = encs.lines(sess, code, msg, msg, body)
            return r
        d = held['data']
        # the API lines FIRST, as the reactor produces them: our own str()/json() calls below must not be what fills
        # the memoised renderings the encoders then read
        r['lines'] = encs.lines(sess, code, d, msg, body)
        r['announce'] = [[int(x.nlri.afi), int(x.nlri.safi), _safe(lambda: str(x.nlri)), _safe(lambda: x.nlri.json()),
                          _safe(lambda: str(x.nexthop)), _safe(lambda: bytes(x.nlri.index()).hex())] for x in d.announces]
        r['withdraw'] = [[int(x.afi), int(x.safi), _safe(lambda: str(x)), _safe(lambda: x.json()),
                          _safe(lambda: bytes(x.index()).hex())] for x in d.withdraws]
        r['attrs'] = _items(d.attributes)
        r['attr_json_each'] = [[int(k), _safe(lambda: d.attributes[k].json())] for k in sorted(d.attributes.keys())
                               if hasattr(d.attributes[k], 'json')]
        r['attr_str'] = _safe(lambda: str(d.attributes))
        r['attr_json'] = _safe(lambda: d.attributes.json())
        r['attr_index'] = _safe(lambda: bytes(d.attributes.index()).hex())
        r['attr_json_nexthop'] = _safe(lambda: d.attributes.json(include_nexthop=True))
        return r
    if code == 1:
        r['open'] = [_safe(lambda: int(msg.version)), _safe(lambda: int(msg.asn)), _safe(lambda: int(msg.hold_time)),
                     _safe(lambda: str(msg.router_id))]
        r['caps'] = [[int(k), type(v).__name__, _safe(lambda: str(v)), _safe(lambda: v.json())]
                     for k, v in sorted(msg.capabilities.items())]
        r['str'] = _safe(lambda: str(msg))
    elif code == 3:
        r['notification'] = [_safe(lambda: int(msg.code)), _safe(lambda: int(msg.subcode)), _safe(lambda: bytes(msg.data).hex()),
                             _safe(lambda: str(msg))]
    elif code == 5:
        r['refresh'] = [_safe(lambda: int(msg.afi)), _safe(lambda: int(msg.safi)), _safe(lambda: int(msg.reserved)), _safe(lambda: str(msg))]
    else:
        r['str'] = _safe(lambda: str(msg))
    r['lines'] = encs.lines(sess, code, msg, msg, body)
    return r


def observe(encs, sessions, m, entry='reactor'):
    """decode + render one message as the reactor does (Message.unpack, .data forced, API lines)
    -> (observation, held objects or None)"""
    from exabgp.bgp.message import Message
    from exabgp.bgp.message.notification import Notify

    sess = sessions[m['s']]
    code, body = m['t'], bytes.fromhex(m['hex'])
    del _CALLS[:]
    obs = {}
    held = None
    try:
        if entry == 'check' and code == 2:
            # configuration/check.py and the decode CLI go through UpdateCollection.unpack_message (EOR singletons)
            from exabgp.bgp.message.update.collection import UpdateCollection

            data = UpdateCollection.unpack_message(body, sess['neg'])
            obs['outcome'] = 'eor-singleton' if data.IS_EOR else 'update'
            obs['render'] = {'announce': len(data.announces), 'withdraw': len(data.withdraws), 'attrs': _items(data.attributes),
                             'eor': [int(data.eor_afi), int(data.eor_safi)] if data.IS_EOR else None}
            held = {'code': 0, 'body': body, 'msg': data, 'check': True}
        else:
            msg = Message.unpack(code, body, sess['neg'])
            held = {'code': code, 'body': body, 'msg': msg}
            if code == 2 and not getattr(msg, 'IS_EOR', False):
                held['data'] = msg.data
                obs['outcome'] = 'update'
            else:
                obs['outcome'] = {1: 'open', 2: 'eor', 3: 'notification', 4: 'keepalive', 5: 'refresh'}.get(code, 'other')
            obs['render'] = render_held(encs, sess, held)
    except Notify as exc:
        obs['outcome'] = 'notify'
        obs['render'] = [int(exc.code), int(exc.subcode), str(exc)[:200]]
        held = None
    except Exception as exc:
        obs['outcome'] = 'pyerror'
        obs['render'] = f'{type(exc).__name__}: {exc}'[:200]
        held = None
    calls = [dict(c) for c in _CALLS]
    for c in calls:
        c.pop('obj', None)
    obs['unpack'] = calls
    return obs, held


def rerender(encs, sessions, m, held):
    if held is None:
        return None
    if held.get('check'):
        data = held['msg']
        return {'announce': len(data.announces), 'withdraw': len(data.withdraws), 'attrs': _items(data.attributes),
                'eor': [int(data.eor_afi), int(data.eor_safi)] if data.IS_EOR else None}
    return render_held(encs, sessions[m['s']], held)


def reflect():
    """facts about the registries that the model relies on, read from the running tree"""
    from exabgp.bgp.message.update.attribute.attribute import Attribute
    from exabgp.bgp.message.open.capability.capability import Capability
    import inspect

    by_class = collections.defaultdict(list)
    for (aid, flag), kls in Attribute.registered_attributes.items():
        by_class[kls.__name__].append(int(aid))
    caps = collections.defaultdict(list)
    for code, kls in Capability.registered_capability.items():
        caps[kls.__name__].append(int(code))
    src = inspect.getsource(Attribute.unpack.__func__)
    return {
        'attribute_base_CACHING': bool(Attribute.CACHING),
        'attribute_classes_with_two_ids': {k: v for k, v in by_class.items() if len(set(v)) > 1},
        'capability_classes_with_two_codes': {k: sorted(v) for k, v in caps.items() if len(set(v)) > 1},
        'attr_unpack_guard': 'cls.caching and cls.CACHING' in src,
        'klass_writes_id': 'kls.ID = what' in inspect.getsource(Capability.klass.__func__),
    }


def unpack_key_shape():
    """which key the last-attributes shortcut of the tree under check uses (read, then confirmed by the probe)"""
    import inspect
    from exabgp.bgp.message.update.attribute import collection

    src = inspect.getsource(collection.AttributeCollection)
    m = re.search(r'def unpack\(cls.*?return attributes\n\n', src, re.S)
    return (m.group(0) if m else '')[:1500]


class LazySessions:
    def __init__(self, specs):
        self.specs, self.built = specs, {}

    def __getitem__(self, i):
        if i not in self.built:
            self.built[i] = build_session(self.specs[i])
        return self.built[i]


def child_main(job_path, out_path):
    job = json.load(open(job_path))
    child_setup()
    sessions = LazySessions(job['sessions'])  # a session exists from the first message that arrives on it
    encs = Encoders()
    mode = job['mode']
    out = {'mode': mode}
    if mode == 'seq':
        # one long-running process: nothing is ever reset
        res = []
        for seq in job['sequences']:
            held, obs_list = [], []
            for m in seq['messages']:
                o, h = observe(encs, sessions, m, m.get('entry', 'reactor'))
                obs_list.append(o)
                held.append(h)
            late = [rerender(encs, sessions, m, h) for m, h in zip(seq['messages'], held)]
            res.append({'id': seq['id'], 'obs': obs_list, 'late': late})
        out['sequences'] = res
        out['digest'] = state_digest()
    elif mode == 'cleared':
        res = []
        for m in job['messages']:
            reset_state()
            o, _ = observe(encs, sessions, m, m.get('entry', 'reactor'))
            res.append(o)
        out['obs'] = res
        out['reflect'] = reflect()
        out['unpack_source'] = unpack_key_shape()
    elif mode == 'fresh':
        # a brand-new interpreter: the listed messages, in order, nothing reset (1 message = the fresh baseline,
        # 2 messages = a witness replayed)
        res = []
        for m in job['messages']:
            o, _ = observe(encs, sessions, m, m.get('entry', 'reactor'))
            res.append(o)
        out['obs'] = res
    elif mode == 'pairs':
        # shrinking: for each (j, i) decode j then i from the import-time state
        res = []
        for pair in job['pairs']:
            reset_state()
            last = None
            for m in pair:
                last, _ = observe(encs, sessions, m, m.get('entry', 'reactor'))
            res.append(last)
        out['obs'] = res
    elif mode == 'keep':
        # shrinking of the shared-object clause: decode a, render; decode b; render a again
        res = []
        for a, b in job['pairs']:
            reset_state()
            oa, ha = observe(encs, sessions, a, a.get('entry', 'reactor'))
            observe(encs, sessions, b, b.get('entry', 'reactor'))
            res.append([oa.get('render'), rerender(encs, sessions, a, ha)])
        out['obs'] = res
    elif mode == 'gen':
        out['bodies'] = conf_bodies(job['repo'], sessions, job.get('limit', 400))
    json.dump(out, open(out_path, 'w'))


def conf_bodies(repo, sessions, limit):
    """UPDATE bodies of the routes of etc/exabgp/*.conf, packed by the project's own encoder for s0/s1/s2"""
    from harness import c15
    from exabgp.bgp.message.update.collection import UpdateCollection, RoutedNLRI
    from exabgp.configuration.check import _negotiated

    paths = sorted(glob.glob(os.path.join(repo, 'etc', 'exabgp', '*.conf')))
    entries, skipped = c15.load_conf_routes(paths)
    out = []
    seen = set()
    for path, name, neighbor, routes in entries:
        try:
            _, neg_out = _negotiated(neighbor)
        except Exception:
            continue
        for variant, (asn4, ) in enumerate([(True,), (False,)]):
            neg_out.asn4 = asn4
            for route in routes[:12]:
                try:
                    for pack in UpdateCollection([RoutedNLRI(route.nlri, route.nexthop)], [], route.attributes).messages(neg_out):
                        body = bytes(pack[19:])
                        if body.hex() not in seen and len(body) < 600:
                            seen.add(body.hex())
                            out.append({'hex': body.hex(), 'conf': os.path.basename(path), 'asn4': asn4,
                                        'family': str(route.nlri.family())})
                except Exception:
                    continue
    rnd = random.Random(19)
    rnd.shuffle(out)
    # keep a spread over configuration files
    by_conf = collections.defaultdict(list)
    for b in out:
        by_conf[b['conf']].append(b)
    picked = []
    while len(picked) < limit and any(by_conf.values()):
        for conf in sorted(by_conf):
            if by_conf[conf]:
                picked.append(by_conf[conf].pop())
    return picked[:limit]


# =============================================================================== parent side (no exabgp import)


def run_child(job, tag, timeout=900):
    from harness import common

    wd = common.work_dir()
    jp, op = os.path.join(wd, f'{tag}.job.json'), os.path.join(wd, f'{tag}.out.json')
    json.dump(job, open(jp, 'w'))
    env = dict(os.environ)
    p = subprocess.run([PY, '-m', 'harness.c19', 'child', jp, op], cwd=common.VERIF, env=env, timeout=timeout,
                       stdout=subprocess.PIPE, stderr=subprocess.STDOUT, text=True)
    if p.returncode != 0 or not os.path.exists(op):
        return None, p.stdout[-3000:]
    return json.load(open(op)), p.stdout[-500:]


def run_children(jobs, tag, workers=12, timeout=900):
    with concurrent.futures.ThreadPoolExecutor(max_workers=workers) as ex:
        return list(ex.map(lambda ij: run_child(ij[1], f'{tag}{ij[0]}', timeout), enumerate(jobs)))


# ------------------------------------------------------------------------------- wire builders (RFC, no exabgp)


def tlv(flag, code, value, ext=False):
    if ext or len(value) > 255:
        return bytes([flag | 0x10, code]) + struct.pack('!H', len(value)) + value
    return bytes([flag & 0xEF, code, len(value)]) + value


def upd(attrs=b'', nlri=b'', wd=b''):
    return struct.pack('!H', len(wd)) + wd + struct.pack('!H', len(attrs)) + attrs + nlri


def open_body(asn, caps, hold=180, rid=bytes([9, 9, 9, 9]), one_param=False):
    capb = [bytes([c, len(v)]) + v for c, v in caps]
    if one_param:
        blob = b''.join(capb)
        params = bytes([2, len(blob)]) + blob if blob and len(blob) < 256 else b''.join(bytes([2, len(c)]) + c for c in capb)
    else:
        params = b''.join(bytes([2, len(c)]) + c for c in capb)
    params = params[:255]
    return bytes([4]) + struct.pack('!H', asn) + struct.pack('!H', hold) + rid + bytes([len(params)]) + params


ORIGIN = tlv(0x40, 1, b'\x00')
NH = tlv(0x40, 3, bytes([192, 0, 2, 1]))
# the same bytes mean different things under asn4 on / off
ASPATHS = ['020100010002', '0202fde8fde9', '0201fde8', '02010000fde8', '020200010002' + '00030004', '', '0301fde80201fde9',
           '0102fde8fde90201fdea', '04010001fde8', '0203fde8fde9fdea']
AGGREGATORS = ['fde80a000001', '0000fde80a000001', '00010002c0000201', 'fde8']
AIGP = '01000b' + '000000000000000a'
FOUR = ['00000064', 'c0000201', '0a000001', 'ffffff01']


def attr_vocabulary(rng):
    """a few attribute blocks that collide on purpose"""
    blocks = []
    ap = bytes.fromhex(rng.choice(ASPATHS))
    base = [ORIGIN, tlv(0x40, 2, ap), NH]
    kind = rng.randrange(12)
    extra = []
    if kind == 0:
        extra = [tlv(0xC0, 7, bytes.fromhex(rng.choice(AGGREGATORS)))]
    elif kind == 1:
        extra = [tlv(0x80, 26, bytes.fromhex(AIGP))]
    elif kind == 2:
        extra = [tlv(0xC0, 17, bytes.fromhex(rng.choice(['020100010002', '02020001000200030004', '0201fde8'])))]
    elif kind == 3:
        extra = [tlv(0xC0, 7, bytes.fromhex('5ba00a000001')), tlv(0xC0, 18, bytes.fromhex('000100020a000001'))]
    elif kind == 4:
        four = bytes.fromhex(rng.choice(FOUR))
        code, flag = rng.choice([(4, 0x80), (5, 0x40), (9, 0x80), (8, 0xC0), (10, 0x80), (99, 0xC0), (98, 0x80)])
        extra = [tlv(flag, code, four)]
    elif kind == 5:
        extra = [tlv(0xC0, 8, bytes.fromhex('fde80001' + 'ffffff01')), tlv(0xC0, 32, bytes(range(12))), tlv(0xC0, 16, bytes.fromhex('0002fde800000001'))]
    elif kind == 6:
        extra = [tlv(0x80, 4, bytes.fromhex('000064'))]  # malformed MED
    elif kind == 7:
        extra = [tlv(0xC0, 99, bytes(rng.randrange(256) for _ in range(rng.randrange(0, 6))))]
    elif kind == 8:
        extra = [tlv(0x40, 5, (100).to_bytes(4, 'big')), tlv(0x40, 6, b'')]
    elif kind == 9:
        extra = [tlv(0x80, 9, bytes([1, 1, 1, 1])), tlv(0x80, 10, bytes([2, 2, 2, 2, 3, 3, 3, 3]))]
    elif kind == 10:
        base = [tlv(0x80, 98, b'\x01\x02')]  # only an unknown non-transitive attribute: decodes to nothing
    attrs = base + extra
    rng.shuffle(extra)
    blocks.append(b''.join(attrs))
    # near-identical variants: extended length bit, partial bit, another code for the same value bytes
    a0 = list(attrs)
    if extra:
        i = len(base) + rng.randrange(len(extra))
        t = a0[i]
        flag, code = t[0], t[1]
        val = t[4:] if flag & 0x10 else t[3:]
        a1 = list(a0)
        a1[i] = tlv(flag, code, val, ext=not (flag & 0x10))
        blocks.append(b''.join(a1))
        a2 = list(a0)
        a2[i] = tlv(flag ^ 0x20, code, val)
        blocks.append(b''.join(a2))
        a3 = list(a0)
        a3[i] = tlv(flag, rng.choice([4, 5, 7, 8, 9, 18, 26, 99]), val)
        blocks.append(b''.join(a3))
    else:
        blocks.append(b''.join([ORIGIN, tlv(0x50, 2, ap, ext=True), NH]))
    blocks.append(b''.join([ORIGIN, tlv(0x40, 2, bytes.fromhex(rng.choice(ASPATHS))), NH] + extra))
    return blocks


PLAIN_NLRIS = ['180a0001', '10ac10', '200a000001', '080a', '00', '19c0000280', '0f0a00']
NLRIS = ['180a0001', '00000001180a0001', '00000001' + '180a0001' + '00000002' + '10ac10', '080a', '200a000001', '00', '0000000100',
         '180a0001' + '10ac10', '19c0000280']


def mp_reach6(pfx='402001 0db8 0000 0001', pathid=None):
    n = bytes.fromhex(pfx.replace(' ', ''))
    if pathid is not None:
        n = struct.pack('!L', pathid) + n
    nh = bytes.fromhex('20010db8000000000000000000000001')
    return tlv(0x80, 14, struct.pack('!HBB', 2, 1, len(nh)) + nh + b'\0' + n)


def mp_unreach6(pathid=None):
    n = bytes.fromhex('40 2001 0db8 0000 0001'.replace(' ', ''))
    if pathid is not None:
        n = struct.pack('!L', pathid) + n
    return tlv(0x80, 15, struct.pack('!HB', 2, 1) + n)


def mp_reach_ext_nh():
    """ipv4 unicast NLRI with an ipv6 next hop (RFC 8950)"""
    nh = bytes.fromhex('20010db8000000000000000000000001')
    return tlv(0x80, 14, struct.pack('!HBB', 1, 1, len(nh)) + nh + b'\0' + bytes.fromhex('180a0001'))


def mp_reach_vpn4(pathid=None):
    n = bytes([24 + 64 + 24]) + bytes.fromhex('000641') + bytes.fromhex('0000fde800000001') + bytes([10, 0, 1])
    if pathid is not None:
        n = struct.pack('!L', pathid) + n
    nh = bytes(8) + bytes([192, 0, 2, 1])
    return tlv(0x80, 14, struct.pack('!HBB', 1, 128, len(nh)) + nh + b'\0' + n)


OPEN_CAPS = [
    (1, bytes([0, 1, 0, 1])), (1, bytes([0, 2, 0, 1])), (1, bytes([0, 1, 0, 128])), (65, (65001).to_bytes(4, 'big')),
    (65, (4200000001).to_bytes(4, 'big')), (2, b''), (128, b''), (70, b''), (69, bytes([0, 1, 1, 3])), (69, bytes([0, 2, 1, 1])),
    (5, bytes([0, 1, 0, 1, 0, 2])), (64, bytes([0x80, 120, 0, 1, 1, 0x80])), (68, b'\x00\x01'), (131, b'\x00\x01'), (6, b''),
    (73, b'\x02r1\x03lab'), (75, b'\x05exa-1'), (99, b'\x01\x02'), (200, b''), (185, b''), (77, b''), (76, bytes([0, 1, 1, 0, 5])),
]


EOR_BODIES = ['00000000', '00000007900f0003000201', '00000007900f0003000180']


SHAPES = ['ann', 'ann', 'ann', 'ann', 'wd+attrs', 'wd', 'attrs', 'reach', 'reach', 'unreach', 'unreach', 'unreach-first', 'both',
          'unreach-only', 'ann+unreach', 'wd+unreach', 'ann+reach', 'trunc']
V6_PREFIXES = ['40 2001 0db8 0000 0001', '40 2001 0db8 0000 0002', '30 2001 0db8 00aa', '20 2001 0db8']


def v4_nlri(rng, nlris, ap):
    """mostly well-formed for the session (path id present iff ADD-PATH was negotiated for ipv4 unicast); sometimes the
    very same NLRI bytes whatever the session"""
    if rng.random() < 0.2:
        return bytes.fromhex(rng.choice(nlris))
    out = b''
    for _ in range(rng.choice([1, 1, 1, 2, 3])):
        plain = bytes.fromhex(rng.choice(PLAIN_NLRIS))
        out += (struct.pack('!L', rng.choice([1, 2, 7])) + plain) if ap else plain
    return out


def mp_parts(rng, ap6):
    """(MP_REACH attribute, MP_UNREACH attribute) for this session kind"""
    pid = (rng.choice([1, 7]) if ap6 else None) if rng.random() < 0.85 else (None if ap6 else 7)
    r = rng.random()
    if r < 0.6:
        reach = mp_reach6(rng.choice(V6_PREFIXES), pathid=pid)
    elif r < 0.8:
        reach = mp_reach_vpn4(pathid=pid)
    else:
        reach = mp_reach_ext_nh()
    n = b''
    for _ in range(rng.choice([1, 1, 2])):
        one = bytes.fromhex(rng.choice(V6_PREFIXES).replace(' ', ''))
        n += (struct.pack('!L', pid) + one) if pid is not None else one
    unreach = tlv(0x80, 15, struct.pack('!HB', 2, 1) + n)
    return reach, unreach


def assemble(parts):
    return upd(bytes.fromhex(parts['attrs']), bytes.fromhex(parts['nlri']), bytes.fromhex(parts['wd']))


def make_update(rng, block, shape, nlris, ap4, ap6):
    """-> message dict with its parts (so that a repetition can keep the attribute bytes and change the NLRI)"""
    reach, unreach = mp_parts(rng, ap6)
    attrs, nlri, wd = block, b'', b''
    if shape == 'ann':
        nlri = v4_nlri(rng, nlris, ap4)
    elif shape == 'wd+attrs':
        wd = v4_nlri(rng, nlris, ap4)
    elif shape == 'wd':
        attrs, wd = b'', v4_nlri(rng, nlris, ap4)
    elif shape == 'attrs':
        pass
    elif shape == 'reach':
        attrs = block + reach
    elif shape == 'unreach':
        attrs = block + unreach
    elif shape == 'unreach-first':
        attrs = unreach + block
    elif shape == 'both':
        attrs = block + unreach + reach
    elif shape == 'unreach-only':
        attrs = unreach
    elif shape == 'ann+unreach':
        attrs, nlri = block + unreach, v4_nlri(rng, nlris, ap4)
    elif shape == 'wd+unreach':
        attrs, wd = block + unreach, v4_nlri(rng, nlris, ap4)
    elif shape == 'ann+reach':
        attrs, nlri = block + reach, v4_nlri(rng, nlris, ap4)
    elif shape == 'trunc':
        cut = rng.randrange(1, max(2, len(block)))
        attrs, nlri = block[:cut], v4_nlri(rng, nlris, ap4)
    parts = {'attrs': attrs.hex(), 'nlri': nlri.hex(), 'wd': wd.hex()}
    return {'t': 2, 'hex': assemble(parts).hex(), 'block': block.hex(), 'parts': parts, 'shape': shape}


def gen_message(rng, vocab, nlris, conf_pool, prev_block, ap=False, ap6=False):
    """-> message dict (session chosen by the caller)"""
    x = rng.random()
    if x < 0.74:
        y = rng.random()
        if prev_block is not None and y < 0.30:
            block = prev_block  # the very same attribute bytes again (on whatever session comes next)
        elif y < 0.85:
            block = rng.choice(vocab)
        else:
            block = b''.join([ORIGIN, tlv(0x40, 2, bytes.fromhex(rng.choice(ASPATHS))), NH])
        return make_update(rng, block, rng.choice(SHAPES), nlris, ap, ap6)
    if x < 0.80 and conf_pool:
        b = rng.choice(conf_pool)
        return {'t': 2, 'hex': b['hex'], 'block': None, 'conf': b['conf'], 'shape': 'conf'}
    if x < 0.83:
        return {'t': 2, 'hex': rng.choice(EOR_BODIES + ['0000']), 'block': None, 'shape': 'eor'}
    if x < 0.91:
        caps = rng.sample(OPEN_CAPS, rng.randrange(0, 7))
        body = open_body(rng.choice([65001, 23456, 64512]), caps, hold=rng.choice([0, 3, 90, 180]), one_param=rng.random() < 0.3)
        if rng.random() < 0.1:
            body = body[: rng.randrange(5, len(body) + 1)]
        return {'t': 1, 'hex': body.hex(), 'block': None}
    if x < 0.95:
        data = rng.choice([b'', b'\x03abc', b'\x05hello', bytes([0xff, 0xfe]), b'\x02\xc3\xa9', bytes(rng.randrange(256) for _ in range(4))])
        body = bytes([rng.choice([1, 2, 3, 4, 5, 6, 7]), rng.choice([0, 1, 2, 3, 4, 6, 7, 9])]) + data
        return {'t': 3, 'hex': body.hex(), 'block': None}
    if x < 0.985:
        body = struct.pack('!HBB', rng.choice([1, 2, 25, 16388]), rng.choice([0, 1, 2, 255]), rng.choice([1, 2, 128, 133, 70]))
        return {'t': 5, 'hex': body.hex(), 'block': None}
    return {'t': 4, 'hex': '', 'block': None}


def sess_ap(s):
    spec = SESSIONS[s]
    return (spec['addpath'] == 'all' or [1, 1] in spec['addpath']), spec['addpath'] == 'all'


def repetitions(rng, m, nlris, vocab, sess_pool):
    """immediate repetitions and near-repetitions of an UPDATE: the shortcut of AttributeCollection.unpack only fires
    on consecutive identical attribute bytes"""
    out = []
    kind = rng.choice(['same', 'same', 'same3', 'nlri', 'nlri', 'other-session', 'near', 'same-then-nlri'])
    ap4, ap6 = sess_ap(m['s'])

    def clone(**kw):
        c = {k: (dict(v) if isinstance(v, dict) else v) for k, v in m.items()}
        c.update(kw)
        return c

    def renlri():
        if 'parts' not in m:
            return clone()
        p = dict(m['parts'])
        if p['nlri'] or not p['wd']:
            p['nlri'] = v4_nlri(rng, nlris, ap4).hex() if (p['nlri'] or rng.random() < 0.5) else ''
        if p['wd']:
            p['wd'] = v4_nlri(rng, nlris, ap4).hex()
        return clone(parts=p, hex=assemble(p).hex())

    if kind == 'same':
        out = [clone()]
    elif kind == 'same3':
        out = [clone(), clone()]
    elif kind == 'nlri':
        out = [renlri()]
    elif kind == 'same-then-nlri':
        out = [clone(), renlri()]
    elif kind == 'other-session':
        out = [clone(s=rng.choice(sess_pool))]
    elif kind == 'near' and m.get('block') and 'parts' in m:
        near = make_update(rng, rng.choice(vocab), m['shape'], nlris, ap4, ap6)
        near['s'] = m['s']
        out = [near, clone()]
    return out


def gen_sequence(rng, sid, length, conf_pool):
    vocab = attr_vocabulary(rng)
    if rng.random() < 0.5:
        vocab += attr_vocabulary(rng)[:2]
    nlris = rng.sample(NLRIS, 3)
    msgs, prev = [], None
    sess_pool = rng.sample(range(len(SESSIONS)), rng.choice([2, 3, 4, 4, 5]))
    while len(msgs) < length:
        sess = rng.choice(sess_pool)
        ap4, ap6 = sess_ap(sess)
        m = gen_message(rng, vocab, nlris, conf_pool, prev, ap=ap4, ap6=ap6)
        m['s'] = sess
        if m['t'] == 2 and m.get('block'):
            prev = bytes.fromhex(m['block'])
        if m['t'] == 2 and m['hex'] in EOR_BODIES and rng.random() < 0.5:
            m['entry'] = 'check'  # configuration/check.py + decode CLI entry point: EOR singletons
        msgs.append(m)
        if m['t'] == 2 and m.get('entry') != 'check' and rng.random() < 0.45:
            msgs += repetitions(rng, m, nlris, vocab, sess_pool)
    return {'id': sid, 'messages': msgs[:length]}


def shape_sequences():
    """EVERY update shape, repeated immediately on the same session (twice, thrice), with other NLRI bytes under the
    same attribute bytes, and on another session"""
    rng = random.Random(1919)
    seqs = []
    blocks = [ORIGIN + tlv(0x40, 2, b'') + NH + tlv(0x80, 4, (100).to_bytes(4, 'big')),
              ORIGIN + tlv(0x40, 2, bytes.fromhex('020100010002')) + NH + tlv(0xC0, 8, bytes.fromhex('fde80001'))]
    for shape in sorted(set(SHAPES)):
        for s in (0, 2, 3):
            ap4, ap6 = sess_ap(s)
            for blk in blocks:
                x = make_update(rng, blk, shape, NLRIS[:3], ap4, ap6)
                x['s'] = s
                p = dict(x['parts'])
                if p['nlri']:
                    p['nlri'] = v4_nlri(rng, NLRIS[:3], ap4).hex()
                if p['wd']:
                    p['wd'] = v4_nlri(rng, NLRIS[:3], ap4).hex()
                if not p['nlri'] and not p['wd']:
                    p['nlri'] = v4_nlri(rng, NLRIS[:3], ap4).hex()
                y = dict(x, parts=p, hex=assemble(p).hex())
                seqs.append([dict(x), dict(x), dict(x)])
                seqs.append([dict(x), y, dict(x)])
                seqs.append([dict(x), dict(x, s=4 if s != 4 else 0), dict(x)])
    return seqs


def directed_sequences():
    """the shapes named in the property text, spelled out"""
    seqs = []

    def U(s, block, nlri='180a0001'):
        return {'s': s, 't': 2, 'hex': upd(block, bytes.fromhex(nlri)).hex(), 'block': block.hex()}

    for ap in ASPATHS:
        blk = ORIGIN + tlv(0x40, 2, bytes.fromhex(ap)) + NH
        for a, b in ((0, 1), (1, 0), (2, 3), (0, 2)):
            seqs.append([U(a, blk), U(b, blk)])
    for ag in AGGREGATORS:
        blk = ORIGIN + tlv(0x40, 2, b'') + NH + tlv(0xC0, 7, bytes.fromhex(ag))
        seqs.append([U(0, blk), U(1, blk)])
        seqs.append([U(1, blk), U(0, blk)])
    blk = ORIGIN + tlv(0x40, 2, b'') + NH + tlv(0x80, 26, bytes.fromhex(AIGP))
    seqs.append([U(0, blk), U(4, blk)])
    seqs.append([U(4, blk), U(0, blk)])
    blk = ORIGIN + tlv(0x40, 2, bytes.fromhex('0201fde8')) + NH
    seqs.append([U(0, blk, '00000001180a0001'), U(2, blk, '00000001180a0001'), U(3, blk, '00000001180a0001')])
    seqs.append([U(2, blk, '00000001180a0001'), U(0, blk, '00000001180a0001')])
    # OPENs: the two route-refresh codes, the two multisession codes
    for c1, c2 in ((128, 2), (2, 128), (131, 68), (68, 131)):
        v = b'' if c1 in (2, 128) else b'\x00\x01'
        seqs.append([{'s': 0, 't': 1, 'hex': open_body(65001, [(1, bytes([0, 1, 0, 1])), (c1, v)]).hex(), 'block': None},
                     {'s': 1, 't': 1, 'hex': open_body(65002, [(1, bytes([0, 1, 0, 1])), (c2, v)]).hex(), 'block': None}])
    seqs.append([{'s': 0, 't': 1, 'hex': open_body(65001, [(2, b''), (128, b'')]).hex(), 'block': None},
                 {'s': 0, 't': 1, 'hex': open_body(65001, [(128, b''), (2, b'')]).hex(), 'block': None}])
    # EOR singletons of the check/decode entry point
    for h in ('00000000', '00000007900f0003000201'):
        seqs.append([{'s': 0, 't': 2, 'hex': h, 'block': None, 'entry': 'check'}, {'s': 2, 't': 2, 'hex': h, 'block': None, 'entry': 'check'},
                     {'s': 0, 't': 2, 'hex': h, 'block': None}])
    return seqs + shape_sequences()


# ------------------------------------------------------------------------------- comparison


def msg_key(m):
    return (m['s'], m['t'], m['hex'], m.get('entry', 'reactor'))


def strip(o):
    """the observable part of an observation (the unpack log is instrumentation)"""
    return None if o is None else {'outcome': o.get('outcome'), 'render': o.get('render')}


def diff_paths(a, b, path=''):
    """paths at which two JSON-able observations differ (short list)"""
    if type(a) != type(b):
        return [path or '/']
    if isinstance(a, dict):
        out = []
        for k in sorted(set(a) | set(b)):
            if k not in a or k not in b:
                out.append(f'{path}/{k}')
            else:
                out += diff_paths(a[k], b[k], f'{path}/{k}')
        return out
    if isinstance(a, list):
        if len(a) != len(b):
            return [path or '/']
        out = []
        for i, (x, y) in enumerate(zip(a, b)):
            out += diff_paths(x, y, f'{path}/{i}')
        return out
    return [] if a == b else [path or '/']


def attr_codes_differing(a, b):
    """attribute codes whose decoded value differs between two UPDATE observations"""
    try:
        da = {x[0]: x for x in a['render']['attrs']}
        db = {x[0]: x for x in b['render']['attrs']}
    except Exception:
        return []
    return sorted(k for k in set(da) | set(db) if da.get(k) != db.get(k))


def describe_msg(m):
    s = SESSIONS[m['s']]
    sess = {k: s[k] for k in ('name', 'asn4', 'aigp', 'addpath', 'nexthop', 'families')}
    return {'session': sess, 'type': {1: 'OPEN', 2: 'UPDATE', 3: 'NOTIFICATION', 4: 'KEEPALIVE', 5: 'ROUTE-REFRESH'}[m['t']],
            'body_hex': m['hex'], 'entry': m.get('entry', 'reactor')}


# ------------------------------------------------------------------------------- model


HEADER = """From Coq Require Import ZArith Bool List.
From ExaV Require Import model.Model_Cache.
Import ListNotations. Open Scope Z_scope.
"""


def check(tier, seed):
    from harness import common
    from harness.common import Run

    run = Run(PID, tier, seed)
    run.trusted = [
        'Coq 8.16.1 kernel (coqc), vm_compute for case evaluation; no native_compute',
        'harness/c19.py: message generators (own RFC encoders), the observation function (what of a decoded message is '
        'compared: routes, attribute values, str/json/index of the collection, API lines of the 4 encoders with time/'
        'counter/pid/ppid/host masked), the reset of process-wide state used for the bulk baseline (validated against '
        'brand-new interpreters on a sample), the logging wrapper around AttributeCollection.unpack, the numbering of '
        'decoded values for the model',
        'modelled, not verified: AttributeCollection.unpack / Attribute.unpack caching, Capability.klass (hand model '
        'Model_Cache); every decoder proper is a universally quantified function of the model',
    ]
    run.assumptions = [
        'the JSON counter, time, pid, ppid and host fields of API lines are not part of "API output" (masked)',
        'sessions are given as already negotiated parameter sets (C07 covers negotiation); '
        'exabgp.cache.attributes at its default (true)',
    ]
    common.standard_build(run, [])
    rng = random.Random(seed)
    t0 = time.time()

    # ---- generation
    gen_out, log = run_child({'mode': 'gen', 'sessions': SESSIONS, 'repo': common.REPO, 'limit': 300 if tier == 'quick' else 1500}, 'gen')
    conf_pool = (gen_out or {}).get('bodies', [])
    run.obligation('route-derived UPDATE bodies built from etc/exabgp/*.conf by the project encoder', bool(conf_pool), log)
    nseq, length = (150, 30) if tier == 'quick' else (7500, 30)
    sequences = []
    for d in directed_sequences():
        sequences.append({'id': len(sequences), 'messages': d, 'directed': True})
    n_directed = len(sequences)
    for _ in range(nseq):
        sequences.append(gen_sequence(rng, len(sequences), length, conf_pool))
    workers = 12
    # directed sequences each start from a fresh process state?  No: they are spread over the long-running chunks too,
    # but placed FIRST in their chunk and each chunk is one process.
    chunks = [[] for _ in range(workers if tier == 'quick' else 48)]
    for i, s in enumerate(sequences):
        chunks[i % len(chunks)].append(s)
    distinct = {}
    for s in sequences:
        for m in s['messages']:
            distinct.setdefault(msg_key(m), m)
    dkeys = list(distinct)

    run.notes.append(f'generation done at {round(time.time() - t0, 1)}s')
    # ---- the three runs
    seq_jobs = [{'mode': 'seq', 'sessions': SESSIONS, 'sequences': ch} for ch in chunks]
    seq_res = run_children(seq_jobs, 'seq', workers)
    ok = all(r is not None for r, _ in seq_res)
    run.obligation('in-sequence decoding ran (one long-running interpreter per chunk, nothing reset)', ok,
                   '\n'.join(l for r, l in seq_res if r is None)[-2000:])
    run.notes.append(f'seq done at {round(time.time() - t0, 1)}s')
    parts = []
    per = max(1, (len(dkeys) + workers - 1) // workers)
    for si in range(len(SESSIONS)):
        parts += common.chunked([k for k in dkeys if k[0] == si], per)
    clr_jobs = [{'mode': 'cleared', 'sessions': SESSIONS, 'messages': [distinct[k] for k in part]} for part in parts]
    clr_res = run_children(clr_jobs, 'clr', workers)
    ok2 = all(r is not None for r, _ in clr_res)
    run.obligation('baseline decoding ran (each distinct message alone after a reset of the process-wide state)', ok2,
                   '\n'.join(l for r, l in clr_res if r is None)[-2000:])
    if not (ok and ok2):
        return run.finish(checker_cmd='./check C19')
    cleared = {}
    for part, (r, _) in zip(parts, clr_res):
        for k, o in zip(part, r['obs']):
            cleared[k] = o
    reflect_info = clr_res[0][0]['reflect']
    unpack_source = clr_res[0][0]['unpack_source']

    run.notes.append(f'cleared done at {round(time.time() - t0, 1)}s')
    # fresh sample: brand-new interpreter per message
    n_fresh = 48 if tier == 'quick' else 600
    interesting = [k for k in dkeys if k[1] in (1, 2)]
    sample = rng.sample(interesting, min(n_fresh, len(interesting)))
    fr_res = run_children([{'mode': 'fresh', 'sessions': SESSIONS, 'messages': [distinct[k]]} for k in sample], 'fr', 14)
    fresh_bad = []
    for k, (r, l) in zip(sample, fr_res):
        if r is None:
            fresh_bad.append((k, 'child failed ' + l[-300:]))
        elif r['obs'][0] != cleared[k]:
            fresh_bad.append((k, diff_paths(r['obs'][0], cleared[k])[:6]))
    run.obligation(f'the reset baseline equals a brand-new interpreter on a sample of {len(sample)} messages '
                   '(no process-wide state escaped the reading)', not fresh_bad, str(fresh_bad[:2])[:1500])

    run.notes.append(f'runs done at {round(time.time() - t0, 1)}s')
    # ---- property oracle
    viol = []  # (kind, chunk index, seq position in chunk, message index, details)
    total_msgs = 0
    hits = collections.Counter()
    for ci, (r, _) in enumerate(seq_res):
        for si, (seq, res) in enumerate(zip(chunks[ci], r['sequences'])):
            for mi, (m, o, late) in enumerate(zip(seq['messages'], res['obs'], res['late'])):
                total_msgs += 1
                base = cleared[msg_key(m)]
                hits[o['outcome']] += 1
                if strip(o) != strip(base):
                    viol.append(('decode', ci, si, mi, diff_paths(strip(o), strip(base))[:8]))
                if late is not None and late != o.get('render'):
                    viol.append(('kept', ci, si, mi, diff_paths(late, o.get('render'))[:8]))
    run.obligation(f'property oracle: each of {total_msgs} messages decoded in sequence yields the routes, attributes and API '
                   f'lines it yields alone; kept objects render unchanged at the end of their sequence',
                   not viol, f'{len(viol)} failing; first: {viol[0] if viol else ""}')

    # ---- correspondence with the model
    vids, eids = {}, {}

    def vid(item):
        return vids.setdefault(json.dumps(item), len(vids) + 1)

    def eid(text):
        return eids.setdefault(text, len(eids) + 1)

    def flat(items, drop_mp=False):
        out = []
        for it in items:
            if drop_mp and it[0] in (14, 15):
                continue
            out += [it[0], vid(it)]
        return out

    corr_bad, model_logs = [], []
    shard_defs, shard_meta = [], []
    for ci, (r, _) in enumerate(seq_res):
        events, impl_obs, where = [], [], []
        table = {}
        for si, (seq, res) in enumerate(zip(chunks[ci], r['sequences'])):
            for mi, (m, o) in enumerate(zip(seq['messages'], res['obs'])):
                if m['t'] != 2 or m.get('entry') == 'check':
                    continue
                base = cleared[msg_key(m)]
                if not base['unpack'] or not o['unpack']:
                    continue
                first = base['unpack'][0]
                a = first['hex']
                if a != o['unpack'][0]['hex']:
                    corr_bad.append((ci, si, mi, 'attribute block handed to unpack differs'))
                    continue
                table[(m['s'], a)] = ('exc', eid(first['exc'])) if 'exc' in first else ('items', [(it[0], vid(it)) for it in first['items']])
                empty = 0
                if base['outcome'] in ('update', 'eor') and isinstance(base['render'], dict):
                    empty = 1 if (base['outcome'] == 'eor' or (not base['render'].get('announce') and not base['render'].get('withdraw'))) else 0
                events.append((m['s'], empty, a))
                # what the implementation handed out, in the model's vocabulary
                u = o['unpack']
                if 'exc' in u[0]:
                    got = [-1 - eid(u[0]['exc'])]
                elif len(u) > 1:
                    got = [-1 - eid(u[1]['exc'])] if 'exc' in u[1] else flat(u[0]['items']) + [-3] + flat(u[1]['items'])
                elif o['outcome'] == 'update':
                    got = flat(u[0]['items']) + [-7] + flat(o['render']['attrs'])
                else:
                    got = flat(u[0]['items']) + [-7] + flat(u[0]['items'], drop_mp=True)
                impl_obs.append(got)
                where.append((si, mi))
        if not events:
            continue
        names = {}
        for (s, a) in list(table) + [(s, a) for s, e, a in events]:
            names.setdefault(a, f'b{len(names)}')
        bdefs = ''.join(f'Definition {nm} : bytes := {common.zbytes(bytes.fromhex(a))}.\n' for a, nm in names.items())
        tdef = '[' + ';\n'.join(
            f'(({s}, {names[a]}), ' + (f'inl {v[1]}' if v[0] == 'exc' else 'inr [' + ';'.join(f'({c},{i})' for c, i in v[1]) + ']') + ')'
            for (s, a), v in table.items()) + ']'
        edef = '[' + ';\n'.join(
            f'(mkP {"true" if SESSIONS[s]["asn4"] else "false"} {"true" if SESSIONS[s]["aigp"] else "false"} [{s}], {e} :: {names[a]})'
            for s, e, a in events) + ']'
        shard_defs.append(f'{bdefs}Definition T : table := {tdef}.\nDefinition EV : list (params * bytes) := {edef}.\n'
                          'Eval vm_compute in (trace_pinned T EV).\nEval vm_compute in (trace_fixed T EV).\n')
        shard_meta.append((ci, impl_obs, where))
    res = common.eval_cases(HEADER, lambda d: d, shard_defs, 'c19m', timeout=900)
    model_ok = True
    agree_pinned = agree_fixed = True
    first_dis = {}
    n_events = 0
    stale_predicted = 0
    for (ci, impl_obs, where), (rc, text, parsed) in zip(shard_meta, res):
        if rc != 0 or len(parsed) != 2:
            model_ok = False
            model_logs.append(text[-1200:])
            continue
        traces = []
        for body in parsed:
            lists = re.findall(r'\[([^\[\]]*)\]', body)
            traces.append([[int(x) for x in re.findall(r'-?\d+', l)] for l in lists])
        n_events += len(impl_obs)
        for name, tr in (('pinned', traces[0]), ('fixed', traces[1])):
            if len(tr) != len(impl_obs):
                model_ok = False
                model_logs.append(f'{name}: {len(tr)} results for {len(impl_obs)} events')
                continue
            for idx, (got, want) in enumerate(zip(impl_obs, tr)):
                if got != want:
                    if name == 'pinned':
                        agree_pinned = False
                    else:
                        agree_fixed = False
                    first_dis.setdefault(name, (ci, where[idx], got, want))
        stale_predicted += sum(1 for a, b in zip(traces[0], traces[1]) if a != b)
    run.obligation('model evaluation (vm_compute of Model_Cache.trace_pinned / trace_fixed on every chunk) ran', model_ok,
                   '\n'.join(model_logs)[-2000:])
    which = 'pinned (key = raw bytes)' if agree_pinned else ('repaired (key = asn4, aigp, raw bytes)' if agree_fixed else 'none')
    run.obligation(f'correspondence: the collection handed out for each of {n_events} UPDATEs of the long-running processes = '
                   f'Model_Cache prediction [{which}]', model_ok and (agree_pinned or agree_fixed) and not corr_bad,
                   f'first disagreements: {first_dis} {corr_bad[:2]}'[:1500])
    run.coverage['model_matching_the_tree'] = which
    run.coverage['stale_results_predicted_by_pinned_model'] = stale_predicted

    run.notes.append(f'model done at {round(time.time() - t0, 1)}s')
    # ---- reflection facts the model relies on
    facts_ok = (reflect_info['attribute_base_CACHING'] is False and not reflect_info['attribute_classes_with_two_ids']
                and reflect_info['attr_unpack_guard'])
    run.obligation('registry facts used by the model: Attribute.CACHING is False on the base class every call site uses, the guard '
                   'is `cls.caching and cls.CACHING`, no attribute class is registered under two codes', facts_ok, str(reflect_info))
    dead = all(not (r['digest'].get(f'Attribute.cache[{c}]', 0) > (1 if c == 6 else 3 if c == 1 else 0)) for r, _ in seq_res for c in range(0, 41))
    run.obligation('Attribute.cache received no entry during the long runs (the per-attribute cache is dead, as C19_attr_cache_dead states)',
                   dead, str(seq_res[0][0]['digest'])[:600])

    # ---- failing inputs: shrink to two messages, confirm in brand-new interpreters
    report_violations(run, viol, chunks, cleared, rng)

    run.coverage.update({
        'evaluations': total_msgs,
        'distinct_nontrivial': len([k for k in dkeys if k[1] in (1, 2)]),
        'rule': f'{n_directed} directed two/three-message sequences (every ambiguous AS_PATH / AGGREGATOR / AIGP block under the '
                f'session pairs, ADD-PATH NLRI bytes, the paired capability codes, EOR singletons) + {nseq} random sequences x '
                f'{length} messages over 2-4 of 4 sessions (asn4 on/off, aigp on/off, ADD-PATH none/all/ipv4-unicast only, extended '
                f'next hop, all/3 families), 74% UPDATEs built from a per-sequence vocabulary of colliding attribute blocks (same bytes '
                f'again with p=0.3; extended-length / partial-bit / other-code variants; MP_REACH/MP_UNREACH with and without path id; '
                f'truncations), 6% bodies packed by the project encoder from etc/exabgp/*.conf, OPEN / NOTIFICATION / ROUTE-REFRESH / '
                f'KEEPALIVE / EOR; {len(chunks)} long-running interpreters; non-trivial = distinct (session, UPDATE or OPEN body)',
        'outcomes_in_sequence': dict(hits),
        'update_shapes': dict(collections.Counter(m.get('shape', '-') for sq in sequences for m in sq['messages'] if m['t'] == 2)),
        'immediate_repetitions_same_session_same_attribute_bytes': sum(
            1 for sq in sequences for a, b in zip(sq['messages'], sq['messages'][1:])
            if a['t'] == 2 and b['t'] == 2 and a['s'] == b['s'] and a.get('parts') and b.get('parts') and a['parts']['attrs'] == b['parts']['attrs']),
        'distinct_messages': len(dkeys),
        'route_derived_bodies': len(conf_pool),
        'fresh_interpreter_sample': len(sample),
        'model_events': n_events,
        'state_written_during_runs': seq_res[0][0]['digest'],
        'registry_facts': reflect_info,
        'exhaustive': False,
        'generation_wall_s': round(time.time() - t0, 1),
    })
    s0 = sequences[n_directed]
    run.samples.append({'sequence': [describe_msg(m) for m in s0['messages'][:4]]})
    if run.broken() and not run.failing:
        run.coverage['search'] = (f'{total_msgs} messages in {len(sequences)} sequences compared with their stand-alone decoding; '
                                  'none differed')
    return run.finish(checker_cmd='make -C coq props/Prop_C19.vo && coqc -Q coq ExaV coq/props/Prop_C19.v (Print Assumptions)')


def report_violations(run, viol, chunks, cleared, rng):
    """one failing case per signature, shrunk to a two-message witness replayed in a brand-new interpreter"""
    if not viol:
        return

    def nparams(a, b):
        sa, sb = SESSIONS[a['s']], SESSIONS[b['s']]
        return sum(1 for k in ('asn4', 'aigp', 'addpath', 'nexthop', 'families') if sa[k] != sb[k])

    dec_pairs, keep_pairs = {}, {}
    for kind, ci, si, mi, paths in viol:
        seq_msgs = chunks[ci][si]['messages']
        target = seq_msgs[mi]
        if kind == 'decode':
            prior = []
            for sj in range(si, -1, -1):
                ms = chunks[ci][sj]['messages']
                hi = mi if sj == si else len(ms)
                prior += [ms[j] for j in range(hi - 1, -1, -1)]
                if len(prior) > 60:
                    break
            for p in [p for p in prior if p['t'] == target['t']][:12]:
                dec_pairs.setdefault((msg_key(p), msg_key(target)), (p, target))
        else:
            for x in [x for x in seq_msgs[mi + 1:] if x['t'] == target['t']][:12]:
                keep_pairs.setdefault((msg_key(target), msg_key(x)), (target, x))
    found = False
    # ---- stale decodes
    pairs = sorted(dec_pairs.values(), key=lambda pt: (pt[0]['hex'] != pt[1]['hex'], nparams(*pt), len(pt[1]['hex'])))[:300]
    if pairs:
        parts = [pairs[i::12] for i in range(12) if pairs[i::12]]
        outs = run_children([{'mode': 'pairs', 'sessions': SESSIONS, 'pairs': [[p, t] for p, t in part]} for part in parts], 'shr', 12)
        best = collections.OrderedDict()
        for part, (out, _) in zip(parts, outs):
            if out is None:
                continue
            for (p, t), o in zip(part, out['obs']):
                base = cleared[msg_key(t)]
                if strip(o) == strip(base):
                    continue
                codes = [c for c in attr_codes_differing(o, base) if c < 0xFFF0]
                tname = describe_msg(t)['type']
                # the negotiated parameter the differing attribute's decoder reads (aspath.py, aggregator.py, aigp.py)
                cause = 'asn4' if set(codes) & {2, 7, 17, 18} else 'aigp' if 26 in codes else 'attributes=' + (','.join(map(str, codes)) or '-')
                if not codes and isinstance(o.get('render'), dict) and isinstance(base.get('render'), dict):
                    lost = [k for k in ('announce', 'withdraw') if o['render'].get(k) != base['render'].get(k)]
                    if lost:
                        cause = 'routes:' + ','.join(lost)
                sig = f'stale-decode:{tname}:{cause}'
                rank = (p['hex'] != t['hex'], nparams(p, t), len(t['hex']))
                if sig not in best or rank < best[sig][0]:
                    best[sig] = (rank, p, t)
        items = list(best.items())
        confs = run_children([{'mode': 'fresh', 'sessions': SESSIONS, 'messages': [p, t]} for _, (_, p, t) in items], 'cfm', 12)
        alones = run_children([{'mode': 'fresh', 'sessions': SESSIONS, 'messages': [t]} for _, (_, p, t) in items], 'cfa', 12)
        for (sig, (_, p, t)), (conf, _), (alone, _) in zip(items, confs, alones):
            if not conf or not alone or strip(conf['obs'][1]) == strip(alone['obs'][0]):
                continue
            found = True
            sp, st = SESSIONS[p['s']], SESSIONS[t['s']]
            run.fail_case(sig, f'{describe_msg(t)["type"]} decoded after another message yields something else than alone in a fresh process',
                          {'first': describe_msg(p), 'second': describe_msg(t),
                           'differing_session_parameters': [k for k in ('asn4', 'aigp', 'addpath', 'nexthop', 'families') if sp[k] != st[k]],
                           'second_after_first': strip(conf['obs'][1]), 'second_alone': strip(alone['obs'][0]),
                           'differs_at': diff_paths(strip(conf['obs'][1]), strip(alone['obs'][0]))[:10]})
    # ---- kept objects
    pairs = sorted(keep_pairs.values(), key=lambda pt: len(pt[0]['hex']) + len(pt[1]['hex']))[:200]
    if pairs:
        parts = [pairs[i::12] for i in range(12) if pairs[i::12]]
        outs = run_children([{'mode': 'keep', 'sessions': SESSIONS, 'pairs': [[a, b] for a, b in part]} for part in parts], 'shk', 12)
        best = collections.OrderedDict()
        for part, (out, _) in zip(parts, outs):
            if out is None:
                continue
            for (a, b), (r0, r1) in zip(part, out['obs']):
                if r0 == r1:
                    continue
                tname = describe_msg(a)['type']
                dp = diff_paths(r0, r1)
                what = sorted({p.split('/')[1] for p in dp if p.count('/') >= 1})
                if tname == 'OPEN' and isinstance(r0, dict) and isinstance(r1, dict) and len(r0.get('caps', [])) == len(r1.get('caps', [])):
                    what = sorted({x[1] for x, y in zip(r0['caps'], r1['caps']) if x != y})[:1] or what
                sig = f'kept-object-altered:{tname}:{",".join(what)}'
                rank = len(a['hex']) + len(b['hex'])
                if sig not in best or rank < best[sig][0]:
                    best[sig] = (rank, a, b, r0, r1, dp)
        for sig, (_, a, b, r0, r1, dp) in best.items():
            found = True
            run.fail_case(sig, f'objects of a decoded {describe_msg(a)["type"]} render differently after a later message was decoded',
                          {'kept': describe_msg(a), 'later': describe_msg(b), 'rendered_right_after_decoding': r0,
                           'rendered_after_the_later_message': r1, 'differs_at': dp[:10]})
    if not found:
        kind, ci, si, mi, paths = viol[0]
        m = chunks[ci][si]['messages'][mi]
        run.fail_case(f'{kind}-unshrunk:{describe_msg(m)["type"]}', 'difference seen in a long run, not reproduced by any two-message pair',
                      {'message': describe_msg(m), 'differs_at': paths, 'chunk': ci, 'sequence': chunks[ci][si]['id'], 'index': mi})


def _msg_of(desc):
    names = [x['name'] for x in SESSIONS]
    code = {'OPEN': 1, 'UPDATE': 2, 'NOTIFICATION': 3, 'KEEPALIVE': 4, 'ROUTE-REFRESH': 5}[desc['type']]
    m = {'s': names.index(desc['session']['name']), 't': code, 'hex': desc['body_hex']}
    if desc.get('entry', 'reactor') != 'reactor':
        m['entry'] = desc['entry']
    return m


def replay(path):
    """re-run one stored witness in brand-new interpreters; exit 1 when it still fails"""
    from harness import common

    d = json.load(open(path))
    case = d.get('case', d)
    try:
        if 'second' in case:
            a, b = _msg_of(case['first']), _msg_of(case['second'])
            both, _ = run_child({'mode': 'fresh', 'sessions': SESSIONS, 'messages': [a, b]}, 'rpa')
            alone, _ = run_child({'mode': 'fresh', 'sessions': SESSIONS, 'messages': [b]}, 'rpb')
            bad = both is None or alone is None or strip(both['obs'][1]) != strip(alone['obs'][0])
            where = [] if both is None or alone is None else diff_paths(strip(both['obs'][1]), strip(alone['obs'][0]))[:8]
        elif 'kept' in case:
            a, b = _msg_of(case['kept']), _msg_of(case['later'])
            out, _ = run_child({'mode': 'keep', 'sessions': SESSIONS, 'pairs': [[a, b]]}, 'rpk')
            bad = out is None or out['obs'][0][0] != out['obs'][0][1]
            where = [] if out is None else diff_paths(out['obs'][0][0], out['obs'][0][1])[:8]
        else:
            print(f'[{PID}] replay {path}: not a two-message witness')
            return 2
    finally:
        common.cleanup()
    if bad:
        print(f'VIOLATION property={PID} replay={path} differs_at={where}')
        return 1
    print(f'[{PID}] replay {path}: passes (the second message decodes as it does alone / the kept object is unchanged)')
    return 0


if __name__ == '__main__':
    if len(sys.argv) >= 4 and sys.argv[1] == 'child':
        child_main(sys.argv[2], sys.argv[3])
    else:
        sys.exit(check(sys.argv[1] if len(sys.argv) > 1 else 'quick', int(sys.argv[2]) if len(sys.argv) > 2 else 0))
