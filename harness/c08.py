"""C08 - Malformed attributes never yield announced routes (RFC 7606).  H-dec.

Single-fault corruptions (length +1 / -1 / 0, Optional or Transitive bit toggled, invalid value, header
truncation, overrun of the attribute block, duplication) of one attribute of a well-formed UPDATE, for
every registered attribute code (from T5), with IPv4 and MP NLRI.  The RFC 7606 verdict on the corrupted
body comes from Spec_Wire (evaluated in Coq), the judged observables are the announce / withdraw members
of the JSON event, the decoded objects, the Adj-RIB-In content and the Notify raised."""

from __future__ import annotations

import collections
import random
import re
import struct

from harness import common
from harness import c02
from harness.common import Run

# RFC 7606 section 7 approach per type (Spec_Wire.approach_of): W treat-as-withdraw, D discard, R reset, U unspecified
APPROACH = {1: 'W', 2: 'W', 3: 'W', 4: 'W', 5: 'W', 8: 'W', 9: 'W', 10: 'W', 16: 'W', 25: 'W', 32: 'W',
            6: 'D', 7: 'D', 17: 'D', 18: 'D', 14: 'R', 15: 'R'}

FAULTS = ['len+1', 'len-1', 'len0', 'flag-optional', 'flag-transitive', 'value', 'truncate-header', 'overrun', 'duplicate',
          'mp-nexthop-length']


TOLERATED = {}


def raw_tlv(flags, code, declared, value, ext):
    if ext:
        return bytes([flags | 0x10, code]) + struct.pack('!H', declared) + bytes(value)
    return bytes([flags & 0xEF, code, declared & 0xFF]) + bytes(value)


def bad_values(rng, code, a, sess):
    """type-specific invalid values (RFC 7606 section 7)"""
    v = list(a['value'])
    w = 4 if (sess.asn4 or code == 17) else 2
    if code == 1:
        return [[3], [255]]
    if code in (2, 17):
        one = [2, 1] + [0] * (w - 1) + [9]
        return [[0, 1] + [0] * w, [5, 1] + [0] * w, one + [2, 0], [2, 0] + one, one + [2, 3] + [0] * w, [2]]
    if code == 3:
        return [[0x20, 1] + [0] * 13 + [1]]
    if code == 7:
        return [v[:2] + v[-4:] if len(v) == 8 else [0, 0] + v]  # the other session's size
    if code == 14:
        out = []
        if len(v) > 4:
            out.append(v[:3] + [5] + [1, 2, 3, 4, 5] + [0] + v[4 + v[3] + 1 :])  # next hop length no family uses
            out.append([0, 3] + v[2:])  # a family that was not negotiated
            out.append(v[: 4 + v[3] + 1])  # no NLRI at all
            out.append(v[: 4 + v[3] + 1] + ([0, 0, 0, 1] if sess.addpath else []) + [200, 1, 2])  # prefix length beyond the family
            if v[2] == 128 and v[3] >= 8:
                # RFC 4364 4.3.2 / RFC 4659 3.2.1.1: the Route Distinguisher in front of the next hop is zero
                for k in (0, 7):
                    b = list(v)
                    b[4 + k] = 1 + rng.getrandbits(7)
                    out.append(b)
        return out
    if code == 15:
        return [[0, 3] + v[2:], v[:3] + ([0, 0, 0, 1] if sess.addpath else []) + [200, 1, 2]]
    return []


def corrupt(rng, desc, code, fault, sess):
    """-> list of corrupted descriptions (attribute `code` replaced by raw bytes), possibly empty"""
    idx = next(i for i, a in enumerate(desc['attrs']) if a['code'] == code)
    a = desc['attrs'][idx]
    v, fl, ext = list(a['value']), a['flags'], bool(a.get('ext')) or len(a['value']) > 255

    def with_raw(raw, last=False, extra=None):
        attrs = [dict(x) for x in desc['attrs']]
        attrs[idx] = {'code': code, 'raw': list(raw), 'flags': fl, 'value': v}
        if last:
            attrs.append(attrs.pop(idx))
        if extra is not None:
            attrs.append(extra)
        return dict(desc, attrs=attrs)

    if fault == 'len+1':
        return [with_raw(raw_tlv(fl, code, len(v) + 1, v + [rng.getrandbits(8)], ext))]
    if fault == 'len-1':
        return [with_raw(raw_tlv(fl, code, len(v) - 1, v[:-1], ext))] if v else []
    if fault == 'len0':
        return [with_raw(raw_tlv(fl, code, 0, [], ext))] if v else []
    if fault == 'flag-optional':
        return [with_raw(raw_tlv(fl ^ 0x80, code, len(v), v, ext))]
    if fault == 'flag-transitive':
        return [with_raw(raw_tlv(fl ^ 0x40, code, len(v), v, ext))]
    if fault == 'value':
        return [with_raw(raw_tlv(fl, code, len(b), b, ext or len(b) > 255)) for b in bad_values(rng, code, a, sess)]
    if fault == 'mp-nexthop-length':
        # MP_REACH_NLRI only: every other Length of Next Hop 0..33, with that many next hop octets supplied so that
        # the rest of the attribute stays consistent
        if code != 14 or len(v) < 5:
            return []
        out = []
        glob, ll = [0x20, 0x01, 0x0D, 0xB8] + [0] * 11 + [1], [0xFE, 0x80] + [0] * 13 + [1]
        filler = glob + ll + [9]
        rd = [0] * 8 if v[2] == 128 else []
        # mpls-vpn: up to 49 so that RFC 4659's 48 (RD + global + RD + link-local), the 40 octets ExaBGP used to
        # write (RD + global + link-local: tolerated on receipt, see judge) and their neighbours are all tried
        top = 50 if v[2] == 128 else 34
        for ln in range(0, top):
            if ln == v[3]:
                continue
            nh = (rd + filler)[:ln] if ln <= 40 else (rd + glob + rd + ll + [9])[:ln]
            b = v[:3] + [ln] + nh + v[4 + v[3]:]
            out.append(with_raw(raw_tlv(fl, code, len(b), b, ext or len(b) > 255)))
        return out
    if fault == 'truncate-header':
        # the block ends inside the header of this (last) attribute
        full = raw_tlv(fl, code, len(v), v, ext)
        return [with_raw(full[:k], last=True) for k in ((1, 2, 3) if ext else (1, 2))]
    if fault == 'overrun':
        out = []
        for k in (1, 4, 200):
            if len(v) + k > 255 and not ext:
                continue
            out.append(with_raw(raw_tlv(fl, code, len(v) + k, v, ext), last=True))
        if v:
            out.append(with_raw(raw_tlv(fl, code, len(v), v[:-1], ext), last=True))  # the block is cut one byte short
        return out
    if fault == 'duplicate':
        other = list(v)
        if other:
            other[-1] ^= 1
        return [with_raw(raw_tlv(fl, code, len(v), v, ext), extra={'code': code, 'raw': list(raw_tlv(fl, code, len(other), other, ext)),
                                                                       'flags': fl, 'value': other})]
    raise ValueError(fault)


VERDICT_HEADER = c02.HEADER + """
Definition verdict' (s : sess) (b : list Z) := verdict (fun _ _ => false) (mkRS (s_asn4 s) (s_fams s) (s_addpath s) (s_extnh s)) b.
"""


def coq_verdicts(cases, tag):
    shards = common.chunked(list(range(len(cases))), 150)

    def defs(idx):
        return 'Eval vm_compute in [' + ';\n'.join(f"verdict' {cases[i][0].coq()} {common.zbytes(cases[i][1])}" for i in idx) + '].\n'

    res = common.eval_cases(VERDICT_HEADER, defs, shards, tag)
    out, ok, logs = [None] * len(cases), True, []
    for shard, (rc, text, parsed) in zip(shards, res):
        if rc != 0 or not parsed:
            ok = False
            logs.append(text[-1500:])
            continue
        lists = re.findall(r'\[([^\[\]]*)\]', parsed[0])
        if len(lists) != len(shard):
            ok = False
            logs.append(f'expected {len(shard)} verdicts, parsed {len(lists)}')
            continue
        for i, l in zip(shard, lists):
            out[i] = [int(x) for x in re.findall(r'-?\d+', l)]
    return ok, out, logs


def only_zero_length_segments(value, width):
    """AS path value whose ONLY defect is one or more segments of length zero (types valid, exact fit)"""
    d, zero = list(value), False
    while d:
        if len(d) < 2 or d[0] not in (1, 2, 3, 4):
            return False
        n = d[1]
        if len(d) < 2 + n * width:
            return False
        zero = zero or n == 0
        d = d[2 + n * width:]
    return zero


def corrupted_value(c):
    raw = next((a['raw'] for a in c['desc']['attrs'] if a['code'] == c['code'] and 'raw' in a), None)
    if raw is None:
        return None
    t = c02.walk_tlvs(bytes(raw))
    return list(t[0][3]) if t else None


def route_keys(exp):
    return [k[0][:5] for k in exp['ann']] + [k[:5] for k in exp['wd']]


def judge(c, verdict, rib_after, drops_discard):
    r = judge_outcome(c, verdict, rib_after, drops_discard)
    if r and c['code'] in (2, 17) and c['fault'] == 'value':
        v = corrupted_value(c)
        width = 4 if (c['code'] == 17 or c['sess'].asn4) else 2
        if v is not None and only_zero_length_segments(v, width):
            return (f'C08:as-path-zero-length-segment-accepted:{c["code"]}',
                    'an AS path segment of length zero (RFC 7606 7.2: malformed) is accepted: ' + r[1])
    if r and c['code'] == 14 and c['fault'] == 'mp-nexthop-length':
        v = corrupted_value(c)
        if v is not None and len(v) >= 4:
            afi, safi, ln = (v[0] << 8) + v[1], v[2], v[3]
            vpn = safi == 128
            other_afi = (afi == 2 and ln in ((12,) if vpn else (4,))) or \
                        (afi == 1 and (afi, safi) not in c['sess'].extnh and ln in ((24,) if vpn else (16, 32)))
            if vpn and ln == 40 and (afi == 2 or (afi, safi) in c['sess'].extnh):
                # Spec_Wire's table does not list it; Family.size does, on purpose (RD + global + link-local, the form
                # ExaBGP wrote itself before RFC 4659's 48): the hypothesis nh40_tolerated of C08_rfc7606_mp_vpn_partial
                TOLERATED['vpn-nexthop-40'] = TOLERATED.get('vpn-nexthop-40', 0) + 1
                return None
            detail = f'MP_REACH_NLRI {afi}/{safi} with next hop length {ln} on session {c["sess"].key}: ' + r[1]
            if c['sess'].extnh and other_afi:
                # a length that is legal for the same SAFI under the other AFI, or for an IPv4 family the RFC 8950
                # capability was not exchanged for
                return (f'C08:mp-nexthop-of-other-family-accepted:{afi}/{safi}:{ln}', detail)
            return (f'C08:mp-nexthop-length-accepted:{afi}/{safi}:{ln}', detail)
    return r


def judge_outcome(c, verdict, rib_after, drops_discard):
    """-> (sig, what) when the observable outcome is none of the RFC 7606 approaches, else None"""
    code, fault, o, exp = c['code'], c['fault'], c['impl'], c['exp']
    tag = f'{code}:{fault}'
    if verdict is None:
        return None
    block_bad = verdict[:1] == [-9]
    if verdict[:1] == [-8]:
        return None  # the length fields do not fit: outside this property
    states = dict()
    for k in range(0, len(verdict), 2) if not block_bad else []:
        if verdict[k] == code:
            states.setdefault(code, []).append(verdict[k + 1])
    st = states.get(code, [])
    opaque = code in c02.OPAQUE_CODES
    malformed = block_bad or 1 in st
    dup = 2 in st
    if opaque and not block_bad and not dup and fault in ('len+1', 'len-1', 'len0', 'value'):
        # no RFC rule in Spec_Wire for these types: malformed when the type's own decoder refuses the value
        raw = next(a for a in c['desc']['attrs'] if a['code'] == code and 'raw' in a)['raw']
        f, ln, val = c02.walk_tlvs(bytes(raw))[0][0], c02.walk_tlvs(bytes(raw))[0][2], c02.walk_tlvs(bytes(raw))[0][3]
        res = c02.opaque_outcome(c['sess'], code, (f & 0xDF), val)
        malformed = malformed or ln == 0 or res not in ('VOk (VBytes v)', 'VPseudoDiscard')
    if not malformed and not dup:
        return None  # the corruption left a well-formed attribute (e.g. a longer opaque value)
    if o['kind'] == 'notify':
        if o['code'][0] == 3:
            return None  # session reset with an UPDATE Message Error
        return (f'C08:reset-with-wrong-code:{tag}', f'NOTIFICATION {o["code"]} instead of an UPDATE Message Error: {o["text"]}')
    if o['kind'] == 'pyerror':
        return (f'C08:untyped-exception:{tag}', f'{o["exc"]}: {o["text"]} (read_message answers NOTIFICATION 1/0)')
    if o['kind'] == 'eor':
        if not exp['ann']:
            return None
        return (f'C08:malformed-update-read-as-eor:{tag}', f'EOR {o["fam"]}')
    ann = [(tuple(n['fam']), n['pid'], n['rd'], n['mask'], tuple(n['pfx'])) for n, nh in o['ann']]
    wd = [(tuple(n['fam']), n['pid'], n['rd'], n['mask'], tuple(n['pfx'])) for n in o['wd']]
    j = o.get('json', {})
    # --- treat-as-withdraw: nothing announced (objects, JSON, Adj-RIB-In), every decodable route withdrawn
    if not ann and 'announce' not in j and not any(k in rib_after for k in [x[0][:5] for x in exp['ann']]):
        return None
    approach = APPROACH.get(code, 'U')
    if block_bad:
        approach = 'W'  # RFC 7606 section 4: a block that cannot be walked is treat-as-withdraw (or reset)
    if dup and not malformed:
        # RFC 7606 3.g: all but the first occurrence are discarded (MP attributes: session reset, handled above)
        if code in (14, 15):
            return (f'C08:duplicate-mp-attribute-accepted:{tag}', 'announced after a duplicated MP attribute')
        d = c02.obs_vs_expected(o, exp)
        if d:
            return (f'C08:duplicate-not-first-kept:{tag}', '; '.join(d)[:600])
        return None
    # --- attribute discard: only for the types whose approach is discard (or has no RFC 7606 section)
    if approach in ('D', 'U'):
        exp2 = {'ann': exp['ann'], 'wd': exp['wd'], 'attrs': {k: v for k, v in exp['attrs'].items() if k != code}}
        o2 = dict(o, attrs={k: v for k, v in o['attrs'].items() if k not in (c02.TAW, c02.DISCARD)})
        d = c02.obs_vs_expected(o2, exp2)
        if 'json' in o:
            d += c02.json_vs_expected(o['json'], exp2)
        if d:
            return (f'C08:discard-changed-the-rest:{tag}', '; '.join(d)[:600])
        # the rest is kept: the routes reach Adj-RIB-In
        # routes that the same UPDATE also withdraws are left aside here (their fate is C02's subject)
        want_rib = c02.expected_rib({}, exp2)
        missing = [k for k in want_rib if k not in rib_after and k not in c02.overlap_keys(exp2)]
        if missing:
            return (f'C08:discard-drops-whole-update:{tag}', f'announced on the API but not stored in Adj-RIB-In: {missing[:2]}')
        return None
    what = []
    if ann:
        what.append(f'{len(ann)} routes still announced (objects)')
    if 'announce' in j:
        what.append('JSON event has an announce member')
    stored = [k for k in [x[0][:5] for x in exp['ann']] if k in rib_after]
    if stored:
        what.append(f'{len(stored)} routes stored in Adj-RIB-In')
    kind = 'overrun-accepted' if block_bad and fault == 'overrun' else 'truncated-block-accepted' if block_bad else 'malformed-attribute-still-announced'
    present = code in o['attrs']
    return (f'C08:{kind}:{tag}', '; '.join(what) + (f'; attribute {code} decoded as {o["attrs"][code]}' if present else f'; attribute {code} absent'))


def check(tier, seed):
    run = Run('C08', tier, seed)
    run.trusted = [
        'Coq 8.16.1 kernel (coqc); vm_compute for case evaluation; no native_compute',
        'translate/t5_attrtable.py (attribute registry reflection)',
        'harness/c02.py generators, drivers and extraction glue (see C02); harness/c08.py: the corruption operators, '
        'the outcome classifier `judge` (which observable counts as reset / treat-as-withdraw / discard)',
        'Spec_Wire.verdict decides which attribute of a corrupted body is malformed; for PMSI, TUNNEL_ENCAP, AIGP, BGP-LS, '
        'PREFIX_SID (no rule in Spec_Wire) a value is malformed when the type\'s own decoder refuses it',
    ]
    run.assumptions = [
        'a stricter approach than the type\'s own is accepted (reset >= treat-as-withdraw >= discard); treat-as-withdraw is '
        'judged on what is announced/stored, not on the completeness of the withdrawn list when the block cannot be walked',
        'sessions negotiate the eight IP families; two of the six negotiate the RFC 8950 extended next hop',
    ]
    common.standard_build(run, ['T5'])
    from translate import t5_attrtable

    codes = [r['id'] for r in t5_attrtable.table()]
    rng = random.Random(seed)
    sessions = c02.make_sessions()
    bases = 2 if tier == 'quick' else 25
    cases = []
    for code in codes:
        for b in range(bases):
            for sess in sessions:
                if code == 17 and sess.asn4:
                    continue  # AS4_PATH is not sent on a 4-byte session
                desc = c02.gen_update(rng, sess, want=code, plain_as4=True)
                if not any(a['code'] == code for a in desc['attrs']):
                    continue
                exp = c02.expected(desc, sess)
                for fault in FAULTS:
                    for bad in corrupt(rng, desc, code, fault, sess):
                        cases.append({'sess': sess, 'code': code, 'fault': fault, 'desc': bad, 'base': desc, 'exp': exp,
                                      'body': c02.build(bad, sess.addpath)})
    # ---- implementation: objects, JSON, Adj-RIB-In
    drops = c02.READ_MESSAGE_DROPS_DISCARD()
    for c in cases:
        c['impl'] = c02.impl_decode(c['body'], c['sess'])
        rig = c02.RibRig(c['sess'])
        rig.feed(c['impl'])
        c['rib'] = rig.content()
    pairs = [(c['sess'], c['body']) for c in cases]
    ok, ev, logs = c02.eval_two_pass(cases, 'c08', False)
    run.obligation('model evaluation (vm_compute of dec_update and dec_update_pinned on every corrupted body) ran', ok, '\n'.join(logs)[-2500:])
    okv, verdicts, logsv = coq_verdicts(pairs, 'c08v')
    run.obligation('RFC 7606 verdict (vm_compute of Spec_Wire.verdict on every corrupted body) ran', okv, '\n'.join(logsv)[-2500:])

    corr_fixed, corr_pinned, bad = [], [], []
    dist, vdist = collections.Counter(), collections.Counter()
    for i, c in enumerate(cases):
        ic = c02.impl_canon(c['impl'])
        mf = c02.model_canon(ev['fixed'][i]) if ev['fixed'][i] else None
        mp = c02.model_canon(ev['pinned'][i]) if ev['pinned'][i] else None
        if mf != ic:
            corr_fixed.append(i)
        if mf != ic and mp != ic:
            corr_pinned.append(i)
        dist[(c['fault'], c['impl']['kind'] if c['impl']['kind'] != 'notify' else 'notify%d/%d' % c['impl']['code'])] += 1
        v = verdicts[i]
        vdist['block' if v and v[0] == -9 else 'lengths' if v and v[0] == -8 else 'attr'] += 1
        r = judge(c, v, c['rib'], drops)
        if r:
            bad.append((i, r[0], r[1]))

    def first(lst):
        if not lst:
            return ''
        i = lst[0]
        c = cases[i]
        return (f'case {i} code={c["code"]} fault={c["fault"]} session={c["sess"].key} body={bytes(c["body"]).hex()} '
                f'impl={c02.impl_canon(c["impl"])} fixed={c02.model_canon(ev["fixed"][i]) if ev["fixed"][i] else None} '
                f'pinned={c02.model_canon(ev["pinned"][i]) if ev["pinned"][i] else None}')[:3000]

    neither = sorted(set(corr_fixed) & set(corr_pinned))
    run.obligation('correspondence: Message.unpack = Model_Update (repaired or pinned generation) on every corrupted body',
                   not neither, f'{len(cases)} bodies; {len(neither)} disagree with both; first: {first(neither)}')
    run.obligation('correspondence with the REPAIRED model dec_update on every corrupted body (the theorems of Prop_C08 are about it)',
                   not corr_fixed, f'{len(cases)} bodies; {len(corr_fixed)} disagreements ({len(corr_fixed) - len(neither)} match the pinned model); first: {first(corr_fixed)}')
    run.obligation('property oracle: every body with a malformed attribute (Spec_Wire verdict) ends in reset 3/x, treat-as-withdraw or '
                   '(discard class) the rest unchanged, on the JSON event, the objects and Adj-RIB-In',
                   not bad, f'{len(cases)} bodies; {len(bad)} failing; first: {bad[0] if bad else ""}'[:2500])

    # ---- repeat pass: sequences in one process state; every position must decode as the same body from a fresh state
    n_x = 80 if tier == 'quick' else 2000
    picked = rng.sample(cases, min(n_x, len(cases)))
    goods = {}
    for sess in sessions:
        goods[sess.key] = []
        while len(goods[sess.key]) < 4:
            d = c02.gen_update(rng, sess, plain_as4=True)
            if d['nlri'] and not d['mp_reach'] and not d['mp_unreach']:
                goods[sess.key].append(c02.build(d, sess.addpath))
    n_seq, rep_bad = c02.repeat_pass([(c['sess'], c['body'], f'attribute {c["code"]} fault {c["fault"]}') for c in picked], goods, rng, 'C08')
    run.obligation('repeat pass: in one process state (AttributeCollection.unpack cache live, one Adj-RIB-In) every position of the '
                   'sequences [good;X;X] [X;X] [X;good;X] [X;Y;X] decodes as the same body decoded from a fresh state',
                   not rep_bad, f'{n_seq} sequences; {len(rep_bad)} failing; first: {rep_bad[0] if rep_bad else ""}'[:2500])
    rep_seen = set()
    for sig, what, case in rep_bad:
        key = ':'.join(sig.split(':')[:2])
        if key not in rep_seen:
            rep_seen.add(key)
            run.fail_case(key, what, case)
    run.coverage['repeat_pass_sequences'] = n_seq

    seen = {}
    for i, sig, what in bad:
        # one replay per kind of failure and attribute code, the smallest body
        key = ':'.join(sig.split(':')[:2])  # C08:<kind of failure>; attribute code and fault are in the replay
        if key not in seen or len(cases[i]['body']) < len(cases[seen[key][0]]['body']):
            seen[key] = (i, sig, what)
    for key, (i, sig, what) in sorted(seen.items()):
        c = cases[i]
        run.fail_case(key, what, {'session': c['sess'].key, 'attribute': c['code'], 'fault': c['fault'], 'body_hex': bytes(c['body']).hex(),
                                  'verdict': verdicts[i], 'observed': str(c02.impl_canon(c['impl']))[:1200],
                                  'adj_rib_in_keys': [str(k) for k in list(c['rib'])[:4]]})

    run.coverage.update({
        'evaluations': len(cases),
        'distinct_nontrivial': len({bytes(c['body']) for c in cases}),
        'rule': f'{len(codes)} registered attribute codes (T5) x {bases} well-formed bases x 6 sessions (asn4 x ADD-PATH, two with RFC 8950 extended next hop) x 10 fault kinds (incl. every MP_REACH next hop length 0..33, 0..49 for mpls-vpn routes, and a non-zero RD in front of a VPN next hop) '
                f'(several variants each); bases mix IPv4 NLRI and MP_REACH/MP_UNREACH over the 8 IP families; non-trivial = distinct body',
        'fault_outcome_histogram': {f'{k[0]} -> {k[1]}': v for k, v in sorted(dist.items())},
        'verdict_histogram': dict(vdist),
        'codes': codes,
        'read_message_drops_discard': drops,
        'tolerated_forms_seen': dict(TOLERATED),
        'exhaustive': False,
    })
    for c in cases[:3]:
        run.samples.append({'code': c['code'], 'fault': c['fault'], 'body': bytes(c['body']).hex(), 'impl': str(c02.impl_canon(c['impl']))[:400]})
    if run.broken() and not run.failing:
        run.coverage['search'] = f'{len(cases)} corrupted bodies judged by the RFC 7606 oracle; none failed the property itself'
    return run.finish(checker_cmd='make -C coq props/Prop_C08.vo && coqc -Q coq ExaV coq/props/Prop_C08.v (Print Assumptions)')


def replay(path):
    """./check C08 --replay <file>: decode the recorded body again, judge it on its own (no base description):
    exit 1 when an attribute the reference calls malformed is reported next to announced routes"""
    import json

    data = json.load(open(path))
    case = data.get('case', data)
    run = Run('C08', 'replay', 0)
    common.standard_build(run, ['T5'])
    sess = next(s for s in c02.make_sessions() if s.key == case['session'])
    body = bytes.fromhex(case['body_hex'])
    o = c02.impl_decode(body, sess)
    rig = c02.RibRig(sess)
    rig.feed(o)
    c = {'sess': sess, 'body': body, 'impl': o}
    ok, ev, _ = c02.eval_two_pass([c], 'c08r', False)
    okv, verdicts, _ = coq_verdicts([(sess, body)], 'c08rv')
    v = verdicts[0] or []
    ic = c02.impl_canon(o)
    agree_fixed = bool(ev['fixed'][0]) and c02.model_canon(ev['fixed'][0]) == ic
    agree_pinned = bool(ev['pinned'][0]) and c02.model_canon(ev['pinned'][0]) == ic
    malformed = [v[k] for k in range(0, len(v) - 1, 2) if v[k + 1] == 1] if v[:1] not in ([-9], [-8]) else []
    block_bad = v[:1] == [-9]
    failing = None
    if block_bad or malformed:
        if o['kind'] == 'pyerror' or (o['kind'] == 'notify' and o['code'][0] != 3):
            failing = 'not an UPDATE Message Error reset'
        elif o['kind'] == 'upd' and (o['ann'] or 'announce' in o.get('json', {}) or rig.content()):
            kept = [m for m in malformed if m in o['attrs']]
            strict = [m for m in malformed if APPROACH.get(m, 'U') in ('W', 'R')]
            if block_bad or kept or strict:
                failing = f'routes announced although the block is malformed (block={block_bad}, malformed codes {malformed}, still reported {kept})'
    print(json.dumps({'session': sess.key, 'body': body.hex(), 'verdict': v, 'observed': str(ic)[:1500],
                      'adj_rib_in_keys': [str(k) for k in rig.content()], 'matches_repaired_model': agree_fixed,
                      'matches_pinned_model': agree_pinned, 'property': failing or 'holds'}, indent=1))
    common.cleanup()
    return 1 if failing or not (agree_fixed or agree_pinned) else 0
