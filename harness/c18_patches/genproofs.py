"""Development-only generator for coq/proofs/Proofs_Text.v and coq/props/Prop_C18.v (both are committed sources).
usage: genproofs.py current|repaired <outdir>"""
import sys
mode, out = sys.argv[1], sys.argv[2]
# field -> (encoding kind, octets, repr description)
U = lambda n, w: ('u', n, w)
FIELDS = [
 ('med', U(4, 32)), ('local_preference', U(4, 32)), ('aigp', U(8, 64)), ('asn', U(4, 32)), ('asn_dotted_part', U(2, 16)),
 ('community_high', U(2, 16)), ('community_low', U(2, 16)), ('community_number', U(4, 32)),
 ('large_community_part', U(4, 32)), ('label', ('label', 3, 20)), ('path_information', U(4, 32)),
 ('attribute_code', U(1, 8)), ('attribute_flag', U(1, 8)),
 ('vpls_endpoint', U(2, 16)), ('vpls_size', U(2, 16)), ('vpls_offset', U(2, 16)), ('vpls_base', ('label', 3, 20)),
 ('flow_port', ('flow12', 2, 16)), ('flow_packet_length', ('flow12', 2, 16)),
 ('flow_protocol', U(1, 8)), ('flow_next_header', U(1, 8)), ('flow_icmp_type', U(1, 8)), ('flow_icmp_code', U(1, 8)),
 ('flow_dscp', U(1, 6)), ('flow_traffic_class', U(1, 8)), ('flow_flow_label', ('flow124', 4, 20)), ('flow_mark', U(1, 6)),
 ('mask_ipv4', ('within', 1, 32)), ('mask_ipv6', ('within', 1, 128)),
 ('flow_mask_ipv4', ('within', 1, 32)), ('flow_mask_ipv6', ('within', 1, 128)),
]
# current tree: field -> (witness, direction of the implication that still holds)
REFUTED = {
 'community_high': (65536, 'valid_accepted'), 'community_low': (65536, 'valid_accepted'),
 'large_community_part': (4294967296, 'valid_accepted'), 'path_information': (4294967296, 'valid_accepted'),
 'attribute_code': (256, 'valid_accepted'), 'attribute_flag': (256, 'valid_accepted'),
 'vpls_base': (65536, 'accepted_valid'),
 'flow_packet_length': (-1, 'valid_accepted'), 'flow_protocol': (256, 'valid_accepted'),
 'flow_next_header': (256, 'valid_accepted'), 'flow_icmp_type': (256, 'valid_accepted'),
 'flow_icmp_code': (256, 'valid_accepted'), 'flow_traffic_class': (256, 'valid_accepted'),
 'flow_mask_ipv4': (33, 'valid_accepted'), 'flow_mask_ipv6': (129, 'valid_accepted'),
} if mode == 'current' else {}
RD_REFUTED = mode == 'current'

P = []
P.append('''(* C18 - value domains: the parser's accept predicates (generated from the source, gen/Gen_TextDomains.v)
   against what the wire format can hold (model/Model_Text.v).  Every proof below depends only on the SHAPE of
   the generated predicate (a boolean combination of comparisons of v with numerals): `text_iff` turns it into
   linear arithmetic and calls lia, so a repaired bound is picked up without touching the script. *)
From Coq Require Import ZArith Bool List Lia.
From ExaV Require Import gen.Gen_TextDomains model.Model_Text.
Import ListNotations.
Open Scope Z_scope.

(* ---- shape tactics *)
Ltac fold_pows :=
  repeat match goal with
  | |- context [2 ^ ?w] => let c := eval vm_compute in (2 ^ w) in change (2 ^ w) with c
  | H : context [2 ^ ?w] |- _ => let c := eval vm_compute in (2 ^ w) in change (2 ^ w) with c in H
  end.
Ltac b2p :=
  repeat (rewrite ?Z.gtb_ltb, ?Z.geb_leb in * );
  repeat (rewrite ?andb_true_iff, ?orb_true_iff, ?negb_true_iff, ?andb_false_iff, ?orb_false_iff, ?negb_false_iff,
                  ?Z.leb_le, ?Z.ltb_lt, ?Z.leb_gt, ?Z.ltb_ge, ?Z.eqb_eq, ?Z.eqb_neq in * ).
Ltac text_unfold := cbv [fits within]; fold_pows.
(* accept v = true <-> repr v = true, both sides boolean combinations of comparisons with numerals *)
Ltac text_iff := text_unfold; b2p; lia.
Ltac text_refute w := exists w; vm_compute; discriminate.

(* ---- big-endian encoders *)
Lemma rd_be_app : forall l b acc, rd_be (l ++ [b]) acc = rd_be l acc * 256 + b.
Proof. induction l as [|x l IH]; intros b acc; cbn [rd_be app]; [reflexivity | apply IH]. Qed.

Lemma be_length : forall n v, length (be n v) = n.
Proof.
  induction n as [|n IH]; intros v; cbn [be]; [reflexivity|].
  rewrite app_length, IH. cbn [length]. lia.
Qed.

Lemma be_roundtrip : forall n v, 0 <= v < 256 ^ Z.of_nat n -> rd_be (be n v) 0 = v.
Proof.
  induction n as [|n IH]; intros v Hv.
  - change (256 ^ Z.of_nat 0) with 1 in Hv. cbn [be rd_be]. lia.
  - cbn [be]. rewrite rd_be_app. rewrite Nat2Z.inj_succ, Z.pow_succ_r in Hv by lia.
    rewrite IH.
    + pose proof (Z.div_mod v 256 ltac:(lia)) as E. lia.
    + split; [apply Z.div_pos; lia | apply Z.div_lt_upper_bound; lia].
Qed.

Lemma u_encodes : forall n w v, 2 ^ w <= 256 ^ Z.of_nat n -> fits w v = true ->
  dec_u (be n v) = v /\\ length (be n v) = n.
Proof.
  intros n w v Hw Hf. split; [|apply be_length].
  unfold dec_u. apply be_roundtrip. unfold fits in Hf. b2p. lia.
Qed.

Lemma within_encodes : forall hi v, hi < 256 -> within 0 hi v = true -> dec_u (be 1 v) = v /\\ length (be 1 v) = 1%nat.
Proof.
  intros hi v Hh Hf. split; [|reflexivity].
  unfold dec_u. apply be_roundtrip. change (256 ^ Z.of_nat 1) with 256. unfold within in Hf. b2p. lia.
Qed.

Lemma label_encodes : forall v, fits 20 v = true -> dec_label (enc_label v) = v /\\ length (enc_label v) = 3%nat.
Proof.
  intros v Hf. split; [|apply be_length].
  unfold dec_label, enc_label, dec_u. rewrite be_roundtrip.
  - symmetry. apply (Z.div_unique (v * 16 + 1) 16 v 1); lia.
  - change (256 ^ Z.of_nat 3) with 16777216. revert Hf. text_unfold. b2p. lia.
Qed.

Lemma flow12_encodes : forall v, fits 16 v = true ->
  dec_u (enc_flow12 v) = v /\\ (length (enc_flow12 v) = 1%nat \\/ length (enc_flow12 v) = 2%nat).
Proof.
  intros v Hf. revert Hf. text_unfold. intros Hf. b2p. unfold enc_flow12, dec_u.
  destruct (Z.ltb_spec v 256).
  - split; [apply be_roundtrip; change (256 ^ Z.of_nat 1) with 256; lia | left; reflexivity].
  - split; [apply be_roundtrip; change (256 ^ Z.of_nat 2) with 65536; lia | right; reflexivity].
Qed.

Lemma flow124_encodes : forall v, fits 20 v = true ->
  dec_u (enc_flow124 v) = v /\\ In (length (enc_flow124 v)) [1%nat; 2%nat; 4%nat].
Proof.
  intros v Hf. revert Hf. text_unfold. intros Hf. b2p. unfold enc_flow124, dec_u.
  destruct (Z.ltb_spec v 256); [|destruct (Z.ltb_spec v 65536)].
  - split; [apply be_roundtrip; change (256 ^ Z.of_nat 1) with 256; lia | cbn; auto].
  - split; [apply be_roundtrip; change (256 ^ Z.of_nat 2) with 65536; lia | cbn; auto].
  - split; [apply be_roundtrip; change (256 ^ Z.of_nat 4) with 4294967296; lia | cbn; auto].
Qed.

Lemma rd_encodes : forall n s, repr_rd n s = true -> dec_rd (enc_rd n s) = (n, s) /\\ length (enc_rd n s) = 8%nat.
Proof.
  intros n s H. unfold repr_rd in H. revert H. text_unfold. intros H. b2p. unfold enc_rd.
  destruct (Z.ltb_spec n 65536) as [Hn|Hn].
  - assert (Hs : 0 <= s < 4294967296) by lia.
    cbn [be app]. cbn [dec_rd]. split; [|reflexivity]. unfold dec_u. cbn [rd_be]. f_equal.
    + pose proof (Z.div_mod n 256 ltac:(lia)). assert (n / 256 / 256 = 0) by (apply Z.div_small; split; [apply Z.div_pos; lia | apply Z.div_lt_upper_bound; lia]).
      pose proof (Z.div_mod (n / 256) 256 ltac:(lia)). lia.
    + change (rd_be (be 4 s) 0 = s). apply be_roundtrip. change (256 ^ Z.of_nat 4) with 4294967296. lia.
  - assert (Hs : 0 <= s < 65536 /\\ 0 <= n < 4294967296) by lia.
    cbn [be app]. cbn [dec_rd]. split; [|reflexivity]. unfold dec_u. f_equal.
    + change (rd_be (be 4 n) 0 = n). apply be_roundtrip. change (256 ^ Z.of_nat 4) with 4294967296. lia.
    + change (rd_be (be 2 s) 0 = s). apply be_roundtrip. change (256 ^ Z.of_nat 2) with 65536. lia.
Qed.
''')

def lenstmt(f, kind):
    if kind[0] == 'flow12':
        return f'(length (enc_{f} v) = 1%nat \\/ length (enc_{f} v) = 2%nat)'
    if kind[0] == 'flow124':
        return f'In (length (enc_{f} v)) [1%nat; 2%nat; 4%nat]'
    return f'length (enc_{f} v) = {kind[1]}%nat'

def repr_enc_proof(f, kind):
    k, n, w = kind
    if k == 'u':
        return f'intros v H. apply (u_encodes {n} {w}); [vm_compute; discriminate | exact H].'
    if k == 'within':
        return f'intros v H. apply (within_encodes {w}); [lia | exact H].'
    if k == 'label':
        return 'exact label_encodes.'
    if k == 'flow12':
        return 'exact flow12_encodes.'
    if k == 'flow124':
        return 'exact flow124_encodes.'

P.append('(* ---- per field.  representable_encodes_<f> is about the wire format only (holds whatever the parser does) *)')
for f, kind in FIELDS:
    P.append(f'\n(* {f} *)')
    P.append(f'Lemma representable_encodes_{f} : forall v, repr_{f} v = true -> dec_{f} (enc_{f} v) = v /\\ {lenstmt(f, kind)}.')
    P.append(f'Proof. {repr_enc_proof(f, kind)} Qed.')
    if f in REFUTED:
        w, direction = REFUTED[f]
        P.append(f'Lemma {f}_refuted : exists v, accept_{f} v <> repr_{f} v.')
        P.append(f'Proof. text_refute ({w}). Qed.')
        if direction == 'valid_accepted':
            P.append(f'Lemma {f}_partial : forall v, repr_{f} v = true -> accept_{f} v = true.')
        else:
            P.append(f'Lemma {f}_partial : forall v, accept_{f} v = true -> repr_{f} v = true.')
        P.append(f'Proof. intros v; unfold accept_{f}, repr_{f}; text_iff. Qed.')
    else:
        P.append(f'Lemma accept_iff_repr_{f} : forall v, accept_{f} v = true <-> repr_{f} v = true.')
        P.append(f'Proof. intros v; unfold accept_{f}, repr_{f}; text_iff. Qed.')
        P.append(f'Lemma accepted_encodes_{f} : forall v, accept_{f} v = true -> dec_{f} (enc_{f} v) = v /\\ {lenstmt(f, kind)}.')
        P.append(f'Proof. intros v H. apply representable_encodes_{f}. apply accept_iff_repr_{f}. exact H. Qed.')
P.append('\n(* rd, <number>:<number> form *)')
P.append('Lemma representable_encodes_rd : forall n s, repr_rd n s = true -> dec_rd (enc_rd n s) = (n, s) /\\ length (enc_rd n s) = 8%nat.')
P.append('Proof. exact rd_encodes. Qed.')
if RD_REFUTED:
    P.append('Lemma rd_refuted : exists n s, accept_rd n s <> repr_rd n s.')
    P.append('Proof. exists (-1), 1; vm_compute; discriminate. Qed.')
    P.append('Lemma rd_partial : forall n s, repr_rd n s = true -> accept_rd n s = true.')
    P.append('Proof. intros n s; unfold accept_rd, repr_rd; text_iff. Qed.')
else:
    P.append('Lemma accept_iff_repr_rd : forall n s, accept_rd n s = true <-> repr_rd n s = true.')
    P.append('Proof. intros n s; unfold accept_rd, repr_rd; text_iff. Qed.')
    P.append('Lemma accepted_encodes_rd : forall n s, accept_rd n s = true -> dec_rd (enc_rd n s) = (n, s) /\\ length (enc_rd n s) = 8%nat.')
    P.append('Proof. intros n s H. apply rd_encodes. apply accept_iff_repr_rd. exact H. Qed.')
open(out + '/Proofs_Text.v', 'w').write('\n'.join(P) + '\n')

Q = []
Q.append('''(* C18 - Route text is accepted if and only if it can be sent.  Statements only.
   accept_<f> : Z -> bool is the range test the parser applies to the number written after the keyword, as
   regenerated from the source on this run (gen/Gen_TextDomains.v); repr_<f> is what the wire field can hold
   (model/Model_Text.v, RFC widths); enc_<f> / dec_<f> are the big-endian field encoders.
   For EVERY integer v (no finite table):
     C18_accept_iff_representable_<f> : the parser accepts v  <->  the wire format can hold v
     C18_accepted_encodes_<f>         : an accepted v survives enc/dec unchanged in the field's octet count
   Where the parser of the tree this run was built from does not agree with the wire format the statement is
   replaced by <f>_refuted (the witness) and <f>_partial (the direction that still holds), and
   C18_representable_encodes_<f> (every representable value survives enc/dec). *)
From Coq Require Import ZArith Bool List.
From ExaV Require Import gen.Gen_TextDomains model.Model_Text proofs.Proofs_Text.
Import ListNotations.
Open Scope Z_scope.
''')
names = []
for f, kind in FIELDS:
    if f in REFUTED:
        w, direction = REFUTED[f]
        Q.append(f'Theorem C18_{f}_refuted : exists v, accept_{f} v <> repr_{f} v.')
        Q.append(f'Proof. exact {f}_refuted. Qed.')
        if direction == 'valid_accepted':
            Q.append(f'Theorem C18_{f}_partial : forall v, repr_{f} v = true -> accept_{f} v = true.')
        else:
            Q.append(f'Theorem C18_{f}_partial : forall v, accept_{f} v = true -> repr_{f} v = true.')
        Q.append(f'Proof. exact {f}_partial. Qed.')
        Q.append(f'Theorem C18_representable_encodes_{f} : forall v, repr_{f} v = true -> dec_{f} (enc_{f} v) = v /\\ {lenstmt(f, kind)}.')
        Q.append(f'Proof. exact representable_encodes_{f}. Qed.')
        names += [f'C18_{f}_refuted', f'C18_{f}_partial', f'C18_representable_encodes_{f}']
    else:
        Q.append(f'Theorem C18_accept_iff_representable_{f} : forall v, accept_{f} v = true <-> repr_{f} v = true.')
        Q.append(f'Proof. exact accept_iff_repr_{f}. Qed.')
        Q.append(f'Theorem C18_accepted_encodes_{f} : forall v, accept_{f} v = true -> dec_{f} (enc_{f} v) = v /\\ {lenstmt(f, kind)}.')
        Q.append(f'Proof. exact accepted_encodes_{f}. Qed.')
        names += [f'C18_accept_iff_representable_{f}', f'C18_accepted_encodes_{f}']
    Q.append('')
if RD_REFUTED:
    Q.append('Theorem C18_rd_refuted : exists n s, accept_rd n s <> repr_rd n s.\nProof. exact rd_refuted. Qed.')
    Q.append('Theorem C18_rd_partial : forall n s, repr_rd n s = true -> accept_rd n s = true.\nProof. exact rd_partial. Qed.')
    Q.append('Theorem C18_representable_encodes_rd : forall n s, repr_rd n s = true -> dec_rd (enc_rd n s) = (n, s) /\\ length (enc_rd n s) = 8%nat.\nProof. exact representable_encodes_rd. Qed.')
    names += ['C18_rd_refuted', 'C18_rd_partial', 'C18_representable_encodes_rd']
else:
    Q.append('Theorem C18_accept_iff_representable_rd : forall n s, accept_rd n s = true <-> repr_rd n s = true.\nProof. exact accept_iff_repr_rd. Qed.')
    Q.append('Theorem C18_accepted_encodes_rd : forall n s, accept_rd n s = true -> dec_rd (enc_rd n s) = (n, s) /\\ length (enc_rd n s) = 8%nat.\nProof. exact accepted_encodes_rd. Qed.')
    names += ['C18_accept_iff_representable_rd', 'C18_accepted_encodes_rd']
Q.append('''
(* non-vacuity: accepted values exist at both ends of a field, and the encoders produce the RFC octets *)
Example C18_witness :
  accept_med 0 = true /\\ accept_med 4294967295 = true /\\ accept_med 4294967296 = false /\\ accept_med (-1) = false /\\
  accept_asn 4294967295 = true /\\ accept_label 1048575 = true /\\ accept_label 1048576 = false /\\
  enc_med 4294967295 = [255; 255; 255; 255] /\\ enc_label 1048575 = [255; 255; 241] /\\
  enc_rd 65000 1 = [0; 0; 253; 232; 0; 0; 0; 1] /\\ dec_rd (enc_rd 70000 9) = (70000, 9).
Proof. vm_compute. repeat split. Qed.
''')
for n in names:
    Q.append(f'Print Assumptions {n}.')
open(out + '/Prop_C18.v', 'w').write('\n'.join(Q) + '\n')
