"""C05 - the session state machine only takes RFC 4271 transitions.  H-peer + property oracle.
(also the machinery of C10: harness/c10.py imports this module)

A script is a list of concrete stimuli for the real Peer on the rig of harness/hpeer.py.  For every
script: (1) correspondence: the observed trace (FSM transitions, writes, closes, API events, grouped
under the stimulus that caused them) equals what Model_Session.session_step predicts for the observed
stimulus sequence; (2) property oracle: the clauses of the property judged directly on the observed
trace, in python, with transport identities (and a second time by the checkers of Spec_Fsm evaluated
in Coq on the observed trace)."""

from __future__ import annotations

import concurrent.futures
import os
import random
import re
from collections import Counter

from harness import common
from harness.common import Run

ST_NAME = {1: 'IDLE', 2: 'ACTIVE', 4: 'CONNECT', 8: 'OPENSENT', 16: 'OPENCONFIRM', 32: 'ESTABLISHED'}
ST_IDX = {1: 0, 2: 1, 4: 2, 8: 3, 16: 4, 32: 5}
CONNECTED = {4, 8, 16, 32}

# RFC 4271 s8.2.2 (python copy of the table, written from the RFC; the Coq copy is Spec_Fsm.rfc_allowed)
RFC_ALLOWED = {
    1: {1, 4, 2},
    4: {4, 8, 16, 2, 1},
    2: {2, 4, 8, 16, 1},
    8: {8, 2, 16, 1},
    16: {16, 32, 1},
    32: {32, 1},
}

# concrete message kinds of the remote speaker: abstract kind code for the model (by the FSM state in which
# the message is consumed) and the NOTIFICATION the RFCs ask for (None: no session reset asked for)
K_OPENOK, K_KEEPALIVE, K_UPDATEOK, K_NOTIFICATION, K_REFRESH, K_OPERATIONAL, K_UNKNOWN = 0, 1, 2, 3, 4, 5, 6


def k_openbad(x):
    return 100 + x


def k_updatebad(x):
    return 200 + x


def k_refreshbad(x):
    return 300 + x


def k_headererr(x):
    return 400 + x


RECV_KINDS = [
    'OpenOk', 'OpenOkLow', 'OpenBadVersion', 'OpenBadAs', 'OpenBadId', 'OpenBadHold', 'OpenBadParam', 'Keepalive',
    'UpdateOk', 'Eor', 'UpdateBadAttrLen', 'UpdateBadWdLen', 'UpdateBadOriginFlag', 'UpdateBadOriginLen',
    'UpdateBadOriginVal', 'UpdateMissing', 'UpdateBadNlri', 'UpdateBadAsPath', 'Notification', 'NotificationShort',
    'Refresh', 'RefreshBadSubtype', 'Operational', 'UnknownType', 'HeaderBadMarker', 'HeaderShortLen',
    'HeaderLongLen', 'HeaderKaLen',
]


_DECODER_SUB = {}


def decoder_subcode(kind):
    """the subcode the OPEN decoder raises for this malformed OPEN (the event `OpenBad x` carries the decoder's
    subcode; whether it is the RFC one is judged by rfc_answer, not here)"""
    if kind not in _DECODER_SUB:
        from harness import hpeer
        from exabgp.bgp.message import Message, Notify
        from exabgp.bgp.message.direction import Direction
        from exabgp.bgp.message.open.capability.negotiated import Negotiated
        from exabgp.bgp.neighbor import Neighbor

        raw = hpeer.wire(kind)
        try:
            Message.unpack(raw[18], raw[19:], Negotiated.make_negotiated(Neighbor.EMPTY, Direction.IN))
            _DECODER_SUB[kind] = None
        except Notify as n:
            _DECODER_SUB[kind] = int(n.subcode)
    return _DECODER_SUB[kind]


def is_open_ok(kind):
    """a valid OPEN of the remote speaker, whatever hold time it proposes (OpenOkHold<n>: RFC 4271 4.2, 0 or >= 3)"""
    return kind in ('OpenOk', 'OpenOkLow', 'OpenOkExt') or str(kind).startswith('OpenOkHold')


def abstract_kind(kind, st):
    """concrete kind consumed in FSM state st -> kind code of the model"""
    if is_open_ok(kind):
        return K_OPENOK
    if kind.startswith('UpdateBig'):
        return K_UPDATEOK
    if kind == 'HeaderOver4097':
        return k_headererr(2)
    if kind in ('OpenBadVersion', 'OpenBadParam'):
        return k_openbad(decoder_subcode(kind))  # refused by the OPEN decoder itself, in every state
    if kind in ('OpenBadAs', 'OpenBadId', 'OpenBadHold'):
        # checked by Negotiated.validate, i.e. only for the OPEN awaited in OPENSENT
        return k_openbad({'OpenBadAs': 2, 'OpenBadId': 3, 'OpenBadHold': 6}[kind]) if st == 8 else K_OPENOK
    if kind == 'Keepalive':
        return K_KEEPALIVE
    if kind in ('UpdateOk', 'Eor', 'UpdateBadOriginFlag', 'UpdateBadOriginLen', 'UpdateBadOriginVal', 'UpdateMissing', 'UpdateBadAsPath'):
        return K_UPDATEOK  # RFC 7606: treat-as-withdraw / discard, no session reset
    if kind in ('UpdateBadAttrLen', 'UpdateBadWdLen'):
        return k_updatebad(1)
    if kind == 'UpdateBadNlri':
        return k_updatebad(10)
    if kind in ('Notification', 'NotificationShort'):
        return K_NOTIFICATION
    if kind == 'Refresh':
        return K_REFRESH
    if kind == 'RefreshBadSubtype':
        return k_refreshbad(2)
    if kind == 'Operational':
        return K_OPERATIONAL
    if kind == 'UnknownType':
        return K_UNKNOWN
    if kind == 'HeaderBadMarker':
        return k_headererr(1)
    if kind in ('HeaderShortLen', 'HeaderLongLen', 'HeaderKaLen'):
        return k_headererr(2)
    raise KeyError(kind)


def rfc_answer(kind, st):
    """the set of NOTIFICATION (code, subcode) the RFCs allow as the answer to `kind` consumed in state st
    when the session is ended because of it; subcode None = any.  Written from RFC 4271 s6 / 6608 / 7313,
    not from the implementation."""
    if kind.startswith('Notification'):
        return set()  # a received NOTIFICATION is never answered
    # s6.1: the header is checked first, in every state
    if kind == 'HeaderBadMarker':
        return {(1, 1)}
    if kind in ('HeaderShortLen', 'HeaderLongLen', 'HeaderKaLen', 'HeaderOver4097'):
        return {(1, 2)}
    if kind == 'UnknownType':
        return {(1, 3)}
    own = {
        'OpenBadVersion': (2, 1), 'OpenBadAs': (2, 2), 'OpenBadId': (2, 3), 'OpenBadHold': (2, 6),
        'OpenBadParam': (2, 4),  # RFC 4271 s6.2 Unsupported Optional Parameter
        'UpdateBadAttrLen': (3, 1), 'UpdateBadWdLen': (3, 1), 'UpdateBadNlri': (3, 10),
        'RefreshBadSubtype': (7, None),
    }.get(kind)
    if kind.startswith('Open'):
        ty = 'OPEN'
    elif kind.startswith('Update') or kind == 'Eor':
        ty = 'UPDATE'
    elif kind.startswith('Refresh'):
        ty = 'REFRESH'
    else:
        ty = kind.upper()
    expected = {8: {'OPEN'}, 16: {'KEEPALIVE'}, 32: {'UPDATE', 'KEEPALIVE', 'REFRESH'}}.get(st, set())
    out = {own} if own else set()
    if ty not in expected:
        # RFC 6608: a message that is not expected in this state
        unexp = {8: (5, 1), 16: (5, 2), 32: (5, 3)}.get(st)
        if unexp:
            out.add(unexp)
        if ty == 'OPERATIONAL':
            out.add((1, 3))  # a type that was not negotiated
    return out


# ------------------------------------------------------------------------------- scripts

CONT = [['tick', 1.0], ['connect_ok', None], ['recv', 'OpenOk'], ['recv', 'Keepalive'], ['tick', 1.0]]
EST = [['connect_ok', None], ['recv', 'OpenOk'], ['recv', 'Keepalive']]
PREFIX = {
    'W0': [],
    'CN': [['tick', 0.3]],
    'RO': [['connect_ok', None]],
    'RK': [['connect_ok', None], ['recv', 'OpenOk']],
    'RKlow': [['connect_ok', None], ['recv', 'OpenOkLow']],
    'M0': EST[:2] + [['recv', 'Keepalive', 0.05]],
    'MN': EST + [['tick', 0.6]],
    'Wb': [['connect_ok', None], ['recv', 'Notification'], ['connect_ok', None], ['recv', 'Notification', 0.05]],
    'Wacc': [['connect_ok', None], ['recv', 'Notification'], ['connect_ok', None], ['recv', 'Notification', 0.05], ['incoming', None, 0.05]],
    'CNacc': [['tick', 0.3], ['incoming', None]],
    'ROdead': [['connect_ok', None], ['incoming', None]],
    'RKdead': [['connect_ok', None], ['recv', 'OpenOk'], ['incoming', None]],
    'ROrm': [['connect_ok', None], ['remove', None]],
    'ST': EST + [['tick', 0.6], ['remove', None]],
    'MNq': EST + [['tick', 0.6], ['refresh', None, 0.02]],
}
STIMULI = (
    [['recv', k] for k in RECV_KINDS]
    + [['eof', None], ['sockerr', None], ['incoming', None], ['connect_ok', None], ['connect_fail', None], ['tick', 0.3],
       ['silence', 70], ['silence', 200], ['teardown', 2], ['teardown', 4], ['reestablish', None], ['reload', None],
       ['remove', None], ['shutdown', None], ['refresh', None], ['upfail', None]]
)


def systematic():
    cases = []
    for pname, pfx in PREFIX.items():
        for stim in STIMULI:
            for fast in (False, True):
                if fast and pname not in ('M0', 'MN', 'MNq', 'Wb', 'Wacc', 'RK'):
                    continue
                s = list(stim) + ([0.05] if fast else [])
                cases.append({'name': f'{pname}+{stim[0]}:{stim[1]}' + ('/fast' if fast else ''), 'steps': [list(x) for x in pfx] + [s] + CONT})
    # named scenarios (D13 and variants, long silences)
    cases.append({'name': 'D13', 'steps': [['connect_ok', None], ['incoming', None], ['recv', 'OpenOk'], ['recv', 'Keepalive'], ['silence', 70]]})
    cases.append({'name': 'D13-openconfirm', 'steps': [['connect_ok', None], ['recv', 'OpenOk'], ['incoming', None], ['recv', 'OpenOk'], ['recv', 'Keepalive'], ['silence', 400]]})
    cases.append({'name': 'openconfirm-low-id-incoming', 'steps': [['connect_ok', None], ['recv', 'OpenOkLow'], ['incoming', None], ['recv', 'Keepalive'], ['tick', 1.0]]})
    cases.append({'name': 'openconfirm-silence', 'steps': [['connect_ok', None], ['recv', 'OpenOk'], ['silence', 400]]})
    # the peer proposes another hold time than ours (180): 0 = no hold timer and no periodic KEEPALIVE at all (RFC 4271 4.2),
    # a small one = the smaller counts; every silence here is shorter than both, so no timer event is due
    cases.append({'name': 'hold-zero', 'steps': [['connect_ok', None], ['recv', 'OpenOkHold0'], ['silence', 1.0], ['recv', 'Keepalive'],
                                                 ['silence', 120], ['recv', 'UpdateOk'], ['tick', 1.0]]})
    cases.append({'name': 'hold-zero-passive', 'steps': PREFIX['Wacc'] + [['recv', 'OpenOkHold0'], ['recv', 'Keepalive'], ['silence', 60], ['recv', 'UpdateOk'], ['tick', 1.0]]})
    cases.append({'name': 'hold-nine', 'steps': [['connect_ok', None], ['recv', 'OpenOkHold9'], ['silence', 2.0], ['recv', 'Keepalive'],
                                                 ['silence', 5.0], ['recv', 'UpdateOk'], ['tick', 1.0]]})
    cases.append({'name': 'passive-accept', 'steps': PREFIX['Wacc'] + [['recv', 'OpenOk'], ['recv', 'Keepalive'], ['tick', 1.0], ['recv', 'UpdateOk'], ['teardown', 6], ['tick', 1.0]]})
    return cases


def interleaved():
    """scripts around the read in progress and the end of an iteration (in the correspondence since Model_Session has
    `pend`, `ho`, MP and the events RecvPart / Handover / LoopPause / LoopExit):
    (a) one message delivered in two or three pieces separated by pauses below and above the 100 ms read wait,
        with a reload (same neighbor, other routes) / API command / teardown falling INSIDE the pause;
    (b) two sessions: the first is torn down while octets of the peer arrive after the read wait returned and
        before the loop leaves; the second is fault-free: nothing of the first may be answered on it."""
    from harness import hpeer

    cases = []
    tail = [['recv', 'Keepalive'], ['recv', 'UpdateOk'], ['tick', 1.0]]
    inside = {'none': [], 'reload': [['reload', None]], 'refresh': [['refresh', None]], 'teardown': [['teardown', 4]],
              'reload+refresh': [['reload', None, 0.03], ['refresh', None]]}
    for kind in ('UpdateOk', 'Eor', 'Keepalive', 'Refresh', 'HeaderBadMarker', 'UpdateBadNlri', 'Notification'):
        n = len(hpeer.wire(kind))
        cutsets = [c for c in ([7], [19], [30], [n - 1], [7, 25]) if all(0 < x < n for x in c)]
        for cuts in cutsets:
            for gap in (0.04, 0.25):
                for iname, istim in inside.items():
                    steps = [list(x) for x in EST] + [['tick', 0.6]]
                    edges = [0] + cuts + [-1]
                    for k in range(len(edges) - 1):
                        last = k == len(edges) - 2
                        steps.append(['recv_part', [kind, edges[k], edges[k + 1]], 0.3 if last else gap])
                        if k == 0:
                            for st in istim:
                                steps.append(list(st) + ([] if len(st) > 2 else [gap]))
                    valid = kind in ('UpdateOk', 'Eor', 'Keepalive', 'Refresh') and iname != 'teardown'
                    cases.append({'name': f'split:{kind}:{cuts}:{gap}:{iname}', 'expect_up': valid,
                                  'steps': steps + (tail if valid else [['tick', 1.0]])})
    # the same in OPENSENT / OPENCONFIRM (handshake messages arriving in pieces)
    for gap in (0.04, 0.25):
        cases.append({'name': f'split:handshake:{gap}', 'expect_up': True,
                      'steps': [['connect_ok', None], ['recv_part', ['OpenOk', 0, 11], gap], ['recv_part', ['OpenOk', 11, -1]],
                                ['recv_part', ['Keepalive', 0, 18], gap], ['recv_part', ['Keepalive', 18, -1]], ['tick', 1.0]] + tail})
    session2 = [['connect_ok', None], ['recv', 'OpenOk'], ['recv', 'Keepalive'], ['tick', 1.0], ['recv', 'UpdateOk'], ['recv', 'Keepalive'], ['tick', 1.0]]
    for kind in ('HeaderBadMarker', 'HeaderShortLen', 'UnknownType', 'Notification', 'UpdateBadNlri', 'OpenBadVersion', 'Keepalive'):
        for code in (2, 4):
            cases.append({'name': f'two-sessions:teardown-race:{kind}:{code}', 'expect_up': True,
                          'steps': [list(x) for x in EST] + [['tick', 0.6], ['teardown_race', [code, kind], 0.5]] + session2})
    return cases


def apifail_cases():
    """ORACLE-ONLY scripts (Model_Session has no event for a failing API helper: which of the many calls into
    reactor.processes fails decides where the implementation stops; the traces are judged by the property oracle):
    the neighbor subscribes to fsm, neighbor-changes, negotiated and every receive-/send- message event, and the
    recording Processes raises ProcessError ONCE at a chosen callback - while the session is being set up, and
    during every kind of teardown in every connected state."""
    cases = []
    enders = {
        'RO': [['recv', 'HeaderBadMarker'], ['recv', 'OpenBadVersion'], ['recv', 'OpenBadAs'], ['recv', 'Keepalive'], ['recv', 'Notification'],
               ['silence', 70], ['eof', None], ['teardown', 4], ['incoming', None], ['remove', None]],
        'RK': [['recv', 'HeaderShortLen'], ['recv', 'UpdateOk'], ['recv', 'Notification'], ['silence', 200], ['eof', None], ['teardown', 4],
               ['incoming', None], ['recv', 'Keepalive']],
        'MN': [['recv', 'UnknownType'], ['recv', 'UpdateBadNlri'], ['recv', 'OpenBadVersion'], ['recv', 'Notification'], ['silence', 200],
               ['eof', None], ['sockerr', None], ['teardown', 4], ['reestablish', None], ['remove', None], ['recv', 'UpdateOk'], ['refresh', None]],
        'Wacc': [['tick', 0.3]],
        'CN': [['connect_ok', None], ['connect_fail', None], ['incoming', None]],
    }
    for pname, stims in enders.items():
        for stim in stims:
            for cb in ('fsm_idle', 'fsm', 'down', 'up', 'connected', 'message'):
                steps = [list(x) for x in PREFIX[pname]] + [['apifail', cb], list(stim)] + CONT + [['recv', 'UpdateOk'], ['tick', 1.0]]
                cases.append({'name': f'apifail:{pname}:{stim[0]}:{stim[1]}:{cb}', 'api': True, 'oracle_only': True, 'steps': steps})
    # the failure while the session is being set up
    for k in range(1, 4):
        for cb in ('fsm', 'up', 'connected', 'message', 'down'):
            steps = [list(x) for x in EST[:k - 1]] + [['apifail', cb]] + [list(x) for x in EST[k - 1:]] + [['tick', 1.0]] + CONT
            cases.append({'name': f'apifail:setup{k}:{cb}', 'api': True, 'oracle_only': True, 'steps': steps})
    # the same subscriptions without any failure (the events themselves must change nothing)
    cases.append({'name': 'api-subscriptions-only', 'api': True, 'expect_up': True, 'steps': [list(x) for x in EST] + [['tick', 1.0], ['recv', 'UpdateOk'], ['recv', 'Keepalive'], ['tick', 1.0]]})
    return cases


def msgsize_cases():
    """the negotiated message size (RFC 8654) as the session applies it: both sides announce Extended Message and the
    peer sends valid UPDATEs of 5000 and 65535 octets; or it is not negotiated and 4096 passes, 4097 is answered 1/2.
    In normal mode (OPEN sent first) the scripts are in the correspondence; with `local-as auto` (the peer's OPEN is read
    first, ours is sent after it) they are ORACLE-ONLY: Model_Session models the order of a configured local AS."""
    cases = []
    big = [['recv', 'Keepalive'], ['recv', 'UpdateBig5000'], ['recv', 'Keepalive'], ['recv', 'UpdateBig65535'], ['recv', 'UpdateOk'], ['recv', 'UpdateBig4097'], ['tick', 1.0]]
    small = [['recv', 'Keepalive'], ['recv', 'UpdateBig4096'], ['recv', 'UpdateOk'], ['tick', 1.0]]
    over = [['recv', 'Keepalive'], ['recv', 'UpdateBig4096'], ['recv', 'HeaderOver4097'], ['tick', 1.0]]
    for conf in ('ext', 'auto'):
        oo = conf == 'auto'
        for start_name, start in (('outgoing', [['connect_ok', None]]), ('accepted', [['incoming', None, 0.3]])):
            est_ext = start + [['recv', 'OpenOkExt'], ['recv', 'Keepalive'], ['tick', 0.6]]
            est_no = start + [['recv', 'OpenOk'], ['recv', 'Keepalive'], ['tick', 0.6]]
            cases.append({'name': f'msgsize:{conf}:{start_name}:extended:big', 'conf': conf, 'oracle_only': oo, 'expect_up': True, 'steps': est_ext + big})
            cases.append({'name': f'msgsize:{conf}:{start_name}:extended:split', 'conf': conf, 'oracle_only': oo, 'expect_up': True,
                          'steps': est_ext + [['recv_part', ['UpdateBig5000', 0, 4096], 0.25], ['recv_part', ['UpdateBig5000', 4096, -1]], ['recv', 'Keepalive'], ['tick', 1.0]]})
            cases.append({'name': f'msgsize:{conf}:{start_name}:plain:4096', 'conf': conf, 'oracle_only': oo, 'expect_up': True, 'steps': est_no + small})
            cases.append({'name': f'msgsize:{conf}:{start_name}:plain:4097', 'conf': conf, 'oracle_only': oo, 'steps': est_no + over})
    return cases


def random_case(rng, maxlen):
    n = rng.randint(3, maxlen)
    steps = []
    if rng.random() < 0.8:
        steps += [list(x) for x in rng.choice([EST, EST[:2], EST[:1], PREFIX['Wb'], PREFIX['Wacc']])]
    weights = [
        ('recv', 10), ('connect_ok', 4), ('connect_fail', 1), ('incoming', 3), ('tick', 3), ('eof', 1), ('sockerr', 1),
        ('silence', 1), ('teardown', 2), ('reestablish', 1), ('reload', 1), ('remove', 1), ('refresh', 2), ('upfail', 1),
    ]
    names = [w for w, _ in weights]
    ws = [k for _, k in weights]
    good = ['OpenOk', 'Keepalive', 'UpdateOk', 'Eor', 'Refresh', 'OpenOkLow']
    for _ in range(n):
        what = rng.choices(names, ws)[0]
        if what == 'recv':
            arg = rng.choice(good) if rng.random() < 0.6 else rng.choice(RECV_KINDS)
        elif what == 'tick':
            arg = rng.choice([0.05, 0.3, 1.0, 3.0])
        elif what == 'silence':
            arg = rng.choice([70, 200])
        elif what == 'teardown':
            arg = rng.randint(1, 8)
        else:
            arg = None
        gap = rng.choice([0.05, 0.05, 0.3, 0.5, 1.3])
        steps.append([what, arg, gap])
    return {'name': 'random', 'steps': steps}


# ------------------------------------------------------------------------------- running the implementation


def _worker(case):
    import signal

    from harness import hpeer

    def too_long(signum, frame):
        raise TimeoutError('script ran for more than 120 s of wall-clock time')

    signal.signal(signal.SIGALRM, too_long)
    signal.alarm(120)
    try:
        res = hpeer.run_script(case['steps'], conf=case.get('conf', 'base'), api_subs=bool(case.get('api')))
        return res
    except BaseException as exc:  # a crash of the rig itself is a harness failure, reported as such
        import traceback

        return {'error': f'{type(exc).__name__}: {exc}', 'tb': traceback.format_exc()[-1500:]}
    finally:
        signal.alarm(0)


def run_all(cases, workers=12):
    with concurrent.futures.ProcessPoolExecutor(max_workers=workers) as ex:
        return list(ex.map(_worker, cases, chunksize=8))


# ------------------------------------------------------------------------------- abstraction of the observed trace

EV_TAG = {
    'Tick': 0, 'ConnectOk': 1, 'ConnectFail': 2, 'Incoming': 3, 'Recv': 4, 'Eof': 5, 'SockErr': 6, 'HoldExpire': 7,
    'OpenWaitExpire': 8, 'Teardown': 9, 'Reconfigure': 10, 'Reestablish': 10, 'Remove': 10, 'Shutdown': 10,
    'ApiRefresh': 11, 'ProcessBroken': 12, 'RecvPart': 13, 'Handover': 14, 'LoopPause': 15, 'LoopExit': 16,
}
RELOAD_ARG = {'Reconfigure': 0, 'Reestablish': 1, 'Remove': 2, 'Shutdown': 2}
W_CODE = {'OPEN': 2001, 'KEEPALIVE': 2002, 'UPDATE': 2003, 'EOR': 2004, 'REFRESH': 2005}


def fsm_code(a, b):
    return 1000 + 10 * ST_IDX[a] + ST_IDX[b]


def abstract(log):
    """-> (steps, notes): steps = [[tag, arg], [action codes]] ; notes = Counter of observations
    Action codes: Fsm 10ab, Write 2001..2005 / 3000+100c+s, CloseTransport 4001, CloseOrphan 4002,
    ApiUp 5001, ApiDown 5002, ApiConnected 5003."""
    steps = []
    notes = Counter()
    owned = None
    orphans = set()
    rid_ge = True
    cur = None
    problems = []
    for e in log:
        if e[0] == 'ev':
            name, arg, st = e[1], e[2], e[3]
            if name == 'Recv':
                ev = [4, abstract_kind(arg, st)]
                if is_open_ok(arg) and st == 8:
                    rid_ge = arg != 'OpenOkLow'
            elif name == 'Incoming':
                ev = [3, 1 if rid_ge else 0]
            elif name == 'Teardown':
                ev = [9, arg]
            elif name in RELOAD_ARG:
                ev = [10, RELOAD_ARG[name]]
            else:
                ev = [EV_TAG[name], 0]
            cur = [ev, []]
            steps.append(cur)
            continue
        if e[0] == 'deadlock':
            problems.append('virtual loop deadlock')
            continue
        if e[0] == 'dropped':
            continue  # judged by the oracle (a partly received message given up while the transport stays open)
        if cur is None:
            problems.append(f'effect before any stimulus: {e}')
            cur = [[0, 0], []]
            steps.append(cur)
        if e[0] == 'fsm':
            cur[1].append(fsm_code(e[1], e[2]))
        elif e[0] == 'w':
            _, tid, kind, c, s, st = e
            if kind == 'KEEPALIVE' and st == 32:
                notes['keepalive sent by the timer in ESTABLISHED (not part of the model, C12)'] += 1
                continue
            if tid != owned:
                problems.append(f'write of {kind} on transport {tid} which is not the session transport ({owned})')
            if kind == 'NOTIFICATION':
                cur[1].append(3000 + 100 * c + s)
            elif kind in W_CODE:
                if kind == 'UPDATE' and cur[1] and cur[1][-1] == W_CODE['UPDATE']:
                    # how many UPDATEs carry the pending routes is the RIB's business (C04/C09): a run of
                    # UPDATE writes is one `Write UPDATE` of the control model
                    notes['consecutive UPDATE writes collapsed into one action'] += 1
                    continue
                cur[1].append(W_CODE[kind])
            else:
                problems.append(f'unclassified write {kind}')
        elif e[0] == 'close':
            _, tid, how = e
            if tid == owned:
                cur[1].append(4001)
                owned = None
                if how == 'gc':
                    notes['session transport closed by the finaliser only'] += 1
            elif tid in orphans:
                cur[1].append(4002)
                orphans.discard(tid)
            else:
                notes[f'refused incoming connection: no NOTIFICATION 6/7 written, closed by {how}'] += 1
        elif e[0] == 'api':
            if e[1] == 'connected':
                if owned is not None:
                    orphans.add(owned)
                owned = e[2]
                cur[1].append(5003)
            elif e[1] == 'up':
                cur[1].append(5001)
            elif e[1] == 'down':
                cur[1].append(5002)
            elif e[1] == 'up-failed':
                notes['Processes.up raised ProcessError'] += 1
    return steps, notes, problems


# ------------------------------------------------------------------------------- python oracle (on the raw log, with transport ids)


def oracle(log, res, which=('C05', 'C10')):
    """-> list of (sig, what).  Judges the property text on the observed trace; independent of the model."""
    bad = []
    fsm = 1
    owned = None
    tinfo = {}  # tid -> dict(open_sent, open_rcvd, ka_rcvd, notified, closed)
    up = False
    td = False
    pb = False
    # split in steps
    steps = []
    for e in log:
        if e[0] == 'ev':
            steps.append([e, []])
        elif steps:
            steps[-1][1].append(e)
    for ev, effs in steps:
        name, arg, st0 = ev[1], ev[2], ev[3]
        fsm0 = fsm
        owned0 = owned
        if name in ('Teardown', 'Reestablish', 'Remove', 'Shutdown'):
            td = True
        if name == 'ProcessBroken':
            pb = True
        if name == 'Recv' and owned is not None:
            # (OPENSENT; CONNECT when the local AS is mirrored: the peer's OPEN is read before ours is sent)
            if is_open_ok(arg) and st0 in (4, 8):
                tinfo[owned]['open_rcvd'] = True
            if arg == 'Keepalive' and tinfo[owned]['open_rcvd']:
                tinfo[owned]['ka_rcvd'] = True
        td0, pb0 = td, pb
        api_failed = [e for e in effs if e[0] == 'api' and e[1] == 'failed']
        if api_failed:
            pb0 = True  # the helper was lost in this step: Cease 6/0 (internal error) is a right answer
        left = False
        dropped = []
        notifs = []
        wrote = []
        must_close = None
        for e in effs:
            if e[0] == 'fsm':
                a, b = e[1], e[2]
                if a != fsm:
                    bad.append((f'C05:fsm-chain:{ST_NAME[a]}', f'FSM.change called in state {ST_NAME[a]} while the trace says {ST_NAME[fsm]}'))
                if b not in RFC_ALLOWED[a]:
                    bad.append((f'C05:transition:{ST_NAME[a]}->{ST_NAME[b]}', f'{ST_NAME[a]} -> {ST_NAME[b]} is not an RFC 4271 transition'))
                if b == 32:
                    t = tinfo.get(owned)
                    if not (t and t['open_sent'] and t['open_rcvd'] and t['ka_rcvd']):
                        bad.append(('C05:established-without-handshake', f'ESTABLISHED reached on transport {owned} with {t}'))
                if a in CONNECTED and b not in CONNECTED:
                    left = True
                    if owned is not None and not tinfo[owned]['closed']:
                        must_close = owned
                fsm = b
            elif e[0] == 'w':
                _, tid, kind, c, s, stw = e
                wrote.append(e)
                t = tinfo.get(tid)
                if t is None or tid != owned:
                    bad.append((f'C05:write-on-foreign-transport:{kind}', f'{kind} written on transport {tid}, session transport is {owned}'))
                    t = tinfo.setdefault(tid, dict(open_sent=False, open_rcvd=False, ka_rcvd=False, notified=False, closed=False))
                if t['notified']:
                    bad.append((f'C10:write-after-notification:{kind}', f'{kind} written on transport {tid} after a NOTIFICATION'))
                if kind in ('UPDATE', 'EOR', 'REFRESH') and stw != 32:
                    bad.append((f'C05:{kind}-outside-established:{ST_NAME[stw]}', f'{kind} written in state {ST_NAME[stw]}'))
                if kind == 'OPEN':
                    t['open_sent'] = True
                if kind == 'NOTIFICATION':
                    t['notified'] = True
                    notifs.append((tid, c, s, stw))
                    if c == 6:
                        td = False
            elif e[0] == 'dropped':
                dropped.append(e[1])
            elif e[0] == 'close':
                tid = e[1]
                if tid in tinfo:
                    tinfo[tid]['closed'] = True
                dropped[:] = [t for t in dropped if t != tid]
                if tid == owned:
                    owned = None
                if tid == must_close:
                    must_close = None
            elif e[0] == 'api':
                if e[1] == 'connected':
                    if must_close is not None:
                        bad.append((f'C05:left-{ST_NAME[fsm0]}-transport-open', f'transport {must_close} still open when transport {e[2]} is taken'))
                        must_close = None
                    if owned is not None and tinfo[owned]['notified'] and not tinfo[owned]['closed']:
                        bad.append(('C10:notified-transport-not-closed', f'transport {owned} not closed after its NOTIFICATION'))
                    owned = e[2]
                    tinfo[owned] = dict(open_sent=False, open_rcvd=False, ka_rcvd=False, notified=False, closed=False)
                elif e[1] == 'up':
                    if up:
                        bad.append(('C05:up-twice', 'API up twice without a down in between'))
                    up = True
                elif e[1] == 'down' or (e[1] == 'failed' and e[2] == 'down'):
                    up = False  # (a `down` lost with the helper that died: the respawned helper starts from scratch)
        for tid in dropped:
            bad.append((f'C10:partial-read-discarded:{ST_NAME[fsm0]}:{name}',
                        f'the read in progress on transport {tid} was given up after {name} while it held part of a message, and the transport stays open: the rest of the message will be read as a header'))
        if must_close is not None:
            bad.append((f'C05:left-{ST_NAME[fsm0]}-transport-open', f'transport {must_close} still open after leaving {ST_NAME[fsm0]} ({name} {arg})'))
        for tid, t in tinfo.items():
            if t['notified'] and not t['closed']:
                bad.append(('C10:notified-transport-not-closed', f'transport {tid} not closed in the step of its NOTIFICATION'))
                t['closed'] = True  # report once
        if len(notifs) > 1:
            bad.append(('C10:two-notifications', f'{notifs}'))
        evname = f'{name}-{arg}' if name == 'Recv' else name
        # (a Cease for a teardown requested BEFORE the peer's NOTIFICATION was looked at is not an answer: the two crossed)
        if name == 'Recv' and arg in ('Notification', 'NotificationShort') and [n for n in notifs if not ((td0 and n[1] == 6) or (pb0 and n[1:3] == (6, 0)))]:
            bad.append((f'C10:notification-answered:{ST_NAME[fsm0]}', f'a received NOTIFICATION was answered with {notifs}'))
        # a session ended by a received message or a timer must be told why
        if (name == 'Recv' and arg not in ('Notification', 'NotificationShort')) or name in ('HoldExpire', 'OpenWaitExpire'):
            # (a session ended by the loss of the API helper is not ended by what was received)
            if left and not notifs and not api_failed:
                bad.append((f'C10:reset-without-notification:{ST_NAME[fsm0]}:{evname}', f'{evname} in {ST_NAME[fsm0]} ended the session and nothing was written'))
        # the NOTIFICATION names the error class
        for tid, c, s, stw in notifs:
            allowed = set()
            if td0:
                allowed.add((6, None))
            if pb0:
                allowed.add((6, 0))
            if fsm0 in CONNECTED:
                if name == 'Recv':
                    allowed |= rfc_answer(arg, fsm0)
                elif name == 'HoldExpire':
                    allowed.add((4, 0))
                    if isinstance(arg, list) and len(arg) == 2 and 'C10' in which:
                        H, quiet = arg
                        # RFC 4271 4.2 / 6.5: no hold timer with a negotiated hold time of 0; otherwise it fires after H
                        # seconds without a message (integer clock: 1 s, and the message is read after it was handed over)
                        # only the unconditional half is judged here: "early" would need the silence on the transport of THIS
                        # session (collisions feed other transports); early firing is C12's H-peer scenarios
                        if H == 0:
                            bad.append((f'C10:hold-timer-fired-early:{ST_NAME[fsm0]}:hold={H}',
                                        f'the hold timer fired (4/0) with a negotiated hold time of {H} s, {quiet} s after the last message of the peer'))
                elif name == 'OpenWaitExpire' and fsm0 == 8:
                    allowed |= {(4, 0), (5, 1)}  # C12: ExaBGP's open wait ends with 5/1 by specification
            ok = (c, s) in allowed or (c, None) in allowed
            if not ok:
                if fsm0 not in CONNECTED:
                    bad.append((f'C10:notification-without-cause:{ST_NAME[fsm0]}:{evname}:{c}/{s}',
                                f'NOTIFICATION {c}/{s} written on transport {tid} in state {ST_NAME[fsm0]} after {evname}: nothing happened on that transport that calls for it'))
                else:
                    want = ','.join(f'{a}/{"x" if b is None else b}' for a, b in sorted(allowed, key=str)) or 'none'
                    bad.append((f'C10:wrong-notification:{ST_NAME[fsm0]}:{evname}:got={c}/{s}:want={want}', f'{evname} in {ST_NAME[fsm0]} answered with {c}/{s}, the RFC class is {want}'))
            if tid != owned0 and owned0 is not None:
                bad.append(('C10:notification-on-other-transport', f'NOTIFICATION written on {tid}, the session transport was {owned0}'))
    # the peer task must not be left waiting for ever on a transport it closed itself while it owns another
    for tid, age in res.get('wedged', []):
        if age >= 250 and res.get('owned_open'):
            bad.append((f'C05:accepted-transport-never-served:{ST_NAME.get(_state_when_closed(log, tid), "?")}',
                        f'transport {res["owned_open"]} was accepted {age} s ago, the peer task still waits on transport {tid} which it closed; nothing was written on or read from the accepted transport and it is not closed'))
    return [b for b in bad if b[0].split(':')[0] in which]


def expectations(case, res, which):
    """what a script promises by construction: `expect_up` - every message of the remote speaker is valid (or the
    faults were all on an EARLIER transport) and nothing asks ExaBGP to end the last session: it must be up at
    the end, and nothing may have ended it on the way"""
    out = []
    if case.get('expect_up') and 'C10' in which:
        skipped = set(res.get('skipped', []))
        # a shrunk script that lost its handshake promises nothing (steps skipped AFTER the session was ended do not matter)
        def kind_of(st):
            return st[1] if st[0] == 'recv' else (st[1][0] if st[0] == 'recv_part' else None)

        delivered = [kind_of(st) for k, st in enumerate(case['steps']) if k not in skipped]
        if res.get('final_fsm') != 32 and 'Keepalive' in delivered and any(str(k).startswith('OpenOk') for k in delivered):
            last = [e for e in res['log'] if e[0] == 'w' and e[2] == 'NOTIFICATION']
            said = f'{last[-1][3]}/{last[-1][4]}' if last else 'nothing'
            out.append((f'C10:fault-free-session-ended:{said}',
                        f'the last session received only valid messages and no request to stop, it is in {ST_NAME.get(res.get("final_fsm"))} at the end; last NOTIFICATION written: {said}'))
    return out


def _state_when_closed(log, tid):
    """the FSM state that was left by the _close which closed transport tid"""
    left = 1
    for e in log:
        if e[0] == 'fsm':
            left = e[1]
        if e[0] == 'close' and e[1] == tid:
            return left
    return left


# ------------------------------------------------------------------------------- model + spec evaluation in Coq

HEADER = """From Coq Require Import ZArith Bool List.
From ExaV Require Import gen.Gen_Fsm spec.Spec_Fsm model.Model_Session.
Import ListNotations. Open Scope Z_scope.
Definition st_of (i : Z) : fstate :=
  if i =? 0 then Idle else if i =? 1 then Active else if i =? 2 then Connect else if i =? 3 then OpenSent
  else if i =? 4 then OpenConfirm else Established.
Definition idx (a : fstate) : Z :=
  match a with Idle => 0 | Active => 1 | Connect => 2 | OpenSent => 3 | OpenConfirm => 4 | Established => 5 end.
Definition kind_of (k : Z) : rkind :=
  if k =? 0 then OpenOk else if k =? 1 then Keepalive else if k =? 2 then UpdateOk else if k =? 3 then Notification
  else if k =? 4 then Refresh else if k =? 5 then Operational else if k =? 6 then UnknownType
  else if k <? 200 then OpenBad (k - 100) else if k <? 300 then UpdateBad (k - 200)
  else if k <? 400 then RefreshBad (k - 300) else HeaderErr (k - 400).
Definition ev_of (p : Z * Z) : event :=
  let (t, a) := p in
  if t =? 0 then Tick else if t =? 1 then ConnectOk else if t =? 2 then ConnectFail else if t =? 3 then Incoming (negb (a =? 0))
  else if t =? 4 then Recv (kind_of a) else if t =? 5 then Eof else if t =? 6 then SockErr else if t =? 7 then HoldExpire
  else if t =? 8 then OpenWaitExpire else if t =? 9 then Teardown a
  else if t =? 10 then Reload (if a =? 0 then Same else if a =? 1 then Changed else Removed)
  else if t =? 11 then ApiRefresh else if t =? 12 then ProcessBroken else if t =? 13 then RecvPart
  else if t =? 14 then Handover else if t =? 15 then LoopPause else LoopExit.
Definition act_z (a : action) : Z :=
  match a with
  | Fsm x y => 1000 + 10 * idx x + idx y
  | Write WOpen => 2001 | Write WKeepalive => 2002 | Write WUpdate => 2003 | Write WEor => 2004 | Write WRefresh => 2005
  | Write (WNotification c s) => 3000 + 100 * c + s
  | CloseTransport => 4001 | CloseOrphan => 4002 | ApiUp => 5001 | ApiDown => 5002 | ApiConnected => 5003
  end.
Definition act_of (z : Z) : action :=
  if z <? 2000 then Fsm (st_of ((z - 1000) / 10)) (st_of ((z - 1000) mod 10))
  else if z =? 2001 then Write WOpen else if z =? 2002 then Write WKeepalive else if z =? 2003 then Write WUpdate
  else if z =? 2004 then Write WEor else if z =? 2005 then Write WRefresh
  else if z <? 4000 then Write (WNotification ((z - 3000) / 100) ((z - 3000) mod 100))
  else if z =? 4001 then CloseTransport else if z =? 4002 then CloseOrphan
  else if z =? 5001 then ApiUp else if z =? 5002 then ApiDown else ApiConnected.
(* the model on the observed stimulus sequence -> predicted actions per stimulus *)
Definition predict (evs : list (Z * Z)) : list (list Z) :=
  map (fun x => map act_z (snd x)) (run init (map ev_of evs)).
(* the Spec checkers on the OBSERVED trace *)
Definition judge (t : list ((Z * Z) * list Z)) : list bool :=
  verdicts (map (fun x => (ev_of (fst x), map act_of (snd x))) t).
Definition in_alphabet (evs : list (Z * Z)) : bool :=
  forallb (fun p => existsb (fun e => match e, ev_of p with
     | Tick, Tick | ConnectOk, ConnectOk | ConnectFail, ConnectFail | Eof, Eof | SockErr, SockErr
     | HoldExpire, HoldExpire | OpenWaitExpire, OpenWaitExpire | ApiRefresh, ApiRefresh | ProcessBroken, ProcessBroken
     | RecvPart, RecvPart | Handover, Handover | LoopPause, LoopPause | LoopExit, LoopExit => true
     | Incoming a, Incoming b => Bool.eqb a b
     | Teardown a, Teardown b => a =? b
     | Reload Same, Reload Same | Reload Changed, Reload Changed | Reload Removed, Reload Removed => true
     | Recv a, Recv b => match a, b with
         | OpenOk, OpenOk | Keepalive, Keepalive | UpdateOk, UpdateOk | Notification, Notification | Refresh, Refresh
         | Operational, Operational | UnknownType, UnknownType => true
         | OpenBad x, OpenBad y | UpdateBad x, UpdateBad y | RefreshBad x, RefreshBad y | HeaderErr x, HeaderErr y => x =? y
         | _, _ => false end
     | _, _ => false end) alphabet) evs.
"""

CLAUSES = ['rfc-transitions', 'established-requires', 'update-only-in-established', 'close-on-leave', 'up-down-alternate',
           'notification-class', 'session-end-answered', 'no-reply-to-notification', 'silence-after-notification']


def zl(xs):
    return '[' + ';'.join(str(int(x)) for x in xs) + ']'


def coq_defs(shard):
    """shard: list of (index, steps)"""
    out = []
    for i, steps in shard:
        evs = '[' + ';'.join(f'({e[0]},{e[1]})' for e, _ in steps) + ']'
        tr = '[' + ';'.join(f'(({e[0]},{e[1]}),{zl(a)})' for e, a in steps) + ']'
        out.append(f'Definition evs{i} := {evs}.')
        out.append(f'Definition tr{i} : list ((Z * Z) * list Z) := {tr}.')
        out.append(f'Eval vm_compute in (predict evs{i}, judge tr{i}, in_alphabet evs{i}).')
    return '\n'.join(out)


def parse_result(s):
    """'([[1;2];[]], [true;false], true)' -> (list of lists, list of bools, bool)"""
    s = s.strip()
    m = re.match(r'^\((\[.*\]),\s*(\[[a-z;\s]*\]),\s*(true|false)\)$', s, re.S)
    if not m:
        raise ValueError(f'cannot parse Coq result: {s[:200]}')
    nested, bools, alpha = m.group(1), m.group(2), m.group(3)
    inner = nested.strip()[1:-1].strip()
    lists = []
    if inner:
        for part in re.findall(r'\[([^\[\]]*)\]', inner):
            lists.append([int(x) for x in re.findall(r'-?\d+', part)])
    return lists, [b == 'true' for b in re.findall(r'true|false', bools)], alpha == 'true'


def evaluate(run, items, tag, per=40):
    """items: list of (index, steps) -> dict index -> (predicted, verdicts, in_alphabet) ; obligation on failure"""
    shards = common.chunked(items, per)
    results = common.eval_cases(HEADER, coq_defs, shards, tag)
    out = {}
    ok = True
    detail = ''
    for shard, (rc, raw, parsed) in zip(shards, results):
        if rc != 0 or len(parsed) != len(shard):
            ok = False
            detail = raw[-1500:]
            continue
        for (i, _), p in zip(shard, parsed):
            try:
                out[i] = parse_result(p)
            except ValueError as exc:
                ok = False
                detail = str(exc)
    run.obligation(f'model and spec evaluated in Coq (vm_compute) on the observed stimulus sequences [{tag}]', ok, detail)
    return out


def act_name(z):
    inv = {0: 'IDLE', 1: 'ACTIVE', 2: 'CONNECT', 3: 'OPENSENT', 4: 'OPENCONFIRM', 5: 'ESTABLISHED'}
    if z < 2000:
        return f'Fsm {inv[(z - 1000) // 10]}->{inv[(z - 1000) % 10]}'
    if z < 3000:
        return 'Write ' + {2001: 'OPEN', 2002: 'KEEPALIVE', 2003: 'UPDATE', 2004: 'EOR', 2005: 'REFRESH'}[z]
    if z < 4000:
        return f'Write NOTIFICATION {(z - 3000) // 100}/{(z - 3000) % 100}'
    return {4001: 'CloseTransport', 4002: 'CloseOrphan', 5001: 'ApiUp', 5002: 'ApiDown', 5003: 'ApiConnected'}[z]


def ev_name(e):
    t, a = e
    names = {0: 'Tick', 1: 'ConnectOk', 2: 'ConnectFail', 5: 'Eof', 6: 'SockErr', 7: 'HoldExpire', 8: 'OpenWaitExpire', 11: 'ApiRefresh', 12: 'ProcessBroken',
             13: 'RecvPart', 14: 'Handover', 15: 'LoopPause', 16: 'LoopExit'}
    if t in names:
        return names[t]
    if t == 3:
        return f'Incoming(rid_ge={bool(a)})'
    if t == 4:
        base = {0: 'OpenOk', 1: 'Keepalive', 2: 'UpdateOk', 3: 'Notification', 4: 'Refresh', 5: 'Operational', 6: 'UnknownType'}
        if a in base:
            return 'Recv ' + base[a]
        return 'Recv ' + {1: 'OpenBad', 2: 'UpdateBad', 3: 'RefreshBad', 4: 'HeaderErr'}[a // 100] + f' {a % 100}'
    if t == 9:
        return f'Teardown {a}'
    return 'Reload ' + ['Same', 'Changed', 'Removed'][a]


# ------------------------------------------------------------------------------- shrinking


def shrink(case, fails):
    """greedy removal of steps while `fails(case)` keeps holding"""
    steps = list(case['steps'])
    changed = True
    while changed and len(steps) > 1:
        changed = False
        for i in range(len(steps)):
            cand = steps[:i] + steps[i + 1 :]
            if fails({'name': case['name'], 'steps': cand}):
                steps = cand
                changed = True
                break
    return {'name': case['name'], 'steps': steps}


# ------------------------------------------------------------------------------- the check


def campaign(run: Run, tier, seed, which, cases_override=None):
    """runs the scripts, the correspondence and the oracle; which = clauses reported as this property's"""
    rng = random.Random(seed)
    cases = systematic() if cases_override is None else cases_override
    n_random = (200 if tier == 'quick' else 6000) if cases_override is None else 0
    maxlen = 12 if tier == 'quick' else 30
    cases += [random_case(rng, maxlen) for _ in range(n_random)]
    if cases_override is None:
        cases += interleaved() + apifail_cases() + msgsize_cases()
    if tier != 'quick' and cases_override is None:
        # small scope: every pair of stimuli after every prefix that reaches OPENSENT or later
        small = [['recv', k] for k in ('OpenOk', 'Keepalive', 'UpdateOk', 'Notification', 'UnknownType', 'OpenBadAs', 'UpdateBadNlri', 'Refresh')] + [
            ['eof', None], ['incoming', None], ['connect_ok', None], ['tick', 0.3], ['silence', 70], ['teardown', 4], ['remove', None], ['refresh', None], ['reload', None]]
        for pname in ('RO', 'RK', 'M0', 'MN', 'ROdead', 'Wacc'):
            for a in small:
                for b in small:
                    for c in (small if pname in ('RO', 'MN') else [None]):
                        ga = 0.05
                        steps = [list(x) for x in PREFIX[pname]] + [list(a) + [ga], list(b) + [0.3]] + ([list(c)] if c else []) + CONT[:2]
                        cases.append({'name': f'small:{pname}', 'steps': steps})
    results = run_all(cases)
    errors = [(c, r) for c, r in zip(cases, results) if 'error' in r]
    run.obligation('the rig ran every script (no harness crash, no deadlock of the virtual loop)', not errors,
                   '; '.join(f"{c['name']}: {r['error']}" for c, r in errors[:3]) + (errors[0][1].get('tb', '') if errors else ''))
    items = []
    absd = {}
    notes = Counter()
    glue = []
    for i, (c, r) in enumerate(zip(cases, results)):
        if 'error' in r:
            continue
        steps, n, problems = abstract(r['log'])
        notes.update(n)
        if c.get('oracle_only'):
            continue  # judged by the oracle only (see interleaved())
        absd[i] = steps
        items.append((i, steps))
        for p in problems:
            glue.append((i, p))
    coq = evaluate(run, items, 'hpeer', per=40 if tier == 'quick' else 160)
    # correspondence
    mism = []
    outside = []
    spec_bad = {}
    for i, steps in items:
        if i not in coq:
            continue
        pred, verdicts, alpha = coq[i]
        if not alpha:
            outside.append(i)
        obs = [a for _, a in steps]
        if pred != obs:
            mism.append(i)
        failed = [CLAUSES[k] for k, v in enumerate(verdicts) if not v]
        if failed:
            spec_bad[i] = failed
    detail = ''
    if mism:
        i = mism[0]
        pred = coq[i][0]
        for k, (st, p) in enumerate(zip(absd[i], pred)):
            if st[1] != p:
                detail = (f"{len(mism)} scripts; first: {cases[i]['name']} steps={cases[i]['steps']} at stimulus #{k} {ev_name(st[0])}: "
                          f"implementation {[act_name(z) for z in st[1]]} model {[act_name(z) for z in p]}")
                break
    run.obligation('correspondence: Model_Session.session_step predicts the observed trace of the real Peer for every script', not mism, detail)
    run.obligation('every observed stimulus is in the alphabet of the theorems', not outside,
                   '; '.join(cases[i]['name'] for i in outside[:5]))
    run.obligation('the observed writes happen on the session transport and classify (glue of the abstraction)', not glue,
                   '; '.join(f"{cases[i]['name']}: {p}" for i, p in glue[:4]))
    # property oracle (python, transport identities) and Spec checkers (Coq) on the observed traces
    failing = {}
    for i, (c, r) in enumerate(zip(cases, results)):
        if 'error' in r:
            continue
        for sig, what in oracle(r['log'], r, which) + expectations(c, r, which):
            failing.setdefault(sig, (i, what))
    mine = set(CLAUSES[:5]) if tuple(which) == ('C05',) else (set(CLAUSES[5:]) if tuple(which) == ('C10',) else set(CLAUSES))
    disagree = []
    for i, failed in spec_bad.items():
        f = [x for x in failed if x in mine]
        if f and not oracle(results[i]['log'], results[i], which):
            disagree.append((i, f))
    run.obligation('the Spec_Fsm checkers (Coq) flag no observed trace that the python oracle accepts', not disagree,
                   '; '.join(f"{cases[i]['name']} {cases[i]['steps']}: {f}" for i, f in disagree[:3]))
    for n_sig, (sig, (i, what)) in enumerate(sorted(failing.items())):
        def fails(cand, sig=sig, proto=cases[i]):
            cand = dict(proto, steps=cand['steps'])
            r = _worker(cand)
            return 'error' not in r and any(s == sig for s, _ in oracle(r['log'], r, which) + expectations(cand, r, which))
        # shrinking re-runs the rig: the first few signatures are shrunk, the others are reported as found
        small = shrink(cases[i], fails) if (len(cases[i]['steps']) <= 14 and n_sig < 6) else cases[i]
        r = _worker(small)
        run.fail_case(sig, what, {'script': small['steps'], 'trace': r.get('log', [])[:80], 'origin': cases[i]['name']})
    run.obligation('property oracle on the real Peer: every clause holds on every observed trace', not failing,
                   '; '.join(f'{s}' for s in sorted(failing)[:8]))
    # coverage
    ev_hist = Counter()
    cp_hist = Counter()
    distinct = set()
    for i, steps in items:
        for e, a in steps:
            ev_hist[ev_name(e)] += 1
            distinct.add((tuple(e), tuple(a)))
    for c in cases:
        cp_hist[c['name'].split('+')[0].split(':')[0]] += 1
    run.coverage.update({
        'evaluations': len(items),
        'distinct_nontrivial': len([d for d in distinct if d[1]]),
        'rule': 'distinct (stimulus, observed action list) pairs with a non-empty action list, over all scripts',
        'scripts': len(cases),
        'stimuli_histogram': dict(ev_hist.most_common()),
        'script_families': dict(cp_hist.most_common()),
        'observations_not_flagged': dict(notes),
        'oracle_only_scripts': {
            'count': sum(1 for c in cases if c.get('oracle_only')),
            'why': 'local-as auto scripts of msgsize_cases (the peer OPEN is read before ours is sent: Model_Session models the order of a '
                   'configured local AS).  API-helper failures (apifail_cases): the recording Processes raises ProcessError once at a chosen callback (fsm / down / up / '
                   'connected / per-message events) during set-up and during every kind of teardown; Model_Session has no event for it (where the '
                   'implementation stops depends on which call fails), these traces are judged by the property oracle only.  The interleaved '
                   'scripts (split messages, reload, last-pause arrivals) ARE in the correspondence.',
        },
        'spec_checker_failures': {cases[i]['name']: f for i, f in list(spec_bad.items())[:20]},
    })
    for i, steps in items[:3]:
        run.samples.append({'script': cases[i]['steps'], 'observed': [[ev_name(e), [act_name(z) for z in a]] for e, a in steps][:12]})
    return cases, results


TRUSTED = [
    'Coq 8.16.1 kernel, vm_compute (reachable-set computation, case evaluation)',
    'translate/t2_fsm.py (ast translation of FSM.STATE/transition; shape checks of Peer._establish/_run/_close/_reset/handle_connection/_main)',
    'harness/hpeer.py: virtual-time loop, scripted in-memory sockets, recording Processes stub, observation wrappers',
    'harness/c05.py: abstraction maps (concrete stimulus -> event at the moment it takes effect, observed effect -> action), python oracle',
]
ASSUMPTIONS = [
    'theorems are about the finite abstraction Model_Session (alphabet bounded: subcodes 0..11, teardown codes 1..10; trace length unbounded)',
    'a read pending on a socket that was closed locally never completes (observed with kernel sockets)',
    'writes do not suspend (scripted sockets accept every write at once); stimuli arrive at least 50 ms apart, so never inside one main-loop iteration',
    'not modelled: graceful-restart teardown, tcp.attempts > 0, bgp.passive, neighbors without local-as, ephemeral peers, write errors',
]


def table_check(run):
    """the generated table against the imported FSM class, all 36 pairs (the translator is trusted glue: cross-checked)"""
    from exabgp.bgp.fsm import FSM

    body = 'Eval vm_compute in map (fun a => map (fun b => allowed a b) states) states.\nEval vm_compute in states.'
    rc, out = common.coq_eval_file('From Coq Require Import ZArith Bool List.\nFrom ExaV Require Import gen.Gen_Fsm.\nImport ListNotations. Open Scope Z_scope.', body, 't2_table')
    ok, detail = False, out[-500:]
    if rc == 0:
        res = common.parse_eval(out)
        rows = [re.findall(r'true|false', r) for r in re.findall(r'\[([^\[\]]*)\]', res[0].strip()[1:-1])]
        states = [int(x) for x in re.findall(r'\d+', res[1])]
        want = [[('true' if FSM.STATE(a) in FSM.transition[FSM.STATE(b)] else 'false') for b in states] for a in states]
        ok = rows == want and sorted(states) == sorted(int(x) for x in FSM.STATE)
        detail = f'coq {rows} python {want}'
    run.obligation('Gen_Fsm.allowed equals FSM.transition (imported class) on all 36 state pairs', ok, detail)


def loop_gap(run, tier):
    """C12 tie (C12's theorems take the loop gap delta as a hypothesis): the longest virtual-time gap between two
    consultations of the timers while 5 000 UPDATEs are being sent, with a writer that flows and one that blocks"""
    from harness import hpeer

    rows = []
    try:
        for hold in (3, 9, 30, 90):
            for block in ((0.0, 2.0) if tier == 'quick' else (0.0, 2.0, float(hold))):
                rows.append(hpeer.measure_loop_gap(hold, 5000, block))
        ok = all(r['updates_written'] >= 5000 and r['max_gap_check_ka_s'] is not None for r in rows)
        detail = str(rows)[:600]
    except Exception as exc:
        ok, detail = False, f'{type(exc).__name__}: {exc}'
    run.coverage['loop_gap_delta_measured_s'] = {
        'what': 'max virtual-time gap between consecutive calls of ReceiveTimer.check_ka / KA.send_if_needed in Peer._main while a batch '
                'of 5000 one-route UPDATEs is sent (25 per iteration); block_s: one write of the batch blocks that long (peer not reading)',
        'rows': rows,
        'delta_free_writer_s': max((r['max_gap_check_ka_s'] for r in rows if not r['block_s']), default=None),
        'delta_blocked_writer': 'block_s + 0.1: the loop does not consult its timers while a write is blocked',
    }
    run.obligation('loop gap measured on the rig for hold times 3, 9, 30, 90 (C12 hypothesis delta)', ok, detail)


def check(tier, seed):
    run = Run('C05', tier, seed)
    common.standard_build(run, ['T2', 'T14'])
    table_check(run)
    campaign(run, tier, seed, ('C05',))
    loop_gap(run, tier)
    from harness import wqueue
    wqueue.run_pass(run, tier, seed)  # the order in which "up" / "down" reach the helper: the API write queue
    run.trusted = TRUSTED
    run.assumptions = ASSUMPTIONS
    return run.finish(checker_cmd='cd /verif/coq && coqc -Q . ExaV props/Prop_C05.v')


def replay(path):
    import json

    payload = json.load(open(path))
    case = {'name': 'replay', 'steps': payload['case']['script']}
    r = _worker(case)
    found = oracle(r['log'], r)
    for e in r.get('log', []):
        print(e)
    print('oracle:', found)
    return 1 if found else 0
