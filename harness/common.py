"""Shared machinery: translators + Coq build, Prop file check, vm_compute case evaluation,
evidence, violations, known findings.  Runs under /venv/bin/python with PYTHONPATH=/repo/src:/verif."""

from __future__ import annotations

import concurrent.futures
import fcntl
import glob
import hashlib
import importlib
import json
import os
import re
import shutil
import subprocess
import sys
import time

VERIF = os.path.dirname(os.path.dirname(os.path.abspath(__file__)))
REPO = os.environ.get('VERIF_REPO', '/repo')
COQ = os.path.join(VERIF, 'coq')
GEN = os.path.join(COQ, 'gen')
WORK = os.path.join(VERIF, '_work', str(os.getpid()))
COQ_DIRS = ['lib', 'gen', 'spec', 'model', 'proofs', 'props']

FORBIDDEN = re.compile(
    r'\b(Admitted|admit|Axiom|Axioms|Parameter|Parameters|Conjecture|bypass_check|Admit Obligations)\b'
    r'|Unset\s+Guard|Unset\s+Positivity|Unset\s+Universe|type-in-type|impredicative-set'
)

def _discover_translators():
    found = {}
    for path in sorted(glob.glob(os.path.join(VERIF, 'translate', 't[0-9]*_*.py'))):
        base = os.path.basename(path)[:-3]
        tid = 'T' + base[1:].split('_', 1)[0]
        found[tid] = 'translate.' + base
    return found


TRANSLATORS = _discover_translators()


def sh(cmd, timeout, cwd=None, env=None):
    try:
        p = subprocess.run(
            cmd, cwd=cwd, env=env, timeout=timeout, stdout=subprocess.PIPE, stderr=subprocess.STDOUT, text=True
        )
        return p.returncode, p.stdout
    except subprocess.TimeoutExpired as exc:
        out = exc.stdout.decode() if isinstance(exc.stdout, bytes) else (exc.stdout or '')
        return 124, out + f'\n[timeout after {timeout}s]'


def work_dir():
    os.makedirs(WORK, exist_ok=True)
    return WORK


def cleanup():
    shutil.rmtree(WORK, ignore_errors=True)
    try:
        os.rmdir(os.path.join(VERIF, '_work'))
    except OSError:
        pass


# ------------------------------------------------------------------------------- translators


def run_translators(names):
    """-> list of (name, ok, message).  Regenerates coq/gen/*.v from REPO's working tree."""
    os.makedirs(GEN, exist_ok=True)
    results = []
    for name in names:
        modname = TRANSLATORS[name]
        try:
            mod = importlib.import_module(modname)
            mod.main(REPO, GEN)
            results.append((name, True, ''))
        except Exception as exc:  # Untranslatable or anything else: fail closed
            results.append((name, False, f'{type(exc).__name__}: {exc}'))
    return results


def run_all_translators():
    return run_translators(sorted(TRANSLATORS))


# ------------------------------------------------------------------------------- coq build


def coq_sources():
    files = []
    for d in COQ_DIRS:
        files += sorted(glob.glob(os.path.join(COQ, d, '*.v')))
    return [os.path.relpath(f, COQ) for f in files]


def forbidden_scan():
    bad = []
    for rel in coq_sources():
        text = open(os.path.join(COQ, rel)).read()
        for m in FORBIDDEN.finditer(text):
            line = text.count('\n', 0, m.start()) + 1
            bad.append(f'{rel}:{line}: {m.group(0)}')
    return bad


class Lock:
    def __enter__(self):
        self.f = open(os.path.join(COQ, '.build.lock'), 'w')
        fcntl.flock(self.f, fcntl.LOCK_EX)
        return self

    def __exit__(self, *a):
        fcntl.flock(self.f, fcntl.LOCK_UN)
        self.f.close()


def coq_make(targets=None, timeout=900, jobs=16):
    """Full .vo build of everything (make -k), then the requested targets must exist.
    -> (ok, log)"""
    with Lock():
        srcs = coq_sources()
        proj = '-Q . ExaV\n' + '\n'.join(srcs) + '\n'
        pf = os.path.join(COQ, '_CoqProject')
        if not os.path.exists(pf) or open(pf).read() != proj:
            open(pf, 'w').write(proj)
        rc, out = sh(['coq_makefile', '-f', '_CoqProject', '-o', 'Makefile'], 60, cwd=COQ)
        if rc != 0:
            return False, out
        if targets is None:
            # setup: build everything that builds; a file of an unfinished property must not block the rest
            rc, out = sh(['make', '-k', f'-j{jobs}'], timeout, cwd=COQ)
            return rc == 0, out
        # a check builds its own property file and what it depends on, nothing else
        log, ok = '', True
        for t in targets:
            rc2, out2 = sh(['make', f'-j{jobs}', t], timeout, cwd=COQ)
            log += out2
            if rc2 != 0 or not os.path.exists(os.path.join(COQ, t)):
                ok = False
                log += f'\n--- target {t} failed ---\n'
        return ok, log


def prop_check(pid, allowed_axioms=()):
    """Recompile props/Prop_<pid>.v on its own, capture Print Assumptions.
    -> dict(ok, theorems, closed, axioms, log)"""
    src = os.path.join(COQ, 'props', f'Prop_{pid}.v')
    text = open(src).read()
    theorems = re.findall(r'^\s*(?:Theorem|Corollary)\s+(\w+)', text, re.M)
    printed = re.findall(r'^\s*Print Assumptions\s+(\w+)\s*\.', text, re.M)
    out_vo = os.path.join(work_dir(), f'Prop_{pid}.vo')
    t0 = time.time()
    rc, out = sh(['coqc', '-Q', COQ, 'ExaV', '-o', out_vo, src], 900, cwd=COQ)
    res = {'ok': rc == 0, 'theorems': theorems, 'printed': printed, 'log': out, 'wall_s': round(time.time() - t0, 2)}
    closed = out.count('Closed under the global context')
    axioms = []
    for block in re.findall(r'Axioms:\n((?:.+\n?)+?)(?:\n|$)', out):
        for line in block.splitlines():
            m = re.match(r'^(\S+)\s*:', line)
            if m:
                axioms.append(m.group(1))
    res['closed'] = closed
    res['axioms'] = sorted(set(axioms))
    bad_axioms = [a for a in res['axioms'] if a not in allowed_axioms]
    missing = [t for t in theorems if t not in printed]
    if rc == 0 and (bad_axioms or missing or closed + (1 if axioms else 0) == 0):
        res['ok'] = False
        res['log'] += f'\nassumption check failed: axioms={bad_axioms} theorems without Print Assumptions={missing}'
    return res


# ------------------------------------------------------------------------------- case evaluation


def zlist(bs) -> str:
    return '[' + ';'.join(str(int(b)) for b in bs) + ']'


def zbytes(bs) -> str:
    """Coq `list Z` expression for a byte string, long runs of one byte as `repeat b n`."""
    bs = list(bs)
    parts, lit, i = [], [], 0
    while i < len(bs):
        j = i
        while j < len(bs) and bs[j] == bs[i]:
            j += 1
        if j - i >= 24:
            if lit:
                parts.append(zlist(lit))
                lit = []
            parts.append(f'repeat {int(bs[i])} {j - i}')
        else:
            lit.extend(bs[i:j])
        i = j
    if lit or not parts:
        parts.append(zlist(lit))
    return '(' + ' ++ '.join(parts) + ')' if len(parts) > 1 else ('(' + parts[0] + ')' if parts[0].startswith('repeat') else parts[0])


def natlist(ns) -> str:
    return '[' + ';'.join(str(int(n)) for n in ns) + ']%nat'


def coq_eval_file(header: str, body: str, name: str, timeout=600):
    """Write a .v file, run coqc, return (rc, stdout)."""
    path = os.path.join(work_dir(), name + '.v')
    with open(path, 'w') as f:
        f.write(header + '\n' + body + '\n')
    rc, out = sh(['coqc', '-Q', COQ, 'ExaV', '-o', path + 'o', path], timeout, cwd=work_dir())
    return rc, out


def parse_eval(out: str):
    """Split coqc output into one string per `Eval` result (`     = ... : type`)."""
    text = out.replace('\n', ' ')
    parts = re.split(r'\s=\s', ' ' + text)
    results = []
    for p in parts[1:]:
        # drop the trailing `: type`
        idx = p.rfind(' : ')
        results.append(p[:idx].strip() if idx >= 0 else p.strip())
    return results


def nat_list_of(s: str):
    return [int(x) for x in re.findall(r'\d+', s)]


def eval_cases(header: str, defs_of_shard, shards, tag: str, timeout=900, workers=14):
    """Evaluate shards in parallel.  defs_of_shard(shard) -> Coq text ending in Eval commands.
    -> list of (rc, raw output, parsed results) per shard."""

    def one(i):
        rc, out = coq_eval_file(header, defs_of_shard(shards[i]), f'{tag}_{i}', timeout)
        return rc, out, parse_eval(out) if rc == 0 else []

    with concurrent.futures.ThreadPoolExecutor(max_workers=workers) as ex:
        return list(ex.map(one, range(len(shards))))


def chunked(items, n):
    return [items[i : i + n] for i in range(0, len(items), n)]


# ------------------------------------------------------------------------------- result bookkeeping


def load_known():
    p = os.path.join(VERIF, 'known_findings.json')
    if not os.path.exists(p):
        return []
    return json.load(open(p)).get('findings', [])


class Run:
    def __init__(self, pid, tier, seed):
        self.pid, self.tier, self.seed = pid, tier, seed
        self.t0 = time.time()
        self.obligations = []  # (name, ok, detail)
        self.failing = []  # concrete failing cases: dict(sig, what, case)
        self.coverage = {}
        self.assumptions = []
        self.trusted = []
        self.samples = []
        self.notes = []

    def obligation(self, name, ok, detail=''):
        self.obligations.append((name, bool(ok), detail))
        if not ok:
            print(f'[{self.pid}] obligation FAILED: {name}: {detail[:2000]}', flush=True)
        return ok

    def fail_case(self, sig, what, case):
        self.failing.append({'sig': sig, 'what': what, 'case': case})

    def broken(self):
        return [(n, d) for n, ok, d in self.obligations if not ok]

    def write_replay(self, payload, tag):
        d = os.path.join(VERIF, 'replays', self.pid)
        os.makedirs(d, exist_ok=True)
        blob = json.dumps(payload, sort_keys=True, indent=1)
        h = hashlib.sha1(blob.encode()).hexdigest()[:12]
        path = os.path.join(d, f'{tag}-{h}.json')
        with open(path, 'w') as f:
            f.write(blob + '\n')
        return path

    def finish(self, level='proof', checker_cmd='', extra_cov=None):
        known = [k for k in load_known() if k.get('property') == self.pid and k.get('kind') == 'known']
        violations = []
        known_hit = {}
        for fc in self.failing:
            k = next((k for k in known if re.fullmatch(k['sig'], fc['sig'])), None)
            if k is not None:
                known_hit.setdefault(k['sig'], (k, fc))
            else:
                violations.append(fc)
        lines = []
        for sig, (k, fc) in known_hit.items():
            lines.append(f'KNOWN-FINDING: property={self.pid} {k["what"]}')
        broken = self.broken()
        # obligations whose breakage is explained entirely by known findings do not count
        exit_code = 0
        seen = set()
        for fc in violations:
            if fc['sig'] in seen:
                continue
            seen.add(fc['sig'])
            path = self.write_replay(
                {'property': self.pid, 'kind': 'failing-input', 'sig': fc['sig'], 'what': fc['what'], 'case': fc['case'],
                 'broken_obligations': [n for n, _ in broken]},
                'fail',
            )
            lines.append(f'VIOLATION property={self.pid} replay={path}')
            exit_code = 1
        unexplained = [(n, d) for n, d in broken if not self._explained(n, known_hit)]
        if unexplained and not violations:
            path = self.write_replay(
                {'property': self.pid, 'kind': 'broken-obligation',
                 'no_longer_checks': [{'obligation': n, 'detail': d[-4000:]} for n, d in unexplained],
                 'search': self.coverage.get('search', 'the property oracle found no failing input on the explored cases')},
                'broken',
            )
            lines.append(f'VIOLATION property={self.pid} replay={path} no-failing-input-found')
            exit_code = 1
        for ln in lines:
            print(ln, flush=True)
        # an obligation broken ONLY by listed known findings is restated as what was actually shown
        restated = []
        for n, ok, d in self.obligations:
            if not ok and not violations and self._explained(n, known_hit):
                restated.append((n + ' [shown for every explored case EXCEPT the known finding(s) reported above]', True, d))
            else:
                restated.append((n, ok, d))
        self.obligations = restated
        n_obl = len(self.obligations)
        n_ok = sum(1 for _, ok, _ in self.obligations if ok)
        cov = {
            'obligations': n_obl,
            'discharged': n_ok,
            'checker_cmd': checker_cmd,
            'trusted_base': self.trusted,
            'obligation_list': [{'name': n, 'ok': ok, 'detail': d[:300]} for n, ok, d in self.obligations],
            'samples': self.samples[:8],
        }
        cov.update(self.coverage)
        if extra_cov:
            cov.update(extra_cov)
        cov.setdefault('evaluations', 0)
        cov.setdefault('distinct_nontrivial', 0)
        cov.setdefault('rule', '')
        if level not in ('exploration', 'fault_enumeration', 'model_checking', 'proof', 'translation_validation', 'other'):
            self.notes.append(f'level reported by the check: {level}')
            level = 'proof'
        ev = {
            'property_id': self.pid,
            'tier': 'thorough' if self.tier == 'thorough' else 'quick',
            'seed': self.seed,
            'level': level,
            'coverage': cov,
            'assumptions': self.assumptions,
            'wall_s': round(time.time() - self.t0, 2),
            'violations': len(seen) + (1 if (unexplained and not violations) else 0),
            'known_findings_reported': [k['what'] for k, _ in known_hit.values()],
            'notes': self.notes,
        }
        # evidence/<id>.json describes runs against /repo itself; a run against another tree (VERIF_REPO: seeded
        # changes, patch validation) writes its record elsewhere
        evdir = os.path.join(VERIF, 'evidence') if os.path.realpath(REPO) == '/repo' else os.path.join(VERIF, '_work', 'evidence_other_tree')
        os.makedirs(evdir, exist_ok=True)
        with open(os.path.join(evdir, f'{self.pid}.json'), 'w') as f:
            json.dump(ev, f, indent=1, sort_keys=True, default=str)
            f.write('\n')
        print(
            f'[{self.pid}] tier={self.tier} seed={self.seed} obligations={n_ok}/{n_obl} '
            f'evaluations={cov["evaluations"]} failing={len(self.failing)} exit={exit_code} '
            f'wall={ev["wall_s"]}s',
            flush=True,
        )
        cleanup()
        return exit_code

    def _explained(self, name, known_hit):
        """A broken obligation is explained when a reported known finding names it (regex on the obligation
        name) AND every concrete failing case of this run is a known finding (otherwise the unknown
        case is reported on its own anyway)."""
        for k, _ in known_hit.values():
            for pat in k.get('explains', []):
                if re.search(pat, name):
                    return True
        return False


def standard_build(run: Run, translators, prop_allowed_axioms=()):
    """Obligations o1 (translators) and o2 (build + Prop file + assumptions + forbidden scan)."""
    for name, ok, msg in run_translators(translators):
        run.obligation(f'translator {name} ({TRANSLATORS[name]}) regenerates its model from {REPO}', ok, msg)
    # the other translators are run as well, so that every generated file a proof may import exists and
    # describes THIS tree (not the tree of an earlier run); their failure is not this property's obligation -
    # if the property does depend on one, the build obligation below fails
    aux = [n for n in sorted(TRANSLATORS) if n not in translators]
    failed = [f'{n}: {msg}' for n, ok, msg in run_translators(aux) if not ok]
    run.coverage['auxiliary_translators'] = {'ran': aux, 'failed': failed}
    bad = forbidden_scan()
    run.obligation('no Admitted/admit/Axiom/Parameter/Conjecture/unset checks in coq/', not bad, '; '.join(bad))
    target = f'props/Prop_{run.pid}.vo'
    ok, log = coq_make([target])
    run.obligation(f'coq build (make, full .vo) reaches {target}', ok, log[-3000:])
    pc = None
    if ok:
        pc = prop_check(run.pid, prop_allowed_axioms)
        run.obligation(
            f'Prop_{run.pid}.v compiles; {len(pc["theorems"])} theorems; Print Assumptions closed or allowed',
            pc['ok'],
            pc['log'][-3000:],
        )
        run.coverage['theorems'] = pc['theorems']
        run.coverage['print_assumptions'] = {
            'closed_under_global_context': pc['closed'],
            'axioms': pc['axioms'],
        }
    return pc
