"""C04 - Adj-RIB-Out converges (and the RIB part of C11).  H-rib."""

from __future__ import annotations

import collections
import itertools
import random
import re

from harness import common
from harness.common import Run

FAMS = {'ipv4': 0, 'ipv6': 1}
DOGS = ['dogA', 'dogB']


# ------------------------------------------------------------------------------- universe of routes


class Universe:
    """Real Route objects for a small universe: prefixes x families x attribute sets x next hops."""

    def __init__(self, nprefix=4):
        from exabgp.configuration.setup import create_minimal_configuration

        self.conf = create_minimal_configuration(families='ipv4 unicast ipv6 unicast')
        self.neighbor = next(iter(self.conf.neighbors.values()))
        self.prefixes = [('ipv4', f'10.0.{i}.0/24') for i in range(nprefix)] + [('ipv6', f'2001:db8:{i}::/48') for i in range(max(1, nprefix // 2))]
        self.attrs = ['med 1', 'med 2', 'med 2 community [ 65000:1 ]']
        self.nhs = {'ipv4': ['192.0.2.1', '192.0.2.2'], 'ipv6': ['2001:db8::1', '2001:db8::2']}
        self.idx_ids, self.attr_ids, self.nh_ids = {}, {}, {}
        self.routes = {}
        for p, (fam, prefix) in enumerate(self.prefixes):
            for a, attr in enumerate(self.attrs):
                for h, nh in enumerate(self.nhs[fam]):
                    text = f'route {prefix} next-hop {nh} {attr}'
                    rs = self.conf.parse_route_text(text)
                    if len(rs) != 1:
                        raise RuntimeError(f'universe: {text!r} -> {rs}')
                    self.routes[(p, a, h)] = rs[0]

    def watchdog_route(self, key, dog, withdrawn):
        """a fresh Route object carrying the internal watchdog attribute (add_to_rib_watchdog pops it)"""
        p, a, h = key
        fam, prefix = self.prefixes[p]
        text = f'route {prefix} next-hop {self.nhs[fam][h]} {self.attrs[a]} watchdog {DOGS[dog]}' + (' withdraw' if withdrawn else '')
        rs = self.conf.parse_route_text(text)
        if len(rs) != 1:
            raise RuntimeError(f'universe: {text!r} -> {rs}')
        return rs[0]

    def ids(self, route):
        """(idx id, family id, attr id, nh id) for a real Route"""
        i = self.idx_ids.setdefault(bytes(route.index()), len(self.idx_ids))
        a = self.attr_ids.setdefault(bytes(route.attributes.index()), len(self.attr_ids))
        h = self.nh_ids.setdefault(bytes(route.nexthop.index()) if hasattr(route.nexthop, 'index') else str(route.nexthop).encode(), len(self.nh_ids))
        fam = 0 if route.nlri.family().afi_safi()[0] == 1 else 1
        return i, fam, a, h

    def fam_tuple(self, f):
        from exabgp.protocol.family import AFI, SAFI

        return (AFI.ipv4, SAFI.unicast) if f == 0 else (AFI.ipv6, SAFI.unicast)

    def nlri_id(self, nlri):
        key = b'%02x%02x' % nlri.family().afi_safi() + nlri.index()
        return self.idx_ids.setdefault(bytes(key), len(self.idx_ids))


# ------------------------------------------------------------------------------- implementation side


def run_impl(uni, cache, grouped, ops):
    """-> dict(gens=[[upd...]], seen=[...], peer={}, pending=bool, order=[...emitted in real order])"""
    from exabgp.rib.outgoing import OutgoingRIB
    from exabgp.bgp.message.update.collection import UpdateCollection
    from exabgp.bgp.message.refresh import RouteRefresh

    fams = {uni.fam_tuple(0), uni.fam_tuple(1)}
    rib = OutgoingRIB(cache, fams)
    gens = []
    cur = None  # live generator
    buf = []  # prefetched item (the snapshot is taken by the first next())
    peer = {}
    emitted = []

    def flatten(item):
        out = []
        if isinstance(item, RouteRefresh):
            fam = 0 if int(item.afi) == 1 else 1
            out.append((1 if item.reserved == RouteRefresh.start else 2, fam, 0, 0))
        elif isinstance(item, UpdateCollection):
            for nlri in item.withdraws:
                out.append((4, uni.nlri_id(nlri), 0, 0))
            aid = uni.attr_ids.setdefault(bytes(item.attributes.index()), len(uni.attr_ids))
            for rn in item.announces:
                hid = uni.nh_ids.setdefault(bytes(rn.nexthop.index()), len(uni.nh_ids))
                out.append((3, uni.nlri_id(rn.nlri), aid, hid))
        else:
            raise RuntimeError(f'unexpected generator item {item!r}')
        return out

    emit_counts = []
    skipped = []
    partial = set()  # generators abandoned by a session loss: only a prefix was consumed

    def effective(item):
        """what reaches the wire for one generator item (withdraws are left out of the first batch)"""
        out = []
        for u in flatten(item):
            if u[0] == 4 and not include_withdraw:
                skipped.append(u)
                continue
            out.append(u)
        return out

    def fetch():
        """next item that puts something on the wire; an UpdateCollection whose messages() yields nothing
        does not suspend new_update_generator, the loop goes on to the next one"""
        nonlocal cur
        while cur is not None:
            try:
                item = next(cur)
            except StopIteration:
                cur = None
                return
            eff = effective(item)
            if eff:
                buf.append(eff)
                return

    def emit_one():
        emit_counts.append(0)
        if not buf:
            return
        for u in buf.pop(0):
            emit_counts[-1] += 1
            if u[0] == 3 and u[1] in banned:
                readvertised.append(u)
            gens[-1].append(u)
            emitted.append(u)
            if u[0] == 3:
                peer[u[1]] = (u[2], u[3])
            elif u[0] == 4:
                peer.pop(u[1], None)
        fetch()

    wdog = {}

    def track(op):
        if op[0] == 'wadd':
            i = uni.ids(uni.routes[op[1]])[0]
            wdog.setdefault(op[2], {'+': {}, '-': {}})['-' if op[3] else '+'][i] = op[1]
        elif op[0] == 'wann' and op[1] in wdog:
            wdog[op[1]]['+'].update(wdog[op[1]]['-'])
            wdog[op[1]]['-'] = {}
        elif op[0] == 'wwd' and op[1] in wdog:
            wdog[op[1]]['-'].update(wdog[op[1]]['+'])
            wdog[op[1]]['+'] = {}

    up = True
    fresh = True  # Peer._main starts every session with include_withdraw = False for its first generator
    include_withdraw = True
    banned = set()  # withdrawn while down and not announced since: must not be advertised again
    readvertised = []
    for op in ops:
        kind = op[0]
        if kind in ('ann', 'annf'):
            rib.add_to_rib(uni.routes[op[1]], kind == 'annf')
            banned.discard(uni.ids(uni.routes[op[1]])[0])
        elif kind == 'wd':
            rib.del_from_rib(uni.routes[op[1]])
            if not up:
                banned.add(uni.ids(uni.routes[op[1]])[0])
        elif kind == 'drop':
            rib.reset()
            if cur is not None or buf:
                partial.add(len(gens) - 1)
            cur, buf = None, []
            peer.clear()
            up = False
        elif kind == 'establish':
            if not up:
                rib.replace_restart([], [])
                up = True
                fresh = True
        elif kind in ('start', 'emit') and not up:
            if kind == 'emit':
                emit_counts.append(0)
        elif kind == 'wadd':
            rib.add_to_rib_watchdog(uni.watchdog_route(op[1], op[2], op[3]))
            if not op[3]:
                banned.discard(uni.ids(uni.routes[op[1]])[0])
        elif kind == 'wann':
            for i in list(wdog.get(op[1], {}).get('-', {})):
                banned.discard(i)
            rib.announce_watchdog(DOGS[op[1]])
        elif kind == 'wwd':
            if not up:
                for i in list(wdog.get(op[1], {}).get('+', {})):
                    banned.add(i)
            rib.withdraw_watchdog(DOGS[op[1]])
        elif kind == 'resend':
            rib.resend(op[1], None if op[2] is None else uni.fam_tuple(op[2]))
        elif kind == 'wdall':
            rib.withdraw(None if op[1] is None else {uni.fam_tuple(f) for f in op[1]})
        elif kind == 'start':
            if cur is None and not buf and rib.pending():
                cur = rib.updates(grouped)
                gens.append([])
                include_withdraw = not fresh
                fresh = False
                fetch()
        elif kind == 'emit':
            emit_one()
        track(op)
    seen = []
    for r in rib.cached_routes():
        i, f, a, h = uni.ids(r)
        seen.append((i, a, h))
    return {'partial': sorted(partial), 'readvertised': readvertised, 'emit_counts': emit_counts, 'gens': gens, 'seen': sorted(seen), 'peer': dict(peer), 'pending': rib.pending(), 'live': cur is not None or bool(buf)}



# ------------------------------------------------------------------------------- peer mode (wire level)
#
# The same operation histories, but the update generator is created, consumed and replaced by the REAL
# Peer._send_route_updates / Peer._send_eor_messages, the messages are encoded by the REAL
# Protocol.new_update_generator / new_eors (UpdateCollection.messages with include_withdraw) and written
# to a recording connection; what was written is decoded by the real decoder and applied to a peer table.

PEER_CONF = """
neighbor 127.0.0.2 { router-id 1.2.3.4; local-address 127.0.0.1; local-as 65000; peer-as 65001;
  family { ipv4 unicast; ipv6 unicast; } }
"""


class RecordingConnection:
    def __init__(self):
        self.written = []
        self.io = object()

    async def writer_async(self, data):
        self.written.append(bytes(data))

    def session(self):
        return 'rec-1'

    def name(self):
        return 'rec-1 local-peer'

    def fd(self):
        return -1

    def close(self):
        pass


class PeerRig:
    def __init__(self):
        from harness.apirig import Rig
        from exabgp.reactor.protocol import Protocol
        from exabgp.configuration.check import _negotiated

        self.rig = Rig(PEER_CONF)
        self.key, self.neighbor = next(iter(self.rig.configuration.neighbors.items()))
        self.peer = self.rig.reactor._peers[self.key]
        self.neg_in, self.neg_out = _negotiated(self.neighbor)
        self.proto = Protocol(self.peer)
        self.proto.negotiated = self.neg_out
        self.conn = RecordingConnection()
        self.proto.connection = self.conn
        self.peer.proto = self.proto
        self.rib = self.neighbor.rib.outgoing
        self.text_routes = {}

    def route(self, uni, key):
        """a Route of THIS configuration for the universe key (prefix, attr, nexthop)"""
        if key not in self.text_routes:
            p, a, h = key
            fam, prefix = uni.prefixes[p]
            rs = self.rig.configuration.parse_route_text(f'route {prefix} next-hop {uni.nhs[fam][h]} {uni.attrs[a]}')
            self.text_routes[key] = self.neighbor.resolve_self(rs[0])
        return self.text_routes[key]

    def decode(self, uni, raw):
        """one written message -> list of ('ann', prefix, (attr id, nh)) / ('wd', prefix) / ('eor', fam)"""
        from exabgp.bgp.message import Message, Update

        out = []
        if raw[18] != 2:
            return [('other', raw[18])]
        msg = Message.unpack(2, raw[19:], self.neg_in)
        if getattr(msg, 'IS_EOR', False):
            out.append(('eor', str(msg.nlris[0].family()) if msg.nlris else 'ipv4 unicast'))
            return out
        data = msg.data
        for nlri in data.withdraws:
            out.append(('wd', str(nlri.cidr) if hasattr(nlri, 'cidr') else str(nlri)))
        text = str(data.attributes)
        aid = None
        for i, a in enumerate(uni.attrs):
            want_comm = 'community' in a
            med = a.split()[1]
            if f'med {med}' in text and (('community' in text) == want_comm):
                aid = i
        for routed in data.announces:
            out.append(('ann', str(routed.nlri.cidr) if hasattr(routed.nlri, 'cidr') else str(routed.nlri), (aid, str(routed.nexthop))))
        return out


def run_peer_mode(uni, ops, per_iter):
    """-> dict(problems=[(sig, what)], peer, reported)"""
    import asyncio

    pr = PeerRig()
    loop = pr.rig.loop
    asyncio.set_event_loop(loop)
    state = {'new_routes': None, 'include_withdraw': False, 'send_eor': True, 'up': True}
    peer_table = {}
    problems = []
    intended = {}
    eor_seen = {'count': 0}
    session = {'snapshot': {}, 'touched': set(), 'eors': 0}

    def key_of(key):
        return str(pr.route(uni, key).nlri.cidr)

    def val_of(key):
        fam, prefix = uni.prefixes[key[0]]
        return (key[1], uni.nhs[fam][key[2]])

    def drain_written():
        for raw in pr.conn.written:
            for ev in pr.decode(uni, raw):
                if ev[0] == 'ann':
                    peer_table[ev[1]] = ev[2]
                elif ev[0] == 'wd':
                    peer_table.pop(ev[1], None)
                elif ev[0] == 'eor':
                    session['eors'] += 1
                    if session['eors'] == 1:
                        # the whole table as it stood at establishment must have been sent by now
                        for k, v in session['snapshot'].items():
                            if k in session['touched']:
                                continue
                            if peer_table.get(k) != v:
                                problems.append(('eor-before-full-table', f'End-of-RIB written while {k} {v} of the initial table was not yet sent (peer has {peer_table.get(k)})'))
                                break
        pr.conn.written = []

    async def iteration():
        nr, iw = await pr.peer._send_route_updates(state['new_routes'], state['include_withdraw'], per_iter)
        state['new_routes'], state['include_withdraw'] = nr, iw
        state['send_eor'] = await pr.peer._send_eor_messages(state['send_eor'], state['new_routes'])

    for op in ops:
        kind = op[0]
        if kind in ('ann', 'annf'):
            pr.rib.add_to_rib(pr.route(uni, op[1]), kind == 'annf')
            intended[key_of(op[1])] = val_of(op[1])
            session['touched'].add(key_of(op[1]))
        elif kind == 'wd':
            pr.rib.del_from_rib(pr.route(uni, op[1]))
            intended.pop(key_of(op[1]), None)
            session['touched'].add(key_of(op[1]))
        elif kind == 'resend':
            pr.rib.resend(op[1], None if op[2] is None else uni.fam_tuple(op[2]))
        elif kind == 'wdall':
            fams = [0, 1] if op[1] is None else op[1]
            pr.rib.withdraw(None if op[1] is None else {uni.fam_tuple(f) for f in op[1]})
            for k in list(intended):
                if (0 if '.' in k else 1) in fams:
                    intended.pop(k)
                    session['touched'].add(k)
        elif kind == 'drop':
            pr.neighbor.reset_rib()
            state.update({'new_routes': None, 'up': False})
            peer_table.clear()
            pr.conn.written = []
        elif kind == 'establish':
            if not state['up']:
                # Peer._main prologue
                pr.rib.replace_restart([], [])
                state.update({'new_routes': None, 'include_withdraw': False, 'send_eor': True, 'up': True})
                session.update({'snapshot': dict(intended), 'touched': set(), 'eors': 0})
        elif kind in ('start', 'emit'):
            if state['up']:
                loop.run_until_complete(iteration())
                drain_written()
    # drain
    if not state['up']:
        pr.rib.replace_restart([], [])
        state.update({'new_routes': None, 'include_withdraw': False, 'send_eor': True, 'up': True})
        session.update({'snapshot': dict(intended), 'touched': set(), 'eors': 0})
    for _ in range(200):
        loop.run_until_complete(iteration())
        drain_written()
        if state['new_routes'] is None and not pr.rib.pending() and not state['send_eor']:
            break
    reported = {}
    for r in pr.rib.cached_routes():
        txt = str(r.attributes)
        aid = None
        for i, a in enumerate(uni.attrs):
            if f'med {a.split()[1]}' in txt and (('community' in txt) == ('community' in a)):
                aid = i
        reported[str(r.nlri.cidr)] = (aid, str(r.nexthop))
    if pr.rib.pending() or state['new_routes'] is not None:
        problems.append(('schedule-not-drained', 'the queue did not drain in 200 iterations'))
    elif peer_table != reported:
        problems.append(('wire:peer-differs-from-reported', f'peer {peer_table} reported {reported}'))
    elif reported != intended:
        problems.append(('wire:reported-differs-from-intended', f'reported {reported} intended {intended}'))
    if session['eors'] != 2:
        problems.append(('wire:eor-count', f'{session["eors"]} End-of-RIB markers in the last session, 2 families negotiated'))
    pr.rig.close()
    from exabgp.rib import RIB

    RIB._cache.clear()
    return {'problems': problems, 'peer': peer_table, 'reported': reported}


# ------------------------------------------------------------------------------- model side

HEADER = """From Coq Require Import ZArith Bool List.
From ExaV Require Import lib.Amap model.Model_Rib.
Import ListNotations. Open Scope Z_scope.
Definition R (i f a h : Z) : route := {| ridx := i; rfam := f; rattr := a; rnh := h |}.
"""


def coq_op(uni, op, emits_per_flatten):
    kind = op[0]
    if kind == 'wadd':
        i, f, a, h = uni.ids(uni.routes[op[1]])
        return f'WAdd (R {i} {f} {a} {h}) {op[2]} {"true" if op[3] else "false"}'
    if kind == 'wann':
        return f'WAnnounce {op[1]}'
    if kind == 'wwd':
        return f'WWithdraw {op[1]}'
    return 'Base (' + coq_base_op(uni, op) + ')'


def coq_base_op(uni, op):
    kind = op[0]
    if kind in ('ann', 'annf', 'wd'):
        i, f, a, h = uni.ids(uni.routes[op[1]])
        c = {'ann': 'Ann', 'annf': 'AnnForce', 'wd': 'Wd'}[kind]
        return f'{c} (R {i} {f} {a} {h})'
    if kind == 'resend':
        fams = '[0;1]' if op[2] is None else f'[{op[2]}]'
        return f'Resend {"true" if op[1] else "false"} {fams}'
    if kind == 'wdall':
        fams = '[0;1]' if op[1] is None else '[' + ';'.join(str(f) for f in op[1]) + ']'
        return f'WdAll {fams}'
    if kind == 'start':
        return 'Start'
    if kind == 'drop':
        return 'Drop'
    if kind == 'establish':
        return 'Establish'
    return 'Emit'


def parse_obs(zs):
    """flat list of Z from Model_Rib.observe -> dict like run_impl's"""
    gens, seen, peer, intended, pending = [], [], {}, {}, None
    mode, cur = None, []
    i = 0

    def flush():
        nonlocal cur
        if mode == -1:
            gens.append([tuple(cur[k : k + 4]) for k in range(0, len(cur), 4)])
        elif mode == -2:
            seen.extend(tuple(cur[k : k + 3]) for k in range(0, len(cur), 3))
        elif mode == -3:
            for k in range(0, len(cur), 3):
                peer[cur[k]] = (cur[k + 1], cur[k + 2])
        elif mode == -4:
            for k in range(0, len(cur), 3):
                intended[cur[k]] = (cur[k + 1], cur[k + 2])
        cur = []

    for z in zs:
        if z < 0:
            flush()
            mode = z
        else:
            cur.append(z)
    flush()
    pending = bool(cur[0]) if False else None
    return gens, sorted(seen), peer, intended


def canon_gen(g):
    """order inside a section is dictionary/set iteration order: compare sections as sorted lists,
    but keep the per-index order of announces (that is what decides the peer's table)"""
    sec = {1: 0, 3: 1, 2: 2, 4: 3}
    # sections: refresh-start, refresh routes, refresh-end, withdraws, announces - the model does
    # not distinguish refresh re-announcements from announces, so split at the last RefEnd/first withdraw
    return sorted(g)


def model_eval(uni, cases, tag, emit_counts=None):
    """cases: list of (cache, ops) -> list of flat Z lists.  One implementation `emit` sends one
    UpdateCollection, which may carry several NLRIs (grouped ipv4 unicast): the model consumes as many
    single-NLRI elements as the implementation sent."""
    shards = common.chunked(list(range(len(cases))), 250)

    def defs(idx):
        items = []
        for i in idx:
            cache, ops = cases[i]
            counts = list(emit_counts[i]) if emit_counts else None
            parts = []
            for o in ops:
                if o[0] == 'emit' and counts is not None:
                    parts += ['Base Emit'] * max(1, counts.pop(0))
                else:
                    parts.append(coq_op(uni, o, None))
            items.append(f'wobserve {"true" if cache else "false"} [' + '; '.join(parts) + ']')
        return 'Eval vm_compute in [' + ';\n'.join(items) + '].\n'

    res = common.eval_cases(HEADER, defs, shards, tag)
    out = [None] * len(cases)
    ok = True
    logs = []
    for shard, (rc, text, parsed) in zip(shards, res):
        if rc != 0 or not parsed:
            ok = False
            logs.append(text[-1500:])
            continue
        body = parsed[0]
        lists = re.findall(r'\[([^\[\]]*)\]', body)
        if len(lists) != len(shard):
            ok = False
            logs.append(f'expected {len(shard)} results, parsed {len(lists)}')
            continue
        for i, l in zip(shard, lists):
            out[i] = [int(x) for x in re.findall(r'-?\d+', l)]
    return ok, out, logs


# ------------------------------------------------------------------------------- generation


def gen_ops(rng, uni, n, cache, sessions=False):
    keys = list(uni.routes)
    ops = []
    # bias: a small set of prefixes so that the same index is hit with different attributes
    hot = rng.sample(range(len(uni.prefixes)), k=min(2, len(uni.prefixes)))
    for _ in range(n):
        if sessions and rng.random() < 0.12:
            ops.append(rng.choice([('drop',), ('drop',), ('establish',)]))
            continue
        x = rng.random()
        p = rng.choice(hot) if rng.random() < 0.7 else rng.randrange(len(uni.prefixes))
        key = (p, rng.randrange(len(uni.attrs)), rng.randrange(2))
        if rng.random() < 0.10:
            y = rng.random()
            if y < 0.5:
                ops.append(('wadd', key, rng.randrange(2), rng.random() < 0.4))
            elif y < 0.75:
                ops.append(('wann', rng.randrange(2)))
            else:
                ops.append(('wwd', rng.randrange(2)))
        elif x < 0.32:
            ops.append(('ann', key))
        elif x < 0.37:
            ops.append(('annf', key))
        elif x < 0.55:
            ops.append(('wd', key))
        elif x < 0.60:
            ops.append(('resend', rng.random() < 0.5, rng.choice([None, 0, 1])))
        elif x < 0.63:
            ops.append(('wdall', rng.choice([None, [0], [1]])))
        elif x < 0.78:
            ops.append(('start',))
        else:
            ops.append(('emit',))
    return ops


def close_schedule(ops):
    """drain: finish the live generator, then one more flush, fully consumed"""
    tail = [('establish',)] + [('emit',)] * 39 + [('start',)] + [('emit',)] * 60 + [('start',)] + [('emit',)] * 10
    return list(ops) + tail


TAIL = len(close_schedule([]))


def expected_table(uni, ops):
    """the operator's intention, independent of the RIB: last announce / withdraw per index"""
    t = {}
    wd = {}
    for op in ops:
        if op[0] == 'wadd':
            i, f, a, h = uni.ids(uni.routes[op[1]])
            wd.setdefault(op[2], {'+': {}, '-': {}})['-' if op[3] else '+'][i] = (a, h)
            if not op[3]:
                t[i] = (a, h)
        elif op[0] == 'wann' and op[1] in wd:
            for i, v in wd[op[1]]['-'].items():
                t[i] = v
            wd[op[1]]['+'].update(wd[op[1]]['-'])
            wd[op[1]]['-'] = {}
        elif op[0] == 'wwd' and op[1] in wd:
            for i in wd[op[1]]['+']:
                t.pop(i, None)
            wd[op[1]]['-'].update(wd[op[1]]['+'])
            wd[op[1]]['+'] = {}
        if op[0] in ('ann', 'annf'):
            i, f, a, h = uni.ids(uni.routes[op[1]])
            t[i] = (a, h)
        elif op[0] == 'wd':
            i, f, a, h = uni.ids(uni.routes[op[1]])
            t.pop(i, None)
        elif op[0] == 'wdall':
            fams = [0, 1] if op[1] is None else op[1]
            for k in list(t):
                if uni.fam_of_idx[k] in fams:
                    t.pop(k)
    return t


def check(tier, seed, pid='C04'):
    run = Run(pid, tier, seed)
    run.trusted = [
        'Coq 8.16.1 kernel (coqc), vm_compute for case evaluation; no native_compute',
        'harness/c04.py: abstraction of Route objects to (index, family, attribute index, next hop index) ids, flattening of '
        'UpdateCollection into per-NLRI announce/withdraw, comparison of generator output as sorted lists (dictionary and '
        'set iteration order between DIFFERENT indexes is not compared; the peer table is computed from the real order)',
        'modelled, not verified: OutgoingRIB/Cache (hand model Model_Rib); UpdateCollection.messages() wire encoding is C01/C09',
    ]
    run.assumptions = [
        'adj-rib-out kept (cache on) and no negotiated paths-limit (reading decision C04/C11)',
        'every family of the routes is negotiated; the peer applies UPDATEs in the order sent',
    ]
    common.standard_build(run, [])

    rng = random.Random(seed)
    uni = Universe(4)
    uni.fam_of_idx = {}
    for k, rt in uni.routes.items():
        i, f, a, h = uni.ids(rt)
        uni.fam_of_idx[i] = f
    n = 1200 if tier == 'quick' else 40000
    cases = []
    for _ in range(n):
        cache = True if rng.random() < 0.9 else False
        ops = close_schedule(gen_ops(rng, uni, rng.choice([3, 6, 10, 18, 25]), cache, sessions=(pid == 'C11')))
        cases.append((cache, rng.random() < 0.5, ops))
    # small-scope exhaustive: all sequences of length <= L over 1 prefix x 2 attribute sets x {ann, wd, start, emit}
    L = 5 if tier == 'quick' else 7
    alpha = [('ann', (0, 0, 0)), ('ann', (0, 1, 0)), ('wd', (0, 0, 0)), ('start',), ('emit',)]
    if pid == 'C11':
        alpha = [('ann', (0, 0, 0)), ('ann', (1, 1, 0)), ('wd', (0, 0, 0)), ('start',), ('emit',), ('drop',), ('establish',)]
        L = 4 if tier == 'quick' else 6
    exhaustive = 0
    for ln in range(1, L + 1):
        for seq in itertools.product(alpha, repeat=ln):
            cases.append((True, False, close_schedule(list(seq))))
            exhaustive += 1
    # known-shape regression: announce x, announce y, announce x before the flush
    cases.append((True, False, close_schedule([('ann', (0, 0, 0)), ('ann', (0, 1, 0)), ('ann', (0, 0, 0))])))

    impl = [run_impl(uni, cache, grouped, ops) for cache, grouped, ops in cases]
    ok, model, logs = model_eval(uni, [(c, o) for c, g, o in cases], 'c04', [im['emit_counts'] for im in impl])
    run.obligation('model evaluation (vm_compute of Model_Rib.observe on every case) ran', ok, '\n'.join(logs)[-2000:])

    corr_bad, conv_bad = [], []
    opmix = collections.Counter()
    for idx, ((cache, grouped, ops), im, mo) in enumerate(zip(cases, impl, model)):
        for o in ops[: len(ops) - TAIL]:
            opmix[o[0]] += 1
        if mo is not None:
            gens, seen, mpeer, mint = parse_obs(mo)
            igens = [g for g in im['gens']]
            def gens_match():
                if len(gens) != len(igens):
                    return False
                for n, (mg, ig) in enumerate(zip(gens, igens)):
                    if n in im['partial']:
                        need = collections.Counter(ig)
                        have = collections.Counter(mg)
                        if any(have[k] < v for k, v in need.items()):
                            return False
                    elif sorted(mg) != sorted(ig):
                        return False
                return True

            same = (
                gens_match()
                and (not cache or seen == im['seen'])
                and mpeer == im['peer']
            )
            if not same:
                corr_bad.append(idx)
        # property oracle (independent of the model): drained -> peer table = reported table = intention
        if cache and im['readvertised']:
            conv_bad.append((idx, 'withdrawn-while-down-readvertised', f'{im["readvertised"]}'))
        if cache:
            reported = {i: (a, h) for i, a, h in im['seen']}
            want = expected_table(uni, ops)
            if im['pending'] or im['live']:
                conv_bad.append((idx, 'schedule-not-drained', 'the queue did not drain'))
            elif im['peer'] != reported:
                conv_bad.append((idx, 'peer-differs-from-reported', f'peer {im["peer"]} reported {reported}'))
            elif reported != want:
                conv_bad.append((idx, 'reported-differs-from-intended', f'reported {reported} intended {want}'))

    # wire-level pass through the real Peer/Protocol functions on a sample of the same histories
    wire_bad = []
    n_wire = 250 if tier == 'quick' else 5000
    rngw = random.Random(seed + 7)
    wire_idx = rngw.sample(range(len(cases)), min(n_wire, len(cases)))
    long_hist = [('ann', (p, a, 0)) for p in range(len(uni.prefixes)) for a in (0, 1)]  # more UPDATEs than one iteration sends
    wire_cases = [(cases[i][2][: len(cases[i][2]) - TAIL], rngw.choice([1, 2, 3, 25])) for i in wire_idx if cases[i][0]]
    wire_cases.append((long_hist + [('emit',)] * 2 + [('ann', (0, 2, 1))] + [('emit',)] * 2, 2))
    wire_cases.append((long_hist + [('drop',), ('establish',)] + [('emit',)] * 3, 3))
    for wops, per_iter in wire_cases:
        wops = [o for o in wops if o[0] not in ('wadd', 'wann', 'wwd')]
        if pid != 'C11':
            wops = [o for o in wops if o[0] not in ('drop', 'establish')]
        res = run_peer_mode(uni, wops, per_iter)
        for sig, what in res['problems']:
            wire_bad.append((sig, what, wops, per_iter))
    run.obligation(f'property oracle (wire level): the same histories through the real Peer._send_route_updates / _send_eor_messages / '
                   f'Protocol.new_update_generator on {len(wire_cases)} histories: decoded peer table = cached_routes() = intention, one End-of-RIB per '
                   'family after the initial table',
                   not wire_bad, f'{len(wire_bad)} failing; first: {wire_bad[0][:2] if wire_bad else ""}')
    seen_wire = set()
    for sig, what, wops, per_iter in wire_bad:
        if sig in seen_wire:
            continue
        seen_wire.add(sig)
        run.fail_case(sig, what, {'operations': [str(o) for o in wops], 'routes_per_iteration': per_iter})

    first = ''
    if corr_bad:
        c = cases[corr_bad[0]]
        first = f'ops={c[2][: len(c[2]) - TAIL]} cache={c[0]} impl={impl[corr_bad[0]]} model={parse_obs(model[corr_bad[0]]) if model[corr_bad[0]] else None}'
    run.obligation(f'correspondence: OutgoingRIB generator output, cached_routes() and peer table = Model_Rib on {len(cases)} histories',
                   not corr_bad, f'{len(corr_bad)} disagreements; first: {first}')
    run.obligation(f'property oracle: after draining, peer table = cached_routes() = operator intention on {len(cases)} histories',
                   not conv_bad, f'{len(conv_bad)} failing; first: {conv_bad[0] if conv_bad else ""}')

    seen_sig = set()
    for idx, sig, what in conv_bad:
        if sig in seen_sig:
            continue
        seen_sig.add(sig)
        cache, grouped, ops = cases[idx]
        core = ops[: len(ops) - TAIL]
        # shrink: drop operations while the same failure remains

        def fails(cand):
            im = run_impl(uni, cache, grouped, close_schedule(cand))
            rep = {i: (a, h) for i, a, h in im['seen']}
            if sig == 'withdrawn-while-down-readvertised':
                return bool(im['readvertised'])
            if sig == 'peer-differs-from-reported':
                return im['peer'] != rep and not im['pending']
            if sig == 'reported-differs-from-intended':
                return im['peer'] == rep and rep != expected_table(uni, cand)
            return im['pending'] or im['live']

        changed = True
        while changed:
            changed = False
            for k in range(len(core)):
                cand = core[:k] + core[k + 1 :]
                if fails(cand):
                    core, changed = cand, True
                    break
        im = run_impl(uni, cache, grouped, close_schedule(core))
        pretty = []
        for o in core:
            if o[0] == 'wadd':
                p, a, h = o[1]
                pretty.append(f'add_to_rib_watchdog {uni.prefixes[p][1]} next-hop {uni.nhs[uni.prefixes[p][0]][h]} {uni.attrs[a]} watchdog {DOGS[o[2]]}{" withdraw" if o[3] else ""}')
            elif o[0] in ('wann', 'wwd'):
                pretty.append(f'{"announce" if o[0] == "wann" else "withdraw"} watchdog {DOGS[o[1]]}')
            elif o[0] in ('ann', 'annf', 'wd'):
                p, a, h = o[1]
                pretty.append(f'{o[0]} {uni.prefixes[p][1]} next-hop {uni.nhs[uni.prefixes[p][0]][h]} {uni.attrs[a]}')
            else:
                pretty.append(' '.join(str(x) for x in o))
        run.fail_case(sig, what, {'operations': pretty, 'then': 'flush and drain', 'peer_table': str(im['peer']),
                                  'cached_routes': str(im['seen']), 'grouped': grouped})

    run.coverage.update({
        'evaluations': len(cases),
        'distinct_nontrivial': len({(c, tuple(map(str, o))) for c, g, o in cases if len(o) > TAIL + 1}),
        'rule': f'{n} random histories of 3-25 operations (announce / forced announce / withdraw of 6 prefixes x 3 attribute '
                f'sets x 2 next hops biased to 2 hot prefixes, flush=resend with/without enhanced refresh, clear=withdraw '
                f'all, generator start and single-step consumption interleaved at random) each closed by a draining '
                f'schedule; plus all {exhaustive} sequences of length <= {L} over {{announce x, announce y, withdraw, start, '
                f'emit}} on one prefix (exhaustive for that scope); non-trivial = distinct history with at least 2 operations',
        'operation_mix': dict(opmix),
        'exhaustive_small_scope': {'max_length': L, 'histories': exhaustive},
        'exhaustive': False,
    })
    c = cases[0]
    run.samples.append({'cache': c[0], 'grouped': c[1], 'ops': [str(o) for o in c[2][: len(c[2]) - TAIL]], 'impl': str(impl[0])[:400]})
    if run.broken() and not run.failing:
        run.coverage['search'] = f'{len(cases)} histories incl. all of length <= {L} on one prefix judged by the convergence oracle; none failed'
    return run.finish(checker_cmd=f'make -C coq props/Prop_{pid}.vo && coqc -Q coq ExaV coq/props/Prop_{pid}.v (Print Assumptions)')
