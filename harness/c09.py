"""C09 - generated UPDATEs fit the negotiated size and lose nothing.  H-enc + property oracle.

Drives the real UpdateCollection(announces, withdraws, attributes).messages(negotiated); every yielded
message is judged by an independent oracle (length, parses on its own, union of announced/withdrawn
NLRIs with next hops = request) and its structure (which NLRI sizes went into which field of which
message) is compared with Model_Split.messages evaluated in Coq on the abstract sizes.  The model in
Model_Split is the code WITH the proposed D12 patch (`split`); the pinned code (`split_pinned`) is
evaluated too, only to say which of the two the implementation behaves like."""

from __future__ import annotations

import collections
import contextlib
import glob
import json
import os
import random
import socket
import time
import traceback

from harness import common
from harness.common import Run

ALL_FAMILIES = 'ipv4 unicast ipv4 multicast ipv6 unicast ipv6 multicast ipv4 mpls-vpn ipv6 mpls-vpn ipv4 nlri-mpls'
SESSIONS = {
    'v4v6': ('ipv4 unicast ipv6 unicast', False),
    'all': (ALL_FAMILIES, False),
    'all+ap': (ALL_FAMILIES, True),
    'v4only': ('ipv4 unicast', False),  # ipv6 routes are not of a negotiated family: filtered
    'v4v6+ap': ('ipv4 unicast ipv6 unicast', True),
    # sessions WITHOUT ipv4 unicast (an IPv6-only / MP-only peer): the IPv4 fields of an UPDATE must stay empty
    'v6only': ('ipv6 unicast', False),
    'mponly': ('ipv6 unicast ipv4 mpls-vpn', False),
}
FILL_SESSIONS = ['v4v6', 'all', 'all+ap', 'v4only', 'v4v6+ap']
NH4 = '1.2.3.4'
GENERIC_CODE = 0x99

# ------------------------------------------------------------------------------- implementation side


class Session:
    def __init__(self, key, msg_size):
        from exabgp.configuration.setup import create_minimal_configuration
        from exabgp.configuration.check import _negotiated

        fams, addpath = SESSIONS[key]
        self.key = key
        self.conf = create_minimal_configuration(families=fams, add_path=addpath)
        self.neighbor = next(iter(self.conf.neighbors.values()))
        if addpath:
            self.neighbor.capability.add_path = 3
        self.neg_in, self.neg = _negotiated(self.neighbor)
        self.neg.msg_size = msg_size
        self.neg_in.msg_size = msg_size
        self.msg_size = msg_size
        self.attr_cache = {}
        self.nlri_cache = {}
        a10 = self._attrs(10)
        self.other = len(a10.pack_attribute(self.neg, True)) - 13  # everything but the generic attribute

    def _attrs(self, vlen):
        """AttributeCollection with next-hop NH4 and (vlen >= 0) a generic attribute of vlen value bytes."""
        if vlen not in self.attr_cache:
            text = f'route 10.0.0.0/24 next-hop {NH4}'
            if vlen >= 1:
                text += f' attribute [ 0x{GENERIC_CODE:02X} 0xC0 0x' + 'ab' * vlen + ' ]'
            routes = self.conf.parse_route_text(text)
            if not routes:
                raise RuntimeError('could not build attributes: ' + text[:80])
            self.attr_cache[vlen] = routes[0].attributes
        return self.attr_cache[vlen]

    def attributes(self, spec):
        """spec = ['room', r] (attributes sized so that msg_size - 23 - len(attr) = r with defaults), or
        ['glen', v] (generic attribute of v value bytes, v = -1: none)."""
        kind, val = spec
        if kind == 'glen':
            return self._attrs(val if val > 0 else -1)
        target = self.msg_size - 23 - val - self.other  # bytes available for the generic attribute
        if target < 4:
            return self._attrs(-1)
        if target - 3 <= 255:
            v = target - 3
        elif target - 4 > 255:
            v = target - 4
        else:  # 259 bytes cannot be made by one attribute (255+3 = 258, 256+4 = 260): one byte more room
            v = 255
        return self._attrs(max(v, 1))

    def nlri(self, d):
        from exabgp.bgp.message.update.nlri.inet import INET
        from exabgp.bgp.message.update.nlri.qualifier import PathInfo
        from exabgp.protocol.family import AFI, SAFI

        key = json.dumps(d, sort_keys=True)
        if key in self.nlri_cache:
            return self.nlri_cache[key]
        afi_s, safi_s = d['f'].split()
        v6 = afi_s == 'ipv6'
        if safi_s in ('unicast', 'multicast'):
            packed = socket.inet_pton(socket.AF_INET6 if v6 else socket.AF_INET, d['ip'])
            pi = PathInfo.make_from_integer(d['pid']) if d.get('pid') is not None else PathInfo.DISABLED
            n = INET.make_route(AFI.ipv6 if v6 else AFI.ipv4, SAFI.unicast if safi_s == 'unicast' else SAFI.multicast,
                                packed, d['mask'], path_info=pi)
        else:
            text = f'route {d["ip"]}/{d["mask"]} next-hop {d["nh"]}'
            if safi_s == 'mpls-vpn':
                text += f' rd {d["rd"]}'
            text += f' label {d["label"]}'
            if d.get('pid') is not None:
                text += f' path-information {d["pid"]}'
            routes = self.conf.parse_route_text(text)
            if not routes:
                raise RuntimeError('could not parse ' + text)
            n = routes[0].nlri
        self.nlri_cache[key] = n
        return n


_SESS = {}


def session(key, msg_size):
    if (key, msg_size) not in _SESS:
        _SESS[(key, msg_size)] = Session(key, msg_size)
    return _SESS[(key, msg_size)]


@contextlib.contextmanager
def observe_attr(rec):
    """Record what AttributeCollection.pack_attribute returns while messages() runs (observation only)."""
    from exabgp.bgp.message.update.attribute.collection import AttributeCollection

    orig = AttributeCollection.pack_attribute

    def wrapped(self, negotiated, with_default=True):
        out = orig(self, negotiated, with_default)
        rec['attr'] = bytes(out)
        rec['with_default'] = with_default
        return out

    AttributeCollection.pack_attribute = wrapped
    try:
        yield
    finally:
        AttributeCollection.pack_attribute = orig


def build(case):
    from exabgp.bgp.message.update.collection import RoutedNLRI
    from exabgp.protocol.ip import IP

    sess = session(case['sess'], case['M'])
    ann = [RoutedNLRI(sess.nlri(d), IP.from_string(d['nh'])) for d in case['ann']]
    wd = [sess.nlri(d) for d in case['wd']]
    return sess, ann, wd, sess.attributes(case['attr'])


def run_impl(case):
    """-> dict(msgs=[bytes], exc=None|(type, text, where), attr=bytes|None)"""
    from exabgp.bgp.message.update.collection import UpdateCollection

    sess, ann, wd, attrs = build(case)
    rec, msgs, exc = {}, [], None
    full = bytes(attrs.pack_attribute(sess.neg, True))  # the requested attributes, defaults included
    minb = bytes(attrs.pack_attribute(sess.neg, False))  # what a withdraw-only MP UPDATE may carry instead
    with observe_attr(rec):
        try:
            for m in UpdateCollection(ann, wd, attrs).messages(sess.neg):
                msgs.append(bytes(m))
        except Exception as e:  # any exception out of messages() is an observation
            tb = traceback.extract_tb(e.__traceback__)
            exc = (type(e).__name__, str(e)[:120], tb[-1].name if tb else '')
    return {'msgs': msgs, 'exc': exc, 'attr': rec.get('attr'), 'full': full, 'min': minb}


# ------------------------------------------------------------------------------- abstraction (case -> model input)


def fam_tag(fam):
    return int(fam[0]) * 256 + int(fam[1])


def v4_safis():
    """Which SAFIs of AFI ipv4 messages() packs into the plain IPv4 fields: read from its source, fail closed."""
    import inspect

    from exabgp.bgp.message.update.collection import UpdateCollection
    from exabgp.protocol.family import SAFI

    src = inspect.getsource(UpdateCollection.messages)
    if src.count('is_v4 = is_v4 and nlri.safi in [SAFI.unicast, SAFI.multicast]') == 2:
        return (SAFI.unicast, SAFI.multicast)
    if src.count('is_v4 = is_v4 and nlri.safi == SAFI.unicast') == 2:
        return (SAFI.unicast,)
    raise RuntimeError('UpdateCollection.messages: the IPv4/MP classification is not one of the known forms')


def abstract(case):
    """The inputs of the packing loops, as the code prepares them: sort, negotiated-family filter,
    IPv4/MP classification, MP family order, next-hop key (real _encode_nexthop), packed sizes."""
    from exabgp.bgp.message.update.nlri.collection import MPNLRICollection
    from exabgp.protocol.family import AFI, SAFI

    sess, ann, wd, _ = build(case)
    neg = sess.neg
    plain = v4_safis()
    v4a, v4w, mpa, mpw = [], [], {}, {}
    for routed in sorted(ann, key=lambda r: r.nlri):
        nlri, nh = routed.nlri, routed.nexthop
        fam = nlri.family().afi_safi()
        if fam not in neg.families:
            continue
        if nlri.afi == AFI.ipv4 and nlri.safi in plain and nh.afi == AFI.ipv4:
            v4a.append(nlri)
        else:
            mpa.setdefault(fam, []).append(routed)
    for nlri in sorted(wd):
        fam = nlri.family().afi_safi()
        if fam not in neg.families:
            continue
        if nlri.afi == AFI.ipv4 and nlri.safi in plain:
            v4w.append(nlri)
        else:
            mpw.setdefault(fam, []).append(nlri)
    order = list(set(mpa.keys()) | set(mpw.keys()))
    size = lambda n: len(n.pack_nlri(neg))  # noqa: E731
    nhids = {}
    fams = []
    for fam in order:
        coll = MPNLRICollection([], {}, fam[0], fam[1])
        routed = []
        for r in mpa.get(fam, []):
            key = bytes(coll._encode_nexthop(r.nexthop, fam, neg))
            nid = nhids.setdefault(key, len(nhids))
            routed.append((nid, len(key), size(r.nlri)))
        fams.append({'tag': fam_tag(fam), 'routed': routed, 'wds': [size(n) for n in mpw.get(fam, [])]})
    return {'v4a': [size(n) for n in v4a], 'v4w': [size(n) for n in v4w], 'fams': fams,
            'nhkeys': {v: k.hex() for k, v in nhids.items()}}


# ------------------------------------------------------------------------------- wire reading (harness own)


def split_nlris(data, addpath):
    """Sizes of the length-prefixed NLRIs of a field (all generated families: [path id 4] bits(1) data)."""
    sizes, off = [], 0
    while off < len(data):
        start = off
        if addpath:
            off += 4
        if off >= len(data):
            return None
        off += 1 + (data[off] + 7) // 8
        if off > len(data):
            return None
        sizes.append(off - start)
    return sizes


def read_wire(m, full, minb, addpath_of, strict=True):
    """-> structured message: wd sizes, unreach (tag, sizes), attr (= the attributes other than MP_REACH/MP_UNREACH
    are exactly the requested block `full`), rest (those bytes), reach (tag, nh hex, sizes), ann sizes;
    None when the bytes are not a well-formed UPDATE of the expected shape (strict: also when the other
    attributes are neither `full` nor `minb` nor absent)."""
    if len(m) < 23 or m[:16] != b'\xff' * 16 or m[18] != 2 or (m[16] << 8 | m[17]) != len(m):
        return None
    body = m[19:]
    wl = body[0] << 8 | body[1]
    if 2 + wl + 2 > len(body):
        return None
    wd = body[2 : 2 + wl]
    al = body[2 + wl] << 8 | body[3 + wl]
    if 4 + wl + al > len(body):
        return None
    attrs = body[4 + wl : 4 + wl + al]
    ann = body[4 + wl + al :]
    v4ap = addpath_of((1, 1))
    out = {'wd': split_nlris(wd, v4ap), 'ann': split_nlris(ann, v4ap), 'unreach': None, 'reach': None}
    rest = b''
    off = 0
    while off < len(attrs):
        if off + 3 > len(attrs):
            return None
        flag, code = attrs[off], attrs[off + 1]
        if flag & 0x10:
            if off + 4 > len(attrs):
                return None
            ln, hl = attrs[off + 2] << 8 | attrs[off + 3], 4
        else:
            ln, hl = attrs[off + 2], 3
        val = attrs[off + hl : off + hl + ln]
        if len(val) != ln:
            return None
        if code == 15 and out['unreach'] is None and not rest and out['reach'] is None:
            fam = (val[0] << 8 | val[1], val[2])
            out['unreach'] = (fam_tag(fam), split_nlris(val[3:], addpath_of(fam)))
        elif code == 14 and out['reach'] is None:
            fam = (val[0] << 8 | val[1], val[2])
            nl = val[3]
            out['reach'] = (fam_tag(fam), val[4 : 4 + nl].hex(), split_nlris(val[5 + nl :], addpath_of(fam)))
            if off + hl + ln != len(attrs):
                return None  # MP_REACH is last
        else:
            rest += attrs[off : off + hl + ln]
        off += hl + ln
    out['rest'] = rest
    out['attr'] = bool(full) and rest == full
    if strict and rest not in (b'', full, minb):
        return None
    if out['wd'] is None or out['ann'] is None:
        return None
    if out['unreach'] and out['unreach'][1] is None or out['reach'] and out['reach'][2] is None:
        return None
    return out


# ------------------------------------------------------------------------------- property oracle


def attr_len(p):
    return p + (4 if p > 255 else 3)


def oracle(case, res):
    """Judge the implementation's output by the property alone.  -> list of (sig, what)."""
    from exabgp.bgp.message import Message
    from exabgp.protocol.family import AFI, SAFI

    sess, ann, wd, _ = build(case)
    neg, neg_in, M = sess.neg, sess.neg_in, case['M']
    fails = []
    if res['exc'] is not None:
        ty, text, where = res['exc']
        fails.append((f'raise:{ty}:{where}', f'messages() raised {ty}({text!r}) in {where}'))
    got_ann, got_wd = collections.Counter(), collections.Counter()
    full = res['full']
    for i, m in enumerate(res['msgs']):
        s = read_wire(m, full, res['min'], lambda f: neg.addpath.send(AFI(f[0]), SAFI(f[1])), strict=False)
        if len(m) > M:
            path = 'mp-reach' if s and s['reach'] else 'mp-unreach' if s and s['unreach'] else 'v4'
            fails.append((f'oversize:{path}', f'message {i} is {len(m)} bytes, negotiated maximum {M}'))
        if s is not None and (s['ann'] or s['reach'] is not None) and s['rest'] != full:
            path = 'v4' if s['ann'] else 'mp-reach'
            fails.append((f'attributes-differ:{path}', f'message {i} announces routes ({path}) with {len(s["rest"])} bytes of '
                          f'path attributes instead of the {len(full)} bytes requested (ORIGIN, AS_PATH, NEXT_HOP, LOCAL_PREF, '
                          f'generic ...): {s["rest"][:24].hex()} vs {full[:24].hex()}'))
        try:
            upd = Message.unpack(Message.CODE.UPDATE, m[19:], neg_in)
            data = upd.data
            anns, wds = list(data.announces), list(data.withdraws)
        except Exception as e:
            fails.append((f'unparsable:{type(e).__name__}', f'message {i} does not parse on its own: {e!r}'[:200]))
            continue
        for r in anns:
            fam = r.nlri.family().afi_safi()
            try:
                nhx = bytes(r.nexthop.pack_ip()).hex()
            except Exception:
                nhx = 'no-next-hop'
            got_ann[(fam_tag(fam), bytes(r.nlri.pack_nlri(neg)).hex(), nhx)] += 1
        for n in wds:
            got_wd[(fam_tag(n.family().afi_safi()), bytes(n.pack_nlri(neg)).hex())] += 1
    negotiated_announce = any(r.nlri.family().afi_safi() in neg.families for r in ann)
    # what the attributes leave: the requested block whenever something is announced; for a request made of
    # withdraws only either block is legitimate, the one the implementation packed is taken
    attr = full if negotiated_announce else (res['attr'] if res['attr'] is not None else full)
    room = M - 23 - len(attr)
    want_ann, want_wd, fit_a, fit_w = set(), set(), {}, {}
    for r in ann:
        fam = r.nlri.family().afi_safi()
        if fam not in neg.families:
            continue
        p = bytes(r.nlri.pack_nlri(neg))
        k = (fam_tag(fam), p.hex(), bytes(r.nexthop.pack_ip()).hex())
        want_ann.add(k)
        v4 = r.nlri.afi == AFI.ipv4 and r.nlri.safi == SAFI.unicast and r.nexthop.afi == AFI.ipv4
        from exabgp.bgp.message.update.nlri.collection import MPNLRICollection

        nhl = 0 if v4 else len(MPNLRICollection([], {}, fam[0], fam[1])._encode_nexthop(r.nexthop, fam, neg))
        fit_a[k] = len(p) <= room if v4 else attr_len(5 + nhl + len(p)) <= room
    for n in wd:
        fam = n.family().afi_safi()
        if fam not in neg.families:
            continue
        p = bytes(n.pack_nlri(neg))
        k = (fam_tag(fam), p.hex())
        want_wd.add(k)
        v4 = n.afi == AFI.ipv4 and n.safi == SAFI.unicast
        fit_w[k] = len(p) <= room if v4 else attr_len(3 + len(p)) <= room
    extra_a, extra_w = set(got_ann) - want_ann, set(got_wd) - want_wd
    famname = lambda t: f'{t // 256}/{t % 256}'  # noqa: E731
    UNI, MCAST = 257, 258
    as_uni_a = {k for k in extra_a if k[0] == UNI and (MCAST,) + k[1:] in want_ann}
    as_uni_w = {k for k in extra_w if k[0] == UNI and (MCAST,) + k[1:] in want_wd}
    if as_uni_a or as_uni_w:
        fails.append(('ipv4-multicast-sent-as-unicast', f'{len(as_uni_a)} announces / {len(as_uni_w)} withdraws of ipv4 multicast '
                      'are carried in the plain IPv4 fields, i.e. sent as ipv4 unicast (RFC 4760: MP_REACH/MP_UNREACH)'))
        extra_a, extra_w = extra_a - as_uni_a, extra_w - as_uni_w
        want_ann = {k for k in want_ann if (UNI,) + k[1:] not in as_uni_a}
        want_wd = {k for k in want_wd if (UNI,) + k[1:] not in as_uni_w}
    if extra_a or extra_w:
        tags = ','.join(sorted({famname(k[0]) for k in extra_a | extra_w}))
        fails.append((f'extra:{tags}', f'messages carry routes that were not requested (afi/safi {tags}): '
                      f'{sorted(extra_a)[:2]} {sorted(extra_w)[:2]}'))
    mcast = bool(as_uni_a or as_uni_w)  # already reported; the fit judgements below assume RFC 4760 placement
    all_fit = all(fit_a.values()) and all(fit_w.values()) and room > 0
    none_fit = not any(fit_a.values()) and not any(fit_w.values())
    if all_fit and not mcast:
        miss_a, miss_w = want_ann - set(got_ann), want_wd - set(got_wd)
        if miss_a or miss_w:
            kind = 'announce' if miss_a else 'withdraw'
            tags = ','.join(sorted({famname(k[0]) for k in miss_a | miss_w}))
            if res['exc'] is not None:
                tags = 'after-exception'
            fails.append((f'lost:{kind}:{tags}', f'{len(miss_a)} announces / {len(miss_w)} withdraws requested (afi/safi {tags}), '
                          f'every one fits on its own in the {room} bytes left by the attributes, but they are in no message'))
    if none_fit and not mcast and (want_ann or want_wd) and res['msgs']:
        fails.append(('message-without-room', f'no prefix fits the {room} bytes left, yet {len(res["msgs"])} message(s) produced'))
    return fails, {'room': room, 'all_fit': all_fit, 'none_fit': none_fit and bool(want_ann or want_wd)}


# ------------------------------------------------------------------------------- Coq evaluation

HEADER = """From Coq Require Import ZArith Bool List.
From ExaV Require Import spec.Spec_Split model.Model_Split.
Import ListNotations. Open Scope Z_scope.
Definition NHt := (Z * Z)%type.
Definition nheq (a b : NHt) := (fst a =? fst b) && (snd a =? snd b).
Definition M_ := msg Z NHt Z.
Definition simple (t : Z) : bool := let s := t mod 256 in (s =? 1) || (s =? 2).
Definition run (fx : bool) := @messages_top Z NHt Z (fun x => x) snd nheq fx simple.
Fixpoint zl_eqb (a b : list Z) : bool :=
  match a, b with [], [] => true | x :: a', y :: b' => (x =? y) && zl_eqb a' b' | _, _ => false end.
Definition ou_eqb (a b : option (Z * list Z)) : bool :=
  match a, b with None, None => true | Some (f, l), Some (g, k) => (f =? g) && zl_eqb l k | _, _ => false end.
Definition or_eqb (a b : option (Z * NHt * list Z)) : bool :=
  match a, b with None, None => true
  | Some (f, n, l), Some (g, m, k) => (f =? g) && nheq n m && zl_eqb l k | _, _ => false end.
(* incl = the block the model packed is the requested one; the flag of the implementation side says
   "the attributes other than MP_(UN)REACH are exactly the requested block" *)
Definition m_eqb (incl : bool) (a b : M_) : bool :=
  zl_eqb (m_wd a) (m_wd b) && ou_eqb (m_unreach a) (m_unreach b)
  && eqb (m_attr a && incl) (m_attr b)
  && or_eqb (m_reach a) (m_reach b) && zl_eqb (m_ann a) (m_ann b).
Fixpoint ms_eqb (incl : bool) (a b : list M_) : bool :=
  match a, b with [], [] => true | x :: a', y :: b' => m_eqb incl x y && ms_eqb incl a' b' | _, _ => false end.
Definition israised (o : outcome) := match o with Raised => true | _ => false end.
Definition case_t := (Z * Z * Z * list Z * list Z * list (Z * list (NHt * Z) * list Z) * list M_ * bool * list Z)%type.
Definition okc (fx : bool) (c : case_t) : bool :=
  match c with (M, afull, amin, v4a, v4w, fams, expect, raised, lens) =>
    match run fx M afull amin v4a v4w fams with
    | (r, incl) => ms_eqb incl (fst r) expect && eqb raised (israised (snd r)) end end.
(* the Spec's wire length of what the implementation sent = the number of bytes it sent (bytes of
   attributes other than the requested block, if any, are subtracted on the harness side) *)
Definition oksize (c : case_t) : bool :=
  match c with (M, afull, amin, v4a, v4w, fams, expect, raised, lens) =>
    zl_eqb (map (wire_size (fun x => x) snd afull) expect) lens end.
Fixpoint bad (p : case_t -> bool) (l : list case_t) (i : nat) : list nat :=
  match l with [] => [] | c :: l' => if p c then bad p l' (S i) else i :: bad p l' (S i) end.
"""


def rle(items, fmt=str):
    """Coq list expression with long runs as `repeat x n` (n <= 2000 per chunk)."""
    parts, lit, i = [], [], 0
    items = [fmt(x) for x in items]
    while i < len(items):
        j = i
        while j < len(items) and items[j] == items[i]:
            j += 1
        n = j - i
        if n >= 12:
            if lit:
                parts.append('[' + ';'.join(lit) + ']')
                lit = []
            while n > 0:
                k = min(n, 2000)
                parts.append(f'repeat ({items[i]}) {k}%nat')
                n -= k
        else:
            lit.extend(items[i:j])
        i = j
    if lit or not parts:
        parts.append('[' + ';'.join(lit) + ']')
    return '(' + ' ++ '.join(parts) + ')'


def coq_case(case, ab, res, structs):
    nhid = {v: k for k, v in ab['nhkeys'].items()}  # hex -> id
    fams = '[' + ';'.join(
        f'({f["tag"]}, {rle(f["routed"], lambda r: f"(({r[0]},{r[1]}),{r[2]})")}, {rle(f["wds"])})' for f in ab['fams']
    ) + ']'
    ms = []
    for s in structs:
        un = f'Some ({s["unreach"][0]}, {rle(s["unreach"][1])})' if s['unreach'] else 'None'
        if s['reach']:
            hexkey = s['reach'][1]
            nid = nhid.get(hexkey, 9999)
            re_ = f'Some ({s["reach"][0]}, ({nid},{len(hexkey) // 2}), {rle(s["reach"][2])})'
        else:
            re_ = 'None'
        ms.append(f'Msg {rle(s["wd"])} ({un}) {"true" if s["attr"] else "false"} ({re_}) {rle(s["ann"])}')
    return (f'({case["M"]}, {len(res["full"])}, {len(res["min"])}, {rle(ab["v4a"])}, {rle(ab["v4w"])}, {fams}, [' + ';\n '.join(ms) + '], '
            f'{"true" if res["exc"] is not None and res["exc"][0] == "RuntimeError" else "false"}, '
            f'{rle([len(m) - (0 if st["attr"] else len(st["rest"])) for m, st in zip(res["msgs"], structs)])})')


def evaluate(cases, abs_, ress, structs, tag):
    """-> (ran, bad_patched, bad_pinned, bad_size, logs)"""
    idx = [i for i in range(len(cases)) if structs[i] is not None]
    texts = {i: coq_case(cases[i], abs_[i], ress[i], structs[i]) for i in idx}
    shards, cur, size = [], [], 0
    for i in sorted(idx, key=lambda i: -len(texts[i])):
        cur.append(i)
        size += len(texts[i])
        if size > 50000 or len(cur) >= 400:
            shards.append(cur)
            cur, size = [], 0
    if cur:
        shards.append(cur)

    def defs(shard):
        return ('Definition cases : list case_t := [\n' + ';\n'.join(texts[i] for i in shard) + '].\n'
                'Eval vm_compute in (bad (okc true) cases 0).\nEval vm_compute in (bad (okc false) cases 0).\n'
                'Eval vm_compute in (bad oksize cases 0).\n')

    out = common.eval_cases(HEADER, defs, shards, tag, timeout=900)
    ran = all(rc == 0 and len(parsed) == 3 for rc, _, parsed in out)
    bp, bq, bs = [], [], []
    for shard, (rc, _, parsed) in zip(shards, out):
        if rc == 0 and len(parsed) == 3:
            bp += [shard[j] for j in common.nat_list_of(parsed[0])]
            bq += [shard[j] for j in common.nat_list_of(parsed[1])]
            bs += [shard[j] for j in common.nat_list_of(parsed[2])]
    return ran, sorted(bp), sorted(bq), sorted(bs), [o for rc, o, _ in out if rc != 0]


# ------------------------------------------------------------------------------- generation


class Prefixes:
    """Distinct prefixes by family and mask."""

    def __init__(self):
        self.count = collections.Counter()

    def take(self, v6, mask):
        bits = 128 if v6 else 32
        i = self.count[(v6, mask)]
        if mask < bits and i >= (1 << mask) or i >= (1 << min(mask, 30)):
            return None
        self.count[(v6, mask)] += 1
        # spread over the top `mask` bits, kept away from 0/8 and multicast-looking values is not needed
        val = (i << (bits - mask)) if mask else 0
        raw = val.to_bytes(bits // 8, 'big')
        return socket.inet_ntop(socket.AF_INET6 if v6 else socket.AF_INET, raw)


def mask_for_size(v6, size, rng):
    """A prefix length whose INET encoding (without path id) is `size` bytes."""
    if size == 1:
        return 0
    lo, hi = (size - 2) * 8 + 1, (size - 1) * 8
    hi = min(hi, 128 if v6 else 32)
    return rng.randint(max(lo, hi - 3), hi)  # upper part of the range: more distinct prefixes


def route(px, fam, size_hint, rng, nh=None, pid=None):
    """Route descriptor of family `fam` whose bare NLRI is about size_hint bytes (exact for unicast/multicast)."""
    afi_s, safi_s = fam.split()
    v6 = afi_s == 'ipv6'
    top = 17 if v6 else 5
    if safi_s in ('unicast', 'multicast'):
        size = max(1, min(top, size_hint))
        for _ in range(40):
            mask = mask_for_size(v6, size, rng)
            ip = px.take(v6, mask)
            if ip is not None:
                break
            size = min(top, size + 1)
        else:
            return None
        d = {'f': fam, 'ip': ip, 'mask': mask}
    else:
        extra = 11 if safi_s == 'mpls-vpn' else 3  # label (3) + rd (8)
        size = max(1, min(top, size_hint - extra))
        mask = mask_for_size(v6, size, rng)
        ip = px.take(v6, mask)
        if ip is None:
            return None
        d = {'f': fam, 'ip': ip, 'mask': mask, 'label': rng.randint(16, 1000)}
        if safi_s == 'mpls-vpn':
            d['rd'] = f'65000:{rng.randint(1, 9)}'
    d['nh'] = nh or (NH4 if not v6 else '2001:db8::1')
    if pid is not None:
        d['pid'] = pid
    return d


NH6 = ['2001:db8::1', '2001:db8::2', 'fe80::1', '2001:db8:ffff::99']
NH4S = [NH4, '5.6.7.8', '9.9.9.9']


def gen_boundary(rng, M, rooms, sess_keys, patterns_per_room):
    """Tiny collections against a room of 0..64 bytes: the NLRI that opens a message/fragment, the first one."""
    cases = []
    for room in rooms:
        for _ in range(patterns_per_room):
            key = rng.choice(sess_keys)
            ap = SESSIONS[key][1]
            px = Prefixes()
            fams_avail = SESSIONS[key][0].split()
            fams_avail = [' '.join(fams_avail[i : i + 2]) for i in range(0, len(fams_avail), 2)]
            path = rng.choice(['v4a', 'v4w', 'reach', 'reach', 'unreach', 'both', 'mixed'])
            ann, wd = [], []
            n = rng.choice([1, 2, 2, 3, 4])
            # sizes chosen around what the room admits for that path
            if path in ('v4a', 'v4w'):
                base = room - (4 if ap else 0)
                sizes = [max(1, min(5, base + rng.choice([-1, 0, 0, 1]))) if rng.random() < 0.7 else rng.randint(1, 5) for _ in range(n)]
                fam = rng.choice([f for f in fams_avail if f in ('ipv4 unicast', 'ipv4 multicast')])
                for s in sizes:
                    d = route(px, fam, s, rng, nh=NH4, pid=rng.randint(1, 9) if ap and rng.random() < 0.5 else None)
                    if d:
                        (ann if path == 'v4a' else wd).append(d)
                if path == 'v4w' and rng.random() < 0.5:
                    d = route(px, fam, rng.randint(1, 5), rng, nh=NH4)
                    if d:
                        ann.append(d)
            else:
                mpf = [f for f in fams_avail if f not in ('ipv4 unicast', 'ipv4 multicast')] or ['ipv6 unicast']
                fam = rng.choice(mpf)
                v6 = fam.startswith('ipv6')
                nhs = (NH6 if v6 else NH4S)[: rng.choice([1, 1, 2, 3])]
                nhlen = (16 if v6 else 4) + (8 if 'vpn' in fam else 0)
                over_r = 3 + 5 + nhlen + (4 if ap else 0)
                over_u = 3 + 3 + (4 if ap else 0)
                for k in range(n):
                    over = over_r if path in ('reach', 'mixed') or (path == 'both' and k % 2 == 0) else over_u
                    s = room - over + rng.choice([-1, 0, 0, 1]) if rng.random() < 0.7 else rng.randint(1, 20)
                    d = route(px, fam, max(1, s), rng, nh=rng.choice(nhs), pid=rng.randint(1, 9) if ap and rng.random() < 0.5 else None)
                    if not d:
                        continue
                    if path in ('reach', 'mixed') or (path == 'both' and k % 2 == 0):
                        ann.append(d)
                    else:
                        wd.append(d)
                if path == 'unreach' and 'vpn' not in fam and 'mpls' not in fam and rng.random() < 0.7:
                    # unicast withdraw-only collections drop the attributes: keep them with one announce
                    d = route(px, fam, rng.randint(1, 6), rng, nh=nhs[0])
                    if d:
                        ann.append(d)
                if path == 'mixed':
                    for _ in range(rng.choice([1, 2])):
                        d = route(px, 'ipv4 unicast', rng.randint(1, 5), rng, nh=NH4)
                        if d:
                            (ann if rng.random() < 0.7 else wd).append(d)
            if not ann and not wd:
                continue
            rng.shuffle(ann)
            cases.append({'sess': key, 'M': M, 'attr': ['room', room], 'ann': ann, 'wd': wd, 'kind': 'boundary:' + path})
    return cases


def gen_fill(rng, M, key):
    """Enough routes to need several messages; attributes of 0..300 bytes, or sized for a room of 65..400."""
    ap = SESSIONS[key][1]
    px = Prefixes()
    fams_avail = SESSIONS[key][0].split()
    fams_avail = [' '.join(fams_avail[i : i + 2]) for i in range(0, len(fams_avail), 2)]
    attr = ['glen', rng.choice([-1, 1, 50, 252, 253, 255, 256, 257, 300])] if rng.random() < 0.6 else ['room', rng.randint(65, 400)]
    room = M - 23 - 30 - max(attr[1], 0) if attr[0] == 'glen' else attr[1]
    nmsg = rng.choice([1, 1, 2, 2, 3]) if M == 4096 else rng.choice([1, 2])
    budget = int(room * (nmsg - rng.choice([0.0, 0.02, 0.5, 0.98]))) if attr[0] == 'glen' else room * rng.randint(1, 4)
    shape = rng.choice(['v4', 'v4', 'mp', 'mp', 'mixed', 'mixed', 'v4wd', 'mpboth'])
    ann, wd, used = [], [], 0
    mpf = [f for f in fams_avail if f not in ('ipv4 unicast', 'ipv4 multicast')] or ['ipv6 unicast']
    mp_pick = rng.sample(mpf, min(len(mpf), rng.choice([1, 1, 2])))
    fixed_size = rng.choice([None, None, 4, 5]) if shape.startswith('v4') else rng.choice([None, None, 9, 17])
    while used < budget and len(ann) + len(wd) < 20000:
        if shape == 'v4' or (shape == 'mixed' and rng.random() < 0.5) or shape == 'v4wd':
            fam = 'ipv4 unicast' if 'ipv4 multicast' not in fams_avail or rng.random() < 0.8 else 'ipv4 multicast'
            d = route(px, fam, fixed_size or rng.randint(2, 5), rng, nh=NH4, pid=rng.randint(1, 3) if ap and rng.random() < 0.3 else None)
            to_wd = shape == 'v4wd' and rng.random() < 0.6
        else:
            fam = rng.choice(mp_pick)
            v6 = fam.startswith('ipv6')
            nhs = (NH6 if v6 else NH4S)[: 1 + (len(ann) % 3 if rng.random() < 0.5 else 0)]
            d = route(px, fam, fixed_size or rng.randint(2, 17), rng, nh=rng.choice(nhs), pid=rng.randint(1, 3) if ap and rng.random() < 0.3 else None)
            to_wd = shape == 'mpboth' and rng.random() < 0.4 or shape == 'mixed' and rng.random() < 0.15
        if d is None:
            break
        (wd if to_wd else ann).append(d)
        used += 6 + (4 if ap else 0) + (11 if 'vpn' in d['f'] else 0) + d['mask'] // 8
    if key == 'v4only' and rng.random() < 0.5:  # routes of a family that was not negotiated
        d = route(px, 'ipv6 unicast', 9, rng, nh=NH6[0])
        if d:
            ann.append(d)
    rng.shuffle(ann)
    return {'sess': key, 'M': M, 'attr': attr, 'ann': ann, 'wd': wd, 'kind': 'fill:' + shape}


def gen_nonnegotiated(rng):
    """Routes of a family the session did NOT negotiate, in every run: every session x every family it lacks x
    {announce, withdraw, both} x {alone, next to routes of a negotiated family} ("carry nothing else": the RIB filters
    on the configured families only, messages() is the one guard on the negotiated ones)."""
    cases = []
    every = ALL_FAMILIES.split()
    every = [' '.join(every[i : i + 2]) for i in range(0, len(every), 2)]
    for key, (famtxt, ap) in SESSIONS.items():
        have = famtxt.split()
        have = [' '.join(have[i : i + 2]) for i in range(0, len(have), 2)]
        for fam in every:
            if fam in have:
                continue
            for action in ('ann', 'wd', 'both'):
                for company in (False, True):
                    px = Prefixes()
                    nh = '2001:db8::1' if fam.startswith('ipv6') else NH4
                    rs = [route(px, fam, rng.randint(2, 17), rng, nh=nh) for _ in range(rng.randint(1, 3))]
                    rs2 = [route(px, fam, rng.randint(2, 17), rng, nh=nh) for _ in range(rng.randint(1, 3))]
                    ann = rs if action in ('ann', 'both') else []
                    wd = rs2 if action in ('wd', 'both') else []
                    if company:
                        own = have[rng.randrange(len(have))]
                        onh = '2001:db8::1' if own.startswith('ipv6') else NH4
                        (ann if rng.random() < 0.6 else wd).append(route(px, own, rng.randint(2, 17), rng, nh=onh))
                        if rng.random() < 0.5:
                            wd.append(route(px, own, rng.randint(2, 17), rng, nh=onh))
                    ann, wd = [d for d in ann if d], [d for d in wd if d]
                    rng.shuffle(ann)
                    cases.append({'sess': key, 'M': 4096, 'attr': ['glen', rng.choice([-1, 10])], 'ann': ann, 'wd': wd,
                                  'kind': f'non-negotiated:{action}:{"with" if company else "alone"}'})
    return cases


def gen_mixes(rng):
    """Every family/action mix, in every run: each non-empty subset of {IPv4 announce, IPv4 withdraw, MP announce,
    MP withdraw} x {small, large route counts} x MP variants (1-2 families, 1-2 next hops; unicast-only and
    with a non-unicast family), under two sessions and two attribute sizes."""
    cases = []
    parts = ['v4a', 'v4w', 'mpa', 'mpw']
    for mask in range(1, 16):
        subset = [p for i, p in enumerate(parts) if mask >> i & 1]
        for size in ('small', 'large'):
            for variant in range(3):
                key = ['v4v6', 'all', 'all+ap'][variant]
                mp_fams = [['ipv6 unicast'], ['ipv6 unicast', 'ipv4 mpls-vpn'], ['ipv6 multicast', 'ipv6 unicast']][variant]
                nnh = [1, 2, 2][variant]
                if key == 'v4v6':
                    mp_fams = ['ipv6 unicast']
                px = Prefixes()
                ann, wd = [], []
                n4 = rng.randint(1, 3) if size == 'small' else rng.randint(850, 1100)
                nmp = rng.randint(1, 3) if size == 'small' else rng.randint(300, 500)
                if 'v4a' in subset:
                    ann += [route(px, 'ipv4 unicast', rng.randint(2, 5), rng, nh=NH4) for _ in range(n4)]
                if 'v4w' in subset:
                    wd += [route(px, 'ipv4 unicast', rng.randint(2, 5), rng, nh=NH4) for _ in range(n4)]
                for part, dest in (('mpa', ann), ('mpw', wd)):
                    if part not in subset:
                        continue
                    # the withdraw side of the third variant stays unicast/multicast: the no-attributes shortcut
                    fams_here = mp_fams if not (part == 'mpw' and variant == 1 and rng.random() < 0.5) else ['ipv6 unicast']
                    for k in range(nmp):
                        fam = fams_here[k % len(fams_here)]
                        v6 = fam.startswith('ipv6')
                        nhs = (NH6 if v6 else NH4S)[:nnh]
                        dest.append(route(px, fam, rng.randint(3, 17), rng, nh=nhs[k % len(nhs)]))
                ann = [d for d in ann if d]
                wd = [d for d in wd if d]
                if not ann and not wd:
                    continue
                rng.shuffle(ann)
                attr = ['glen', rng.choice([-1, 10, 300])] if size == 'large' or rng.random() < 0.5 else ['room', rng.randint(60, 200)]
                cases.append({'sess': key, 'M': 4096, 'attr': attr, 'ann': ann, 'wd': wd,
                              'kind': f'mix:{"+".join(subset)}:{size}'})
    return cases


def r4(ip, mask, nh=NH4, fam='ipv4 unicast'):
    return {'f': fam, 'ip': ip, 'mask': mask, 'nh': nh}


def r6(ip, mask, nh='2001:db8::1'):
    return {'f': 'ipv6 unicast', 'ip': ip, 'mask': mask, 'nh': nh}


# D12 witnesses (minimal inputs found with this harness on the pinned tree); replayed on every run
WITNESSES = [
    {'sess': 'v4v6', 'M': 4096, 'attr': ['room', 4], 'kind': 'witness:v4-4097',
     'ann': [r4('10.0.0.0', 24), r4('10.0.1.1', 32)], 'wd': []},
    {'sess': 'v4v6', 'M': 65535, 'attr': ['room', 4], 'kind': 'witness:v4-65536',
     'ann': [r4('10.0.0.0', 24), r4('10.0.1.1', 32)], 'wd': []},
    {'sess': 'v4v6', 'M': 4096, 'attr': ['room', 26], 'kind': 'witness:reach-4111',
     'ann': [r6('2000::', 8), r6('2001:db8::1', 128)], 'wd': []},
    {'sess': 'v4v6', 'M': 4096, 'attr': ['room', 40], 'kind': 'witness:reach-4097',
     'ann': [r6('2000::', 8), r6('2001:db8::1', 128)], 'wd': []},
    {'sess': 'v4v6', 'M': 4096, 'attr': ['room', 40], 'kind': 'witness:reach-first-raises',
     'ann': [r6('2001:db8::1', 128)], 'wd': []},
    {'sess': 'v4v6', 'M': 4096, 'attr': ['room', 100], 'kind': 'witness:unreach-raises-with-room',
     'ann': [r6('2001:db8::', 64, nh='2001:db8::1')] + [r6(f'2001:db8:{i:x}::', 64) for i in range(1, 8)],
     'wd': [r6('2001:db9::', 32)]},
    {'sess': 'all', 'M': 4096, 'attr': ['room', 18], 'kind': 'witness:unreach-4100', 'ann': [],
     'wd': [{'f': 'ipv4 mpls-vpn', 'ip': '0.0.0.0', 'mask': 0, 'nh': NH4, 'rd': '65000:1', 'label': 100},
            {'f': 'ipv4 mpls-vpn', 'ip': '10.0.0.1', 'mask': 32, 'nh': NH4, 'rd': '65000:1', 'label': 100}]},
    {'sess': 'all', 'M': 4096, 'attr': ['room', 20], 'kind': 'witness:mixed-raises-with-room',
     'ann': [r4('10.0.0.0', 23), {'f': 'ipv4 nlri-mpls', 'ip': '10.1.0.1', 'mask': 32, 'nh': NH4, 'label': 100}], 'wd': []},
    {'sess': 'v4v6', 'M': 4096, 'attr': ['glen', 10], 'kind': 'witness:v4-repeated-in-mp',
     'ann': [r4('10.0.0.0', 24), r6('2001:db8::', 48)], 'wd': [r4('10.9.0.0', 16)]},
]


# ------------------------------------------------------------------------------- check


def shrink(case, sig):
    """Drop routes while the same finding remains."""

    def fails(c):
        try:
            f, _ = oracle(c, run_impl(c))
        except Exception:
            return False
        return any(s == sig for s, _ in f)

    cur = dict(case)
    for field in ('ann', 'wd'):
        items = list(cur[field])
        chunk = max(1, len(items) // 2)
        tries = 0
        while chunk >= 1 and tries < 120:
            i, changed = 0, False
            while i < len(items) and tries < 120:
                cand = items[:i] + items[i + chunk :]
                tries += 1
                c2 = dict(cur, **{field: cand})
                if (cand or c2['ann'] or c2['wd']) and fails(c2):
                    items, cur, changed = cand, c2, True
                else:
                    i += chunk
            if chunk == 1 and not changed:
                break
            chunk = chunk // 2 if chunk > 1 else (1 if changed else 0)
    return cur


def describe(case, res=None):
    d = {k: case[k] for k in ('sess', 'M', 'attr', 'ann', 'wd', 'kind')}
    d['families'] = SESSIONS[case['sess']][0]
    d['addpath'] = SESSIONS[case['sess']][1]
    if res is not None:
        d['implementation'] = {'message_lengths': [len(m) for m in res['msgs']], 'exception': res['exc'],
                               'attr_len': len(res['attr'] or b'')}
    return d


def process(run, cases, tag):
    from exabgp.protocol.family import AFI, SAFI

    t0 = time.time()
    ress, abs_, structs, judgements, metas = [], [], [], [], []
    for c in cases:
        res = run_impl(c)
        ress.append(res)
        abs_.append(abstract(c))
        sess = session(c['sess'], c['M'])
        ap = lambda f, neg=sess.neg: neg.addpath.send(AFI(f[0]), SAFI(f[1]))  # noqa: E731
        st = [read_wire(m, res['full'], res['min'], ap) for m in res['msgs']]
        structs.append(None if any(s is None for s in st) else st)
        f, meta = oracle(c, res)
        judgements.append(f)
        metas.append(meta)
    t_impl = time.time() - t0
    t0 = time.time()
    ran, bad_p, bad_q, bad_s, logs = evaluate(cases, abs_, ress, structs, tag)
    t_coq = time.time() - t0
    return {'ress': ress, 'abs': abs_, 'structs': structs, 'judgements': judgements, 'metas': metas, 'ran': ran,
            'bad_patched': bad_p, 'bad_pinned': bad_q, 'bad_size': bad_s, 'logs': logs, 't_impl': t_impl, 't_coq': t_coq}


def check(tier, seed):
    run = Run('C09', tier, seed)
    run.trusted = [
        'Coq 8.16.1 kernel (coqc), vm_compute for case evaluation and for the pinned-code witnesses; no native_compute',
        'harness/c09.py: generators, the abstraction map (real sorted()/family filter/IPv4-MP classification replicated, '
        'real pack_nlri and _encode_nexthop lengths, attribute length observed by wrapping pack_attribute), its own '
        'UPDATE reader used to recover the per-field NLRI sizes and the non-MP attribute bytes, the property oracle '
        '(Message.unpack of every message; attribute block of every announcing message = pack_attribute(negotiated, True) '
        'of the requested attributes, called by the harness outside messages())',
        'modelled, not verified: UpdateCollection.messages packing loops, packed_reach/unreach_attributes '
        '(hand model Model_Split, both versions: with the D12 patch = split, pinned = split_pinned)',
    ]
    run.assumptions = [
        'Model_Split inputs are the results of sort / negotiated-family filter / IPv4-MP classification, not modelled; '
        'the end-to-end oracle covers them',
        'Empty-NLRI attributes-only UPDATEs and include_withdraw=False are outside the model',
        'theorems C09_fits/C09_complete/C09_no_room_no_message are about the code WITH the proposed patch; on a tree '
        'without it the correspondence and the oracle fail on the D12 inputs (C09_*_refuted_pinned are the Coq witnesses)',
    ]
    common.standard_build(run, [])

    rng = random.Random(seed)
    quick = tier == 'quick'
    cases = [dict(w) for w in WITNESSES]
    for path in sorted(glob.glob(os.path.join(common.VERIF, 'replays', 'C09', '*.json'))):
        try:
            c = json.load(open(path)).get('case', {})
            if all(k in c for k in ('sess', 'M', 'attr', 'ann', 'wd')):
                c.setdefault('kind', 'replay')
                cases.append({k: c[k] for k in ('sess', 'M', 'attr', 'ann', 'wd', 'kind')})
        except Exception:
            pass
    keys = list(FILL_SESSIONS)
    rooms = list(range(0, 65))
    cases += gen_nonnegotiated(rng)
    cases += gen_mixes(rng)
    if not quick:
        for _ in range(6):
            cases += gen_mixes(rng)
    cases += gen_boundary(rng, 4096, rooms, keys, 5 if quick else 60)
    cases += gen_boundary(rng, 65535, rooms if not quick else rooms[::4], keys, 1 if quick else 8)
    n_fill = 220 if quick else 6000
    for i in range(n_fill):
        M = 65535 if i % 12 == 0 else 4096
        cases.append(gen_fill(rng, M, keys[i % len(keys)]))
    if not quick:
        cases += exhaustive_small()

    out = process(run, cases, 'c09')
    print(f'[C09] {len(cases)} cases: impl+oracle {out["t_impl"]:.1f}s, coq eval {out["t_coq"]:.1f}s', flush=True)
    run.coverage['timing_s'] = {'implementation_and_oracle': round(out['t_impl'], 1), 'coq_evaluation': round(out['t_coq'], 1)}
    unread = [i for i, s in enumerate(out['structs']) if s is None]
    run.obligation('model evaluation (vm_compute of Model_Split.messages, both versions, on every case) ran', out['ran'],
                   '\n'.join(out['logs'])[-2000:])
    run.obligation(
        f'every yielded message is a well-formed UPDATE of the expected shape (harness reader) on {len(cases)} cases',
        not unread, f'{len(unread)} cases, first: {describe(cases[unread[0]], out["ress"][unread[0]]) if unread else ""}')
    bp = out['bad_patched']
    like_pinned = [i for i in bp if i not in out['bad_pinned']]
    run.obligation(
        f'correspondence: per-message NLRI grouping and exception of the implementation = Model_Split.split on {len(cases)} cases',
        not bp,
        f'{len(bp)} disagreements ({len(like_pinned)} of them agree with split_pinned = the unpatched code), first: '
        f'{describe(cases[bp[0]], out["ress"][bp[0]]) if bp else ""}')
    run.obligation('Spec_Split.wire_size of every message as read = its length in bytes', not out['bad_size'],
                   f'{len(out["bad_size"])} cases')
    failing = [i for i, f in enumerate(out['judgements']) if f]
    run.obligation(
        f'property oracle: size <= msg_size, parses alone, announced/withdrawn = requested, requested attributes on every announcing message, no exception, on {len(cases)} cases',
        not failing, f'{len(failing)} failing inputs')
    run.notes.append(f'cases that agree with the patched model: {len(cases) - len(bp)}; with the pinned model: '
                     f'{len(cases) - len(out["bad_pinned"])}')

    seen = {}
    for i in failing:
        for sig, what in out['judgements'][i]:
            size = len(cases[i]['ann']) + len(cases[i]['wd'])
            if sig not in seen or size < seen[sig][0]:
                seen[sig] = (size, i, what)
    for sig, (_, i, what) in sorted(seen.items()):
        small = shrink(cases[i], sig)
        res = run_impl(small)
        f2, _ = oracle(small, res)
        what2 = next((w for s, w in f2 if s == sig), what)
        run.fail_case(sig, what2, describe(small, res))

    dist = collections.Counter(c['kind'] for c in cases)
    nmsg = collections.Counter(min(len(r['msgs']), 6) for r in out['ress'])
    roomh = collections.Counter(min(m['room'] // 8 * 8, 512) if m['room'] >= 0 else -1 for m in out['metas'])
    nontrivial = {(c['M'], len(r['attr'] or b''), json.dumps(a['v4a']), json.dumps(a['v4w']), json.dumps(a['fams']))
                  for c, r, a in zip(cases, out['ress'], out['abs']) if a['v4a'] or a['v4w'] or a['fams']}
    run.coverage.update({
        'evaluations': len(cases),
        'distinct_nontrivial': len(nontrivial),
        'rule': 'D12 witnesses + replays; routes of a family the session did not negotiate (7 sessions, two of them without ipv4 unicast, x every family each lacks x announce/withdraw/both x alone/with negotiated routes) in every run; every family/action mix (15 non-empty subsets of {IPv4 announce, IPv4 withdraw, MP announce, '
                'MP withdraw} x small/large x 3 MP variants) in every run; boundary collections (1-4 NLRIs sized around what a room of 0..64 bytes admits, per path: '
                'IPv4 announce/withdraw, MP_REACH, MP_UNREACH, both, mixed with IPv4; 5 sessions incl. ADD-PATH; both maxima); '
                'fill collections (enough routes for 1-3 messages, attributes 0..300 bytes or room 65..400, several next hops, '
                'IPv4/MP/mixed/withdraw shapes, non-negotiated family). '
                'non-trivial = distinct (msg_size, attr length, abstract size lists) with at least one route of a negotiated family',
        'distribution': dict(sorted(dist.items())),
        'messages_per_case_histogram': {str(k): v for k, v in sorted(nmsg.items())},
        'room_histogram': {str(k): v for k, v in sorted(roomh.items())},
        'all_fit_cases': sum(1 for m in out['metas'] if m['all_fit']),
        'none_fit_cases': sum(1 for m in out['metas'] if m['none_fit']),
        'raised': sum(1 for r in out['ress'] if r['exc']),
        'exhaustive': not quick,
    })
    for c, r in list(zip(cases, out['ress']))[:4]:
        run.samples.append({'kind': c['kind'], 'M': c['M'], 'attr': c['attr'], 'routes': len(c['ann']) + len(c['wd']),
                            'message_lengths': [len(m) for m in r['msgs']][:6], 'exception': r['exc']})
    if run.broken() and not run.failing:
        run.coverage['search'] = (f'{len(cases)} generated collections (rooms 0..64 x all paths, fill shapes) were run on the '
                                  'implementation and judged by the property oracle; none failed')
    return run.finish(checker_cmd='make -C coq props/Prop_C09.vo && coqc -Q coq ExaV coq/props/Prop_C09.v (Print Assumptions)')


def exhaustive_small():
    """thorough: every room 0..64 x every realisable NLRI size on each path, patterns [s], [1,s], [s,s]."""
    cases = []
    rng = random.Random(7)
    for room in range(0, 65):
        for s in range(1, 18):
            for pat in ('one', 'small-then', 'twice'):
                for path in ('v4a', 'v4w', 'reach', 'unreach'):
                    if path in ('v4a', 'v4w') and s > 5:
                        continue
                    px = Prefixes()
                    fam = 'ipv4 unicast' if path.startswith('v4') else 'ipv6 unicast'
                    sizes = {'one': [s], 'small-then': [1, s], 'twice': [s, s]}[pat]
                    rs = [route(px, fam, z, rng) for z in sizes]
                    if any(r is None for r in rs):
                        continue
                    ann, wd = (rs, []) if path in ('v4a', 'reach') else ([], rs)
                    if path == 'unreach':
                        ann = [route(px, fam, 2, rng)]
                    cases.append({'sess': 'v4v6', 'M': 4096, 'attr': ['room', room], 'ann': ann, 'wd': wd,
                                  'kind': 'exhaustive:' + path})
    return cases


def replay(path):
    c = json.load(open(path))['case']
    case = {k: c[k] for k in ('sess', 'M', 'attr', 'ann', 'wd')}
    case['kind'] = c.get('kind', 'replay')
    res = run_impl(case)
    fails, meta = oracle(case, res)
    print(json.dumps({'message_lengths': [len(m) for m in res['msgs']], 'exception': res['exc'], 'findings': fails, 'meta': meta}, indent=1))
    return 1 if fails else 0
