"""C16 - FlowSpec rules mean on the wire what they say in text.  T8 + H-flow + property oracle.

encode direction: abstract rule -> text (API `announce flow route { match {..} then {..} }`, or a whole
  configuration file `flow { route n { ... } }`, or objects built directly for values no text reaches) ->
  ExaBGP parses the text -> Flow.pack_nlri bytes; compared with Model_Flow.enc_flow (correspondence)
  and judged by Spec_Flow.ref_flow + ref_length + the shortest-width byte count (property oracle).
decode direction: well-formed and single-fault NLRI bytes -> Flow.unpack_nlri (+ json()/extensive()
  forced); compared with Model_Flow.dec_flow and judged by Spec_Flow.ref_flow / ref_scan.
actions: `then` text -> extended community bytes vs Model_Flow.enc_action and Spec_Flow.ref_action.
"""

from __future__ import annotations

import collections
import ipaddress
import json
import random
import struct
import time

from harness import common
from harness.common import Run, zlist, zbytes

NAMES4 = {3: 'protocol', 4: 'port', 5: 'destination-port', 6: 'source-port', 7: 'icmp-type', 8: 'icmp-code',
          9: 'tcp-flags', 10: 'packet-length', 11: 'dscp', 12: 'fragment'}
NAMES6 = {**NAMES4, 3: 'next-header', 11: 'traffic-class', 13: 'flow-label'}
BINARY = (9, 12)
NUM_OPS = {1: '=', 2: '>', 4: '<', 3: '>=', 5: '<=', 6: '!='}
BIN_OPS = {0: '', 2: '!', 1: '=', 3: '!='}
# RFC 8955 4.2.2.x / RFC 8956 3.x: the value sizes a component may use (shortest = first that fits)
RFC_WIDTHS = {3: (1,), 4: (1, 2), 5: (1, 2), 6: (1, 2), 7: (1,), 8: (1,), 9: (1, 2), 10: (1, 2), 11: (1,), 12: (1, 2), 13: (1, 2, 4)}
TEXT_MAX4 = {3: 65535, 4: 65535, 5: 65535, 6: 65535, 7: 65535, 8: 65535, 9: 65535, 10: 65535, 11: 63, 12: 65535}
TEXT_MAX6 = {**TEXT_MAX4, 11: 65535, 13: 0xFFFFF}

# ------------------------------------------------------------------------------- implementation side

_API = {}


def api():
    if 'api' not in _API:
        from exabgp.configuration.setup import create_minimal_configuration
        from exabgp.reactor.api import API

        conf = create_minimal_configuration(families='ipv4 flow ipv6 flow ipv4 flow-vpn ipv6 flow-vpn')

        class R:
            pass

        r = R()
        r.configuration = conf
        _API['api'] = API(r)
    return _API['api']


def addr_text(v6, addr):
    return str(ipaddress.IPv6Address(bytes(addr))) if v6 else '.'.join(str(b) for b in addr)


def match_lines(rule):
    v6 = rule['v6']
    names = NAMES6 if v6 else NAMES4
    lines = []
    for c in rule['comps']:
        if c[0] == 'pfx':
            _, ty, mask, off, addr, style = c
            kw = 'destination' if ty == 1 else 'source'
            if style == 'long':
                kw += '-ipv6' if v6 else '-ipv4'
            txt = f'{addr_text(v6, addr)}/{mask}'
            if v6 and (off or style != 'nooff'):
                txt += f'/{off}'
            lines.append(f'{kw} {txt}')
        else:
            _, ty, ops, style = c
            table = BIN_OPS if ty in BINARY else NUM_OPS
            toks, cur = [], ''
            for i, (a, nb, v) in enumerate(ops):
                piece = f'{table[nb]}{v}'
                if i and a:
                    cur += '&' + piece
                else:
                    if cur:
                        toks.append(cur)
                    cur = piece
            toks.append(cur)
            if len(toks) == 1 and style == 'bare':
                lines.append(f'{names[ty]} {toks[0]}')
            else:
                lines.append(f'{names[ty]} [ {" ".join(toks)} ]')
    return lines


def rd_text(rd):
    # type 0: asn(2):number(4)
    return f'{(rd[2] << 8) | rd[3]}:{int.from_bytes(bytes(rd[4:8]), "big")}'


def render_api(rule):
    rd = f'rd {rd_text(rule["rd"])}; ' if rule['rd'] else ''
    return 'announce flow route { ' + rd + 'match { ' + ' '.join(l + ';' for l in match_lines(rule)) + ' } then { ' + rule.get('then', 'discard') + '; } }'


def render_conf(rule):
    rd = f'rd {rd_text(rule["rd"])};\n' if rule['rd'] else ''
    body = 'flow {\n route r1 {\n' + rd + ' match {\n' + ''.join('  ' + l + ';\n' for l in match_lines(rule)) + ' }\n then {\n  ' + rule.get('then', 'discard') + ';\n }\n }\n}\n'
    fam = 'ipv6' if rule['v6'] else 'ipv4'
    _API['n'] = _API.get('n', 0) + 1  # a fresh peer per case: the RIB is shared by neighbor name
    return (f'neighbor 127.{_API["n"] // 60000 + 1}.{_API["n"] // 250 % 240}.{_API["n"] % 250 + 1} {{\n router-id 1.2.3.4;\n local-address 127.0.0.1;\n local-as 65000;\n peer-as 65001;\n'
            f' family {{ {fam} flow; {fam} flow-vpn; }}\n' + body + '}\n')


def routes_from_text(rule):
    if rule['via'] == 'conf':
        from exabgp.configuration.configuration import Configuration

        conf = Configuration([render_conf(rule)], text=True)
        if not conf.reload():
            return []
        nb = next(iter(conf.neighbors.values()))
        return list(nb.rib.outgoing.cached_routes())
    return api().api_flow(render_api(rule))


def nlri_direct(rule):
    """values no text can express (2^32 boundaries, AND on the first operator): objects built by hand"""
    from exabgp.bgp.message.update.nlri import flow as F
    from exabgp.bgp.message.update.nlri.qualifier import RouteDistinguisher
    from exabgp.protocol.family import AFI, SAFI
    from exabgp.protocol.resource import NumericValue

    afi = AFI.ipv6 if rule['v6'] else AFI.ipv4
    nl = F.Flow.make_flow(afi, SAFI.flow_vpn if rule['rd'] else SAFI.flow_ip)
    for c in rule['comps']:
        if c[0] == 'pfx':
            _, ty, mask, off, addr, _ = c
            if rule['v6']:
                k = F.Flow6Destination if ty == 1 else F.Flow6Source
                nl.add(k.make_prefix6(bytes(addr), mask, off))
            else:
                k = F.Flow4Destination if ty == 1 else F.Flow4Source
                nl.add(k.make_prefix4(bytes(addr), mask))
        else:
            _, ty, ops, _ = c
            k = F.factory[afi][ty]
            for a, nb, v in ops:
                nl.add(k(a * 0x40 | nb, NumericValue(v)))
    if rule['rd']:
        nl.rd = RouteDistinguisher(bytes(rule['rd']))
    return nl


def run_encode(rule):
    """-> ('bytes', [..]) | ('raise', class name) | ('refused', '')"""
    try:
        if rule['via'] == 'direct':
            nl = nlri_direct(rule)
        else:
            routes = routes_from_text(rule)
            if len(routes) != 1:
                return ('refused', str(len(routes)))
            nl = routes[0].nlri
        fam = (int(nl.afi), int(nl.safi))
        want = (2 if rule['v6'] else 1, 134 if rule['rd'] else 133)
        if fam != want:
            return ('family', str(fam))
    except Exception as exc:  # the parser itself blew up
        return ('parse-raise', type(exc).__name__)
    try:
        return ('bytes', list(bytes(nl.pack_nlri(None))))
    except Exception as exc:
        return ('raise', type(exc).__name__)


def run_decode(case):
    """-> ('raise',) | ('invalid', over) | ('ok', rd, view, over) | ('crash', what)"""
    from exabgp.bgp.message.action import Action
    from exabgp.bgp.message.notification import Notify
    from exabgp.bgp.message.update.nlri.flow import Flow, IPrefix
    from exabgp.bgp.message.update.nlri.nlri import NLRI
    from exabgp.bgp.message.update.nlri.qualifier import RouteDistinguisher
    from exabgp.protocol.family import AFI, SAFI

    afi = AFI.ipv6 if case['v6'] else AFI.ipv4
    safi = SAFI.flow_vpn if case['vpn'] else SAFI.flow_ip
    try:
        nl, over = Flow.unpack_nlri(afi, safi, bytes(case['data']), Action.ANNOUNCE, None, None)
    except Notify:
        return ('raise',)
    except Exception as exc:
        return ('crash', 'unpack_nlri: ' + type(exc).__name__)
    over = list(bytes(over))
    if nl is NLRI.INVALID:
        return ('invalid', over)
    try:
        js = nl.json()
        json.loads(js)
        nl.extensive()
        str(nl)
    except Exception as exc:
        return ('crash', 'json/extensive: ' + type(exc).__name__ + ': ' + str(exc)[:80])
    view = []
    for cid in sorted(nl.rules):
        items = nl.rules[cid]
        if isinstance(items[0], IPrefix):
            for it in items:
                pk = list(bytes(it._packed))
                view.append(('pfx', cid, pk[0], int(getattr(it, '_offset', 0)), pk[1:]))
        else:
            ops = []
            for it in items:
                o = int(it.operations) & 0x7F
                if o & 0x30:
                    return ('crash', 'length bits kept in operations')
                ops.append(((o >> 6) & 1, o & 0x0F, int(it.value)))
            view.append(('ops', cid, ops))
    rd = [] if nl.rd is RouteDistinguisher.NORD else list(bytes(nl.rd.pack_rd()))
    return ('ok', rd, view, over)


# ------------------------------------------------------------------------------- independent reference (python glue)


def canon_py(comps):
    out = []
    for t in sorted({c[1] for c in comps}):
        if t <= 2:
            out += [c for c in comps if c[1] == t]
        else:
            ops = [o for c in comps if c[1] == t for o in c[2]]
            out.append(('ops', t, ops))
    return out


def pattern_py(mask, off, bs):
    n = (mask + 7) // 8 if 0 <= mask <= 128 else 0
    val = int.from_bytes(bytes(bs[:n]), 'big') >> (8 * n - mask) if n else 0
    return val % (1 << (mask - off)) if mask >= off else 0


def spec_rule_of(rd, comps):
    """python tuples -> Coq literal of Spec_Flow.rule"""
    items = []
    for c in comps:
        if c[0] == 'pfx':
            items.append(f'CPfx {c[1]} {c[2]} {c[3]} {pattern_py(c[2], c[3], c[4])}')
        else:
            items.append(f'COps {c[1]} [' + ';'.join(f'({a},{nb},{v})' for a, nb, v in c[2]) + ']')
    return f'(mkRule {zlist(rd)} [' + '; '.join(items) + '])'


def model_rule_of(rd, comps):
    items = []
    for c in comps:
        if c[0] == 'pfx':
            items.append(f'MPfx {c[1]} {c[2]} {c[3]} {zlist(c[4])}')
        else:
            items.append(f'MOps {c[1]} [' + ';'.join(f'({a},{nb},{v})' for a, nb, v in c[2]) + ']')
    return f'(mkMRule {zlist(rd)} [' + '; '.join(items) + '])'


def rfc_width(t, v):
    for w in RFC_WIDTHS[t]:
        if 0 <= v < (1 << (8 * w)):
            return w
    return None


def rfc_body_len(rule):
    """length of the RFC encoding with every value in its shortest allowed width; None = not encodable"""
    n = len(rule['rd'])
    for c in canon_py(rule['comps']):
        if c[0] == 'pfx':
            _, t, mask, off, addr = c[:5]
            if rule['v6']:
                if not ((mask == 0 and off == 0) or (off < mask <= 128)):
                    return None
                n += 3 + (mask - off + 7) // 8
            else:
                if not 0 <= mask <= 32:
                    return None
                n += 2 + (mask + 7) // 8
        else:
            n += 1
            for a, nb, v in c[2]:
                w = rfc_width(c[1], v)
                if w is None:
                    return None
                n += 1 + w
    return n


def rfc_wellformed(rule):
    """the rule is one RFC 8955/8956 can carry: at most one prefix per type, legal masks/offsets/values"""
    if rfc_body_len(rule) is None:
        return False
    pf = [c[1] for c in rule['comps'] if c[0] == 'pfx']
    return len(pf) == len(set(pf))


# ------------------------------------------------------------------------------- generation


def gen_value(rng, v6, t, wide=False):
    mx = (TEXT_MAX6 if v6 else TEXT_MAX4)[t]
    if wide:
        return rng.choice([255, 256, 65535, 65536, (1 << 32) - 1, 1 << 32, rng.getrandbits(34)])
    bnd = [b for b in (0, 1, 63, 64, 255, 256, 65535, 65536, 0xFFFFF) if b <= mx]
    r = rng.random()
    if r < 0.45:
        return rng.choice(bnd)
    if r < 0.8:
        return rng.randint(0, min(mx, 255))
    return rng.randint(0, mx)


def gen_ops(rng, v6, t, n, wide=False):
    table = BIN_OPS if t in BINARY else NUM_OPS
    ops = []
    for i in range(n):
        a = 1 if (i and rng.random() < 0.4) else 0
        ops.append((a, rng.choice(list(table)), gen_value(rng, v6, t, wide)))
    return ops


def gen_prefix(rng, v6, t, weird=False):
    if v6:
        mask = rng.choice([0, 1, 7, 8, 9, 48, 64, 120, 127, 128, rng.randint(0, 128)])
        off = 0 if rng.random() < 0.5 or mask == 0 else rng.choice([1, 7, 8, 9, 16, 64, max(0, mask - 1), rng.randint(0, max(0, mask - 1))])
        off = min(off, max(0, mask - 1))
        if weird:
            off = rng.choice([mask, mask + 1, 200, 255])
        addr = [rng.getrandbits(8) for _ in range(16)]
        style = rng.choice(['short', 'long', 'nooff'])
    else:
        mask = rng.choice([0, 1, 7, 8, 9, 24, 25, 31, 32, rng.randint(0, 32)])
        if weird:
            mask = rng.choice([33, 40, 128, 200, 255])
        off = 0
        addr = [rng.getrandbits(8) for _ in range(4)]
        style = rng.choice(['short', 'long'])
    if rng.random() < 0.6:  # host bits cleared, as an operator would write it
        alen = len(addr) * 8
        val = int.from_bytes(bytes(addr), 'big')
        if mask <= alen:
            val &= ~((1 << (alen - mask)) - 1)
        addr = list(val.to_bytes(len(addr), 'big'))
    return ('pfx', t, mask, off, addr, style)


def gen_rule(rng, idx, kind='text'):
    v6 = rng.random() < 0.45
    names = NAMES6 if v6 else NAMES4
    rd = []
    if rng.random() < 0.3:
        rd = [0, 0, rng.getrandbits(8), rng.getrandbits(8)] + [rng.getrandbits(8) for _ in range(4)]
    comps = []
    types = [t for t in [1, 2] + sorted(names) if rng.random() < rng.choice([0.15, 0.35, 0.7])]
    if not types:
        types = [rng.choice([1, 2] + sorted(names))]
    rng.shuffle(types)
    for t in types:
        if t <= 2:
            comps.append(gen_prefix(rng, v6, t, weird=(kind == 'text' and rng.random() < 0.03)))
            if rng.random() < 0.04:
                comps.append(gen_prefix(rng, v6, t))
        else:
            n = rng.choice([1, 1, 1, 2, 2, 3, 5])
            comps.append(('ops', t, gen_ops(rng, v6, t, n, wide=(kind == 'direct')), rng.choice(['bare', 'list'])))
            if rng.random() < 0.12:  # the same keyword on a second line: merged into one list
                comps.append(('ops', t, gen_ops(rng, v6, t, rng.choice([1, 2])), 'list'))
    if kind == 'direct' and rng.random() < 0.3:
        # AND bit on the very first operator (no text writes it)
        for i, c in enumerate(comps):
            if c[0] == 'ops':
                o = list(c[2])
                o[0] = (1, o[0][1], o[0][2])
                comps[i] = ('ops', c[1], o, c[3])
                break
    if v6 and not any(c[0] == 'pfx' for c in comps):
        # the family of a flow route is only switched to IPv6 by an IPv6 prefix (Flow.add): a rule without
        # one is announced as IPv4 whatever its keywords, so every IPv6 rule here carries a prefix
        comps.insert(rng.randint(0, len(comps)), gen_prefix(rng, True, rng.choice([1, 2])))
    via = kind if kind != 'text' else ('conf' if idx % 25 == 0 else 'api')
    return {'v6': v6, 'rd': rd, 'comps': comps, 'via': via, 'kind': 'random'}


def long_rule(rng, target, v6=False, rd=False, t=5):
    """a rule whose body is exactly `target` octets (values < 256 take 2 octets per operator)"""
    rdb = [0, 0, 255, 255, 0, 1, 0, 0] if rd else []
    pre = [('pfx', 1, 0, 0, [0] * 16, 'short')] if v6 else []  # 3 octets; makes the route IPv6
    n = target - len(rdb) - 1 - 3 * len(pre)
    ops = []
    if n % 2:  # one 2-octet value (3 octets with its operator)
        ops.append((0, 1, 256 + rng.randint(0, 1000)))
        n -= 3
    ops += [(0, 1, rng.randint(0, 255)) for _ in range(n // 2)]
    return {'v6': v6, 'rd': rdb, 'comps': pre + [('ops', t, ops, 'list')], 'via': 'api', 'kind': f'len{target}'}


def encode_cases(rng, tier):
    n = 1100 if tier == "quick" else 20000
    cases = [gen_rule(rng, i) for i in range(n)]
    cases += [gen_rule(rng, i, 'direct') for i in range(n // 5)]
    lens = [237, 238, 239, 240, 241, 242, 255, 256, 257, 511, 512, 4094, 4095, 4096, 4097]
    if tier != 'quick':
        lens += list(range(230, 262)) + [1000, 2047, 2048, 4000, 4090, 4091, 4092, 4093]
    for ln in lens:
        cases.append(long_rule(rng, ln))
        if ln < 600:
            cases.append(long_rule(rng, ln, v6=True, rd=True, t=13))
    # every component alone at every width boundary, and the smallest rules
    for v6 in (False, True):
        names = NAMES6 if v6 else NAMES4
        for t in sorted(names):
            for v in (0, 255, 256, 65535, 65536, 0xFFFFF):
                if v <= (TEXT_MAX6 if v6 else TEXT_MAX4)[t]:
                    for nb in (BIN_OPS if t in BINARY else NUM_OPS):
                        pre = [('pfx', 1, 0, 0, [0] * 16, 'short')] if v6 else []
                        cases.append({'v6': v6, 'rd': [], 'comps': pre + [('ops', t, [(0, nb, v)], 'bare')], 'via': 'api', 'kind': 'single'})
        for t in (1, 2):
            for mask in ([0, 1, 8, 31, 32] if not v6 else [0, 1, 8, 64, 127, 128]):
                for off in ([0] if not v6 else sorted({0, 1, 8, max(0, mask - 1)})):
                    if off and off >= mask:
                        continue
                    addr = [0xA5, 0x5A, 0xC3, 0x3C] * (4 if v6 else 1)
                    cases.append({'v6': v6, 'rd': [], 'comps': [('pfx', t, mask, off, addr, 'short')], 'via': 'api', 'kind': 'single'})
    for c in cases:
        c['comps'] = [tuple(x) for x in c['comps']]
    return cases


# --- decode direction: structured wire descriptions


def wire_ops(rng, t, n, first_and=False, reserved=False, widths=(1, 2, 4, 8)):
    out, sem = [], []
    for i in range(n):
        w = rng.choice(widths)
        v = rng.choice([0, 255, rng.getrandbits(8 * w)]) % (1 << (8 * w))
        a = 1 if (i and rng.random() < 0.4) or (i == 0 and first_and) else 0
        nb = rng.choice([1, 2, 3, 4, 5, 6, 0, 7]) if t not in BINARY else rng.choice([0, 1, 2, 3])
        if reserved:
            nb |= 8
        b = (0x80 if i == n - 1 else 0) | (a << 6) | ({1: 0, 2: 1, 4: 2, 8: 3}[w] << 4) | nb
        out += [b] + list(v.to_bytes(w, 'big'))
        sem.append((a, nb, v))
    return out, sem


def gen_wire(rng, idx):
    """-> case dict with 'data' and a description; most are RFC well-formed, then at most one fault"""
    v6 = rng.random() < 0.45
    vpn = rng.random() < 0.3
    maxt = 13 if v6 else 12
    types = sorted(t for t in range(1, maxt + 1) if rng.random() < rng.choice([0.1, 0.3, 0.5]))
    if not types:
        types = [rng.randint(1, maxt)]
    fault = rng.choice(['none'] * 6 + ['undefined', 'truncated', 'noeol', 'order', 'dup', 'shortrd', 'firstand', 'reserved',
                                      'lenover', 'exastyle6', 'trailing', 'badmask', 'cut'])
    parts, has_off = [], False
    for t in types:
        if t <= 2:
            if v6:
                mask = rng.choice([0, 8, 64, 127, 128, rng.randint(0, 128)])
                off = 0 if (mask == 0 or rng.random() < 0.6) else rng.randint(0, mask - 1)
                has_off = has_off or off > 0
                nbytes = (mask - off + 7) // 8
                if fault == 'exastyle6':
                    nbytes = (mask + 7) // 8
                parts.append([t, mask, off] + [rng.getrandbits(8) for _ in range(nbytes)])
            else:
                mask = rng.choice([0, 8, 24, 25, 32, rng.randint(0, 32)])
                parts.append([t, mask] + [rng.getrandbits(8) for _ in range((mask + 7) // 8)])
        else:
            ob, _ = wire_ops(rng, t, rng.choice([1, 1, 2, 3]), first_and=(fault == 'firstand'), reserved=(fault == 'reserved'))
            parts.append([t] + ob)
    k = rng.randrange(len(parts))
    if fault == 'undefined':
        parts.insert(rng.randint(0, len(parts)), [rng.choice([0, 14, 15, 16, 100, 255] + ([13] if not v6 else []))] + wire_ops(rng, 5, 1)[0])
    elif fault == 'truncated':
        parts[-1] = parts[-1][: max(1, len(parts[-1]) - rng.randint(1, 2))]
    elif fault == 'noeol':
        ops = [p for p in parts if p[0] > 2]
        if ops:
            p = ops[-1]
            # clear EOL on the last operator of the last operator component: find it by re-walking
            i = 1
            while True:
                w = 1 << ((p[i] >> 4) & 3)
                if p[i] & 0x80:
                    p[i] &= 0x7F
                    break
                i += 1 + w
            parts.remove(p)
            parts.append(p)
    elif fault == 'order' and len(parts) > 1:
        parts[0], parts[-1] = parts[-1], parts[0]
    elif fault == 'dup':
        parts.insert(k + 1, list(parts[k]))
    elif fault == 'badmask':
        parts.insert(0, [1, 33 if not v6 else 129] + ([0] if v6 else []) + [1, 2, 3, 4, 5])
    body = [b for p in parts for b in p]
    if fault == 'cut' and len(body) > 1:
        body = body[: rng.randint(1, len(body) - 1)]
    rd = [rng.getrandbits(8) for _ in range(8)] if vpn else []
    if fault == 'shortrd':
        vpn, rd = True, []
        body = body[: rng.randint(0, 7)]
    body = rd + body
    if rng.random() < 0.04 or idx % 40 == 0:
        # long NLRI: pad with a long destination-port list (type 5 after the others would break order:
        # use the highest type allowed, or alone)
        extra = rng.choice([230, 240, 250, 256, 300, 1000])
        t = maxt
        body = rd + [t] + [0x01, 80] * (extra // 2) + [0x81, 80]
        fault = 'long'
    ln = len(body)
    if fault == 'lenover':
        ln += rng.randint(1, 3)
    hdr = [ln] if ln < 240 else [0xF0 | (ln >> 8), ln & 0xFF]
    if ln < 240 and rng.random() < 0.03:
        hdr = [0xF0, ln]  # two-octet form of a short length
    data = hdr + body
    if fault == 'trailing' or rng.random() < 0.1:
        data += [rng.getrandbits(8) for _ in range(rng.randint(1, 4))]
    return {'v6': v6, 'vpn': vpn, 'data': data, 'fault': fault, 'has_off': has_off}


def decode_cases(rng, tier):
    n = 1500 if tier == "quick" else 30000
    cases = [gen_wire(rng, i) for i in range(n)]
    # raw random bytes (malformed stream)
    for _ in range(n // 6):
        k = rng.randint(0, 12)
        body = [rng.choice([1, 2, 3, 5, 9, 13, 0x81, 0x91, 0, 255, rng.getrandbits(8)]) for _ in range(k)]
        cases.append({'v6': rng.random() < 0.5, 'vpn': rng.random() < 0.2, 'data': [len(body)] + body, 'fault': 'random', 'has_off': False})
    # every (component, operator byte) pair with a value of the announced width (thorough: all 256 bytes)
    step = 1 if tier != 'quick' else 7
    for v6 in (False, True):
        for t in range(0, 16):
            for b in range(0, 256, step):
                w = 1 << ((b >> 4) & 3)
                body = [t, b] + [0x11] * w + ([] if b & 0x80 else [0x81, 0x22])
                cases.append({'v6': v6, 'vpn': False, 'data': [len(body)] + body, 'fault': 'opbyte', 'has_off': False})
    cases += [{'v6': False, 'vpn': False, 'data': [], 'fault': 'empty', 'has_off': False},
              {'v6': False, 'vpn': False, 'data': [0xF0], 'fault': 'empty', 'has_off': False},
              {'v6': False, 'vpn': False, 'data': [0], 'fault': 'empty', 'has_off': False}]
    return cases


# ------------------------------------------------------------------------------- Coq evaluation

EQS = """From Coq Require Import ZArith Bool List.
From ExaV Require Import gen.Gen_Flow spec.Spec_Flow model.Model_Flow.
Import ListNotations. Open Scope Z_scope.
Fixpoint leqb (a b : list Z) : bool :=
  match a, b with [], [] => true | x :: a', y :: b' => (x =? y) && leqb a' b' | _, _ => false end.
Definition op_eqb (a b : op) : bool :=
  match a, b with (a1, n1, v1), (a2, n2, v2) => (a1 =? a2) && (n1 =? n2) && (v1 =? v2) end.
Fixpoint ops_eqb (a b : list op) : bool :=
  match a, b with [], [] => true | x :: a', y :: b' => op_eqb x y && ops_eqb a' b' | _, _ => false end.
Definition comp_eqb (a b : comp) : bool :=
  match a, b with
  | CPfx t1 m1 o1 p1, CPfx t2 m2 o2 p2 => (t1 =? t2) && (m1 =? m2) && (o1 =? o2) && (p1 =? p2)
  | COps t1 l1, COps t2 l2 => (t1 =? t2) && ops_eqb l1 l2
  | _, _ => false end.
Fixpoint comps_eqb (a b : list comp) : bool :=
  match a, b with [], [] => true | x :: a', y :: b' => comp_eqb x y && comps_eqb a' b' | _, _ => false end.
Definition rule_eqb (a b : rule) : bool := leqb (r_rd a) (r_rd b) && comps_eqb (r_comps a) (r_comps b).
Definition mcomp_eqb (a b : mcomp) : bool :=
  match a, b with
  | MPfx t1 m1 o1 p1, MPfx t2 m2 o2 p2 => (t1 =? t2) && (m1 =? m2) && (o1 =? o2) && leqb p1 p2
  | MOps t1 l1, MOps t2 l2 => (t1 =? t2) && ops_eqb l1 l2
  | _, _ => false end.
Fixpoint mcomps_eqb (a b : list mcomp) : bool :=
  match a, b with [], [] => true | x :: a', y :: b' => mcomp_eqb x y && mcomps_eqb a' b' | _, _ => false end.
Definition mrule_eqb (a b : mrule) : bool := leqb (m_rd a) (m_rd b) && mcomps_eqb (m_comps a) (m_comps b).
Definition obytes_eqb (a b : option (list Z)) : bool :=
  match a, b with Some x, Some y => leqb x y | None, None => true | _, _ => false end.
Fixpoint bad {A} (ok : A -> bool) (l : list A) (i : nat) : list nat :=
  match l with [] => [] | c :: l' => if ok c then bad ok l' (S i) else i :: bad ok l' (S i) end.
(* encode, model: enc_flow = what the implementation produced (None = it raised) *)
Definition ok_enc_m (c : bool * mrule * option (list Z)) : bool :=
  match c with (v6, r, e) => obytes_eqb (enc_flow v6 r) e end.
(* encode, oracle: the bytes read by the RFC decoder give the written rule, nothing left over, the
   length is written as RFC 8955 4.1 says, and the body has the shortest-width size *)
Definition hdr_ok (b : list Z) : bool :=
  match b with
  | b0 :: rest => if b0 <? 240 then obytes_eqb (ref_length (Z.of_nat (length rest))) (Some [b0])
                  else match rest with b1 :: body => obytes_eqb (ref_length (Z.of_nat (length body))) (Some [b0; b1]) | [] => false end
  | [] => false end.
Definition body_len (b : list Z) : Z :=
  match b with b0 :: rest => if b0 <? 240 then Z.of_nat (length rest) else Z.of_nat (length rest) - 1 | [] => 0 end.
Definition ok_enc_s (c : bool * bool * list Z * rule * Z) : bool :=
  match c with (v6, vpn, b, r, n) =>
    match ref_flow v6 vpn b with ROk r' [] => rule_eqb r r' | _ => false end && hdr_ok b && (body_len b =? n) end.
(* decode, model *)
Definition dres_eqb (a b : dres) : bool :=
  match a, b with
  | DRaise, DRaise => true
  | DInvalid o1, DInvalid o2 => leqb o1 o2
  | DOk r1 o1, DOk r2 o2 => mrule_eqb r1 r2 && leqb o1 o2
  | _, _ => false end.
Definition dview (v6 : bool) (d : dres) : dres := match d with DOk r o => DOk (view v6 r) o | x => x end.
Definition ok_dec_m (c : bool * bool * list Z * dres) : bool :=
  match c with (v6, vpn, b, e) => dres_eqb (dview v6 (dec_flow v6 vpn b)) e end.
(* decode, oracle: got = Some (rule, over) when the implementation delivered a rule.
   0 = fine, 1 = a well-formed NLRI not decoded to the reference rule, 2 = an NLRI with a named fault
   (undefined component, truncated value, missing end of list) delivered as a rule *)
Definition judge_dec (c : bool * bool * list Z * option (rule * list Z)) : Z :=
  match c with (v6, vpn, b, got) =>
    match ref_flow v6 vpn b with
    | ROk r over => match got with Some (r', o') => if rule_eqb r r' && leqb over o' then 0 else 1 | None => 1 end
    | RErr _ _ =>
      match ref_scan v6 vpn b with
      | RErr e _ => if named_fault e then match got with Some _ => 2 | None => 0 end else 0
      | ROk _ _ => 0
      end
    end end.
Definition ref_class (c : bool * bool * list Z * option (rule * list Z)) : Z :=
  match c with (v6, vpn, b, _) =>
    match ref_flow v6 vpn b with
    | ROk _ _ => 0
    | RErr e _ => match e with EUndefined => 1 | ETruncated => 2 | ENoEOL => 3 | EOrder => 4 | EPrefix => 5 | ELength => 6 | ERd => 7 end
    end end.
Definition has_off (cs : list comp) : bool :=
  existsb (fun c => match c with CPfx _ _ o _ => negb (o =? 0) | COps _ _ => false end) cs.
(* 1 when the RFC reading of the NLRI meets an IPv6 prefix with a non-zero offset (before any fault) *)
Definition ref_off (c : bool * bool * list Z * option (rule * list Z)) : Z :=
  match c with (v6, vpn, b, _) =>
    match ref_flow v6 vpn b with
    | ROk r _ => if has_off (r_comps r) then 1 else 0
    | RErr _ bf => if has_off bf then 1 else 0
    end end.
Definition ok_act (c : action * list Z) : bool :=
  match c with (a, e) => leqb (enc_action a) e && leqb (ref_action a) e end.
"""


def shards_of(idx, weight, cap=45000, maxn=150):
    out, cur, size = [], [], 0
    for i in idx:
        cur.append(i)
        size += weight(i)
        if size > cap or len(cur) >= maxn:
            out.append(cur)
            cur, size = [], 0
    if cur:
        out.append(cur)
    return out


def coq_eval(tag, typ, fn, items, idx, weight, evals=('bad',)):
    """items: index -> Coq literal.  Runs `bad fn cases` (and optional map) per shard -> (ok, bad indices, logs, extra)"""
    shards = shards_of(idx, weight)

    def defs(shard):
        txt = f'Definition cases : list ({typ}) := [' + ';\n'.join(items[i] for i in shard) + '].\n'
        txt += f'Eval vm_compute in (bad {fn} cases 0).\n'
        for e in evals[1:]:
            txt += f'Eval vm_compute in (map {e} cases).\n'
        return txt

    res = common.eval_cases(EQS, defs, shards, tag)
    ok = all(rc == 0 for rc, _, _ in res)
    badi, logs, extra = [], [], {}
    for shard, (rc, out, parsed) in zip(shards, res):
        if rc != 0:
            logs.append(out[-1500:])
            continue
        badi += [shard[j] for j in common.nat_list_of(parsed[0])]
        for k, e in enumerate(evals[1:]):
            vals = common.nat_list_of(parsed[1 + k])
            for j, v in zip(shard, vals):
                extra.setdefault(e, {})[j] = v
    return ok, badi, logs, extra


def obytes(res):
    return f'(Some {zbytes(res[1])})' if res[0] == 'bytes' else 'None'


def dres_lit(res):
    if res[0] == 'raise':
        return 'DRaise'
    if res[0] == 'invalid':
        return f'(DInvalid {zlist(res[1])})'
    return f'(DOk {model_rule_of(res[1], res[2])} {zlist(res[3])})'


# ------------------------------------------------------------------------------- actions


def f32(x):
    return int.from_bytes(struct.pack('!f', x), 'big')


def action_cases(rng, tier):
    out = []
    n = 40 if tier == 'quick' else 400
    out.append(('discard', 'ARateBytes 0 0'))
    for _ in range(n):
        v = rng.choice([0, 9600, 1, 12345678, 10 ** 12, rng.randint(0, 10 ** 12)])
        out.append((f'rate-limit {v}', f'ARateBytes 0 {f32(float(min(v, 10 ** 12)))}'))
        v = rng.choice([0, 1000, rng.randint(0, 10 ** 9)])
        out.append((f'rate-limit {v} packets', f'ARatePackets 0 {f32(float(v))}'))
        a, nn = rng.choice([0, 1, 65535, rng.randint(0, 65535)]), rng.choice([0, 1, 65535, 65536, 2 ** 32 - 1, rng.getrandbits(32)])
        out.append((f'redirect {a}:{nn}', f'ARedirect2 {a} {nn}'))
        a, nn = rng.choice([65536, 2 ** 32 - 1, rng.randint(65536, 2 ** 32 - 1)]), rng.choice([0, 65535, rng.getrandbits(16)])
        out.append((f'redirect {a}:{nn}', f'ARedirect4 {a} {nn}'))
        d = rng.randint(0, 63)
        out.append((f'mark {d}', f'AMark {d}'))
    out += [('action sample', 'AAction true false'), ('action terminal', 'AAction false true'),
            ('action sample-terminal', 'AAction true true'), ('mark 0', 'AMark 0'), ('mark 63', 'AMark 63')]
    return out


def run_action(then):
    rule = {'v6': False, 'rd': [], 'comps': [('pfx', 2, 32, 0, [10, 0, 0, 1], 'short')], 'via': 'api', 'then': then}
    try:
        routes = api().api_flow(render_api(rule))
        if len(routes) != 1:
            return None
        from exabgp.bgp.message.update.attribute import Attribute

        ec = routes[0].attributes[Attribute.CODE.EXTENDED_COMMUNITY]
        return [list(bytes(c.pack())) if hasattr(c, 'pack') else list(bytes(c._packed)) for c in ec.communities]
    except Exception as exc:
        return 'raise ' + type(exc).__name__


# ------------------------------------------------------------------------------- check


def enc_desc(rule, res):
    return {'direction': 'encode', 'ipv6': rule['v6'], 'rd_hex': bytes(rule['rd']).hex(), 'via': rule['via'],
            'text': (render_conf(rule) if rule['via'] == 'conf' else render_api(rule))[:2000] if rule['via'] != 'direct' else None,
            'components': [list(c[:5]) if c[0] == 'pfx' else [c[0], c[1], [list(o) for o in c[2]][:40]] for c in rule['comps']],
            'rfc_body_length': rfc_body_len(rule),
            'implementation': [res[0], bytes(res[1]).hex()[:400] if res[0] == 'bytes' else res[1]],
            'replay': {'kind': 'enc', 'rule': jrule(rule)}}


def dec_desc(case, res):
    r = list(res)
    return {'direction': 'decode', 'ipv6': case['v6'], 'flow_vpn': case['vpn'], 'nlri_hex': bytes(case['data']).hex()[:600],
            'nlri_length': len(case['data']), 'fault': case['fault'], 'implementation': json.loads(json.dumps(r, default=str))[:4],
            'replay': {'kind': 'dec', 'case': {'v6': case['v6'], 'vpn': case['vpn'], 'data': list(case['data']), 'fault': case['fault'],
                                               'has_off': bool(case.get('has_off'))}}}


# Every failing case that is a consequence of IPrefix6.pack/make not following RFC 8956 3.1 (pattern =
# the bits between offset and length, ceil((length-offset)/8) octets) carries this one signature, in both
# directions; it is the known finding of C16 (qa/encoding/conf-flow.ci pins the bytes).
OFFSET_SIG = 'ipv6-prefix-offset-not-rfc8956'
ORACLE_ENC = 'property oracle (encode): bytes read back by Spec_Flow.ref_flow as the written rule, RFC 8955 4.1 length, shortest widths'
ORACLE_DEC = 'property oracle (decode): NLRIs judged by Spec_Flow.ref_flow / ref_scan'


def enc_sig(rule, res):
    if rule['v6'] and any(c[0] == 'pfx' and c[3] for c in rule['comps']) and res[0] == 'bytes':
        return OFFSET_SIG
    n = rfc_body_len(rule)
    if res[0] != 'bytes':
        if n is not None and n >= 4095:
            return f'enc:length-{n}:refused'
        return f'enc:{res[0]}:{res[1]}'
    return 'enc:bytes-differ-from-rfc'


def v6off(case, res, ref_off=0):
    return bool(case['v6'] and (ref_off or case.get('has_off') or (res[0] == 'ok' and any(c[0] == 'pfx' and c[3] for c in res[2]))))


def dec_sig(case, res, verdict, ref_off=0):
    if v6off(case, res, ref_off):
        return OFFSET_SIG
    if verdict == 2:
        return f'dec:broader:{case["fault"]}'
    if res[0] == 'raise' and len(case['data']) >= 258:
        return 'dec:length>=256:notify-raised'
    return f'dec:wellformed-not-decoded:{case["fault"]}:{res[0]}'


BL = lambda b: 'true' if b else 'false'  # noqa: E731


def eval_encode(ecases, eres, tag='c16_e'):
    """correspondence + oracle for the encode direction -> dict"""
    judged = [i for i, r in enumerate(eres) if r[0] in ('bytes', 'raise')]
    items = {i: f'({BL(ecases[i]["v6"])}, {model_rule_of(ecases[i]["rd"], [c[:5] if c[0] == "pfx" else c[:3] for c in ecases[i]["comps"]])}, {obytes(eres[i])})' for i in judged}
    wt = lambda i: 60 + 12 * sum(len(c[2]) if c[0] == 'ops' else 20 for c in ecases[i]['comps']) + (4 * len(eres[i][1]) if eres[i][0] == 'bytes' and len(eres[i][1]) < 300 else 200)  # noqa: E731
    m_ok, m_bad, m_logs, _ = coq_eval(tag + 'm', 'bool * mrule * option (list Z)', 'ok_enc_m', items, judged, wt)
    wf = [i for i in judged if rfc_wellformed(ecases[i])]  # oracle: only rules the RFC can carry
    s_items, s_idx, enc_fail = {}, [], []
    for i in wf:
        c, r = ecases[i], eres[i]
        n = rfc_body_len(c)
        if r[0] != 'bytes':
            if n <= 4095:
                enc_fail.append(i)  # a rule RFC 8955 can carry (length <= 4095) was not encoded
            continue
        if n > 4095:
            enc_fail.append(i)
            continue
        canon = [x[:5] if x[0] == 'pfx' else x[:3] for x in canon_py(c['comps'])]
        s_items[i] = f'({BL(c["v6"])}, {BL(c["rd"])}, {zbytes(r[1])}, {spec_rule_of(c["rd"], canon)}, {n})'
        s_idx.append(i)
    s_ok, s_bad, s_logs, _ = coq_eval(tag + 's', 'bool * bool * list Z * rule * Z', 'ok_enc_s', s_items, s_idx, wt)
    return {'judged': judged, 'wf': wf, 'm_ok': m_ok, 'm_bad': m_bad, 's_ok': s_ok, 'fail': enc_fail + s_bad, 'logs': m_logs + s_logs}


def eval_decode(dcases, dres, tag='c16_d'):
    crashes = [i for i, r in enumerate(dres) if r[0] == 'crash']
    didx = [i for i, r in enumerate(dres) if r[0] != 'crash']
    d_items = {i: f'({BL(dcases[i]["v6"])}, {BL(dcases[i]["vpn"])}, {zbytes(dcases[i]["data"])}, {dres_lit(dres[i])})' for i in didx}
    dwt = lambda i: 80 + 8 * len(dcases[i]['data']) if len(dcases[i]['data']) < 200 else 2500  # noqa: E731
    dm_ok, dm_bad, dm_logs, _ = coq_eval(tag + 'm', 'bool * bool * list Z * dres', 'ok_dec_m', d_items, didx, dwt)
    j_items = {}
    for i in didx:
        r = dres[i]
        got = f'(Some ({spec_rule_of(r[1], r[2])}, {zlist(r[3])}))' if r[0] == 'ok' else 'None'
        j_items[i] = f'({BL(dcases[i]["v6"])}, {BL(dcases[i]["vpn"])}, {zbytes(dcases[i]["data"])}, {got})'
    ds_ok, ds_bad, ds_logs, extra = coq_eval(tag + 's', 'bool * bool * list Z * option (rule * list Z)', '(fun c => judge_dec c =? 0)',
                                             j_items, didx, dwt, evals=('bad', 'judge_dec', 'ref_class', 'ref_off'))
    return {'crashes': crashes, 'didx': didx, 'm_ok': dm_ok, 'm_bad': dm_bad, 's_ok': ds_ok, 'fail': ds_bad, 'logs': dm_logs + ds_logs,
            'verdicts': extra.get('judge_dec', {}), 'rclass': extra.get('ref_class', {}), 'ref_off': extra.get('ref_off', {})}


def jrule(rule):
    return {'v6': rule['v6'], 'rd': rule['rd'], 'via': rule['via'], 'then': rule.get('then', 'discard'),
            'comps': [[c[0], c[1], c[2], c[3], list(c[4]), c[5]] if c[0] == 'pfx' else [c[0], c[1], [list(o) for o in c[2]], c[3]] for c in rule['comps']]}


def unjrule(j):
    r = dict(j, kind='replay')
    r['comps'] = [tuple(c[:4]) + (list(c[4]), c[5]) if c[0] == 'pfx' else (c[0], c[1], [tuple(o) for o in c[2]], c[3]) for c in j['comps']]
    return r


def replay(path):
    """./check C16 --replay <file>: run one stored failing case again -> 1 if it still fails, else 0"""
    d = json.load(open(path))
    case = d.get('case', d)
    rp = case.get('replay')
    if not rp:
        print(f'[C16] {path}: no replayable case in this file')
        return 2
    for name, ok, msg in common.run_translators(['T8', 'T9']):
        if not ok:
            print(f'[C16] translator {name} failed: {msg}')
            return 2
    ok, log = common.coq_make(['props/Prop_C16.vo'])
    if not ok:
        print('[C16] coq build failed\n' + log[-1500:])
        common.cleanup()
        return 2
    if rp['kind'] == 'enc':
        rule = unjrule(rp['rule'])
        res = run_encode(rule)
        ev = eval_encode([rule], [res], 'c16_re')
        failing = bool(ev['fail']) or res[0] not in ('bytes', 'raise')
        sig = enc_sig(rule, res) if failing else None
        shown = enc_desc(rule, res)
    else:
        c = rp['case']
        res = run_decode(c)
        ev = eval_decode([c], [res], 'c16_rd')
        failing = bool(ev['fail']) or res[0] == 'crash'
        sig = dec_sig(c, res, ev['verdicts'].get(0), ev['ref_off'].get(0, 0)) if failing else None
        shown = dec_desc(c, res)
    agree = ev['m_ok'] and ev['s_ok'] and not ev['m_bad']
    shown.pop('replay', None)
    print(json.dumps(shown, indent=1)[:3000])
    print(f'[C16] replay {path}: implementation = model: {agree}; property oracle: {"FAILS sig=" + sig if failing else "holds"}')
    common.cleanup()
    return 1 if failing or not agree else 0


def check(tier, seed):
    run = Run('C16', tier, seed)
    run.trusted = [
        'Coq 8.16.1 kernel (coqc), vm_compute for case evaluation; no native_compute',
        'translator translate/t8_flow.py (import-time reflection of flow.py cross-checked with its ast; fail closed)',
        'harness/c16.py: rule -> text rendering, python glue computing the expected abstract rule (grouping by type, '
        'prefix pattern bits, shortest-width byte count), observation of decoded rules through Flow.rules '
        '(operations/value/_packed/_offset) with json()/extensive()/str() forced and the JSON parsed',
        'modelled, not verified: flow.py pack/unpack paths (hand model Model_Flow, constants and tables regenerated)',
    ]
    run.assumptions = [
        'octets are 0..255; the configuration tokeniser and value converters are outside the model (C18): a text the '
        'parser refuses is counted, not judged',
        'IEEE-754 single precision of rate-limit is computed by struct.pack on the harness side',
    ]
    common.standard_build(run, ['T8', 'T9'])
    rng = random.Random(seed)

    # ---------------------------------------------------------------- encode direction
    t0 = time.time()
    ecases = encode_cases(rng, tier)
    eres = [run_encode(c) for c in ecases]
    t_impl = time.time() - t0
    refused = [i for i, r in enumerate(eres) if r[0] not in ('bytes', 'raise')]
    # in-range rules (legal masks/offsets, values within the text ranges) must be accepted by the parser
    bad_refusals = [i for i in refused if rfc_wellformed(ecases[i]) and ecases[i]['via'] != 'direct']
    t0 = time.time()
    ee = eval_encode(ecases, eres)
    judged, wf, m_ok, m_bad, s_ok, enc_fail = ee['judged'], ee['wf'], ee['m_ok'], ee['m_bad'], ee['s_ok'], ee['fail']
    t_coq = time.time() - t0

    # ---------------------------------------------------------------- decode direction
    t0 = time.time()
    dcases = decode_cases(rng, tier)
    dres = [run_decode(c) for c in dcases]
    t_impl += time.time() - t0
    t0 = time.time()
    de = eval_decode(dcases, dres)
    crashes, didx, dm_ok, dm_bad, ds_ok, ds_bad = de['crashes'], de['didx'], de['m_ok'], de['m_bad'], de['s_ok'], de['fail']
    t_coq += time.time() - t0
    verdicts, rclass, ref_offs = de['verdicts'], de['rclass'], de['ref_off']

    # ---------------------------------------------------------------- actions
    acases = action_cases(rng, tier)
    ares = [run_action(t) for t, _ in acases]
    a_idx = [i for i, r in enumerate(ares) if isinstance(r, list) and len(r) == 1]
    a_items = {i: f'({acases[i][1]}, {zlist(ares[i][0])})' for i in a_idx}
    a_ok, a_bad, a_logs, _ = coq_eval('c16_a', 'action * list Z', 'ok_act', a_items, a_idx, lambda i: 100)
    a_unparsed = [i for i in range(len(acases)) if i not in a_idx]

    print(f'[C16] impl {t_impl:.1f}s coq eval {t_coq:.1f}s; encode {len(ecases)} decode {len(dcases)} actions {len(acases)}', flush=True)
    logs = '\n'.join(ee['logs'] + de['logs'] + a_logs)[-2500:]
    run.obligation('model evaluation (vm_compute of Model_Flow.enc_flow / dec_flow / enc_action on every case) ran', m_ok and dm_ok and a_ok, logs)
    run.obligation('spec evaluation (vm_compute of Spec_Flow.ref_flow / ref_scan / ref_length / ref_action) ran', s_ok and ds_ok, logs)
    run.obligation(f'every generated in-range rule text is accepted by the parser ({len(ecases) - len(refused)} of {len(ecases)} accepted, '
                   f'{len(refused)} out-of-range refused)', not bad_refusals,
                   f'{len(bad_refusals)} refused, first: {enc_desc(ecases[bad_refusals[0]], eres[bad_refusals[0]]) if bad_refusals else ""}')
    run.obligation(f'correspondence (encode): Flow.pack_nlri = Model_Flow.enc_flow on {len(judged)} rules', not m_bad,
                   f'{len(m_bad)} disagreements, first: {enc_desc(ecases[m_bad[0]], eres[m_bad[0]]) if m_bad else ""}')
    run.obligation(f'correspondence (decode): Flow.unpack_nlri = Model_Flow.dec_flow on {len(didx)} NLRIs', not dm_bad,
                   f'{len(dm_bad)} disagreements, first: {dec_desc(dcases[dm_bad[0]], dres[dm_bad[0]]) if dm_bad else ""}')
    run.obligation(ORACLE_ENC, not enc_fail, f'{len(enc_fail)} failing rules of {len(wf)} RFC-expressible rules')
    run.obligation(ORACLE_DEC, not ds_bad and not crashes, f'{len(ds_bad)} failing NLRIs of {len(didx)}, {len(crashes)} crashes')
    run.obligation(f'traffic actions: {len(a_idx)} `then` texts -> extended community = Model_Flow.enc_action = Spec_Flow.ref_action',
                   not a_bad and not a_unparsed,
                   f'bad {[(acases[i][0], ares[i]) for i in a_bad[:3]]} unparsed {[(acases[i][0], ares[i]) for i in a_unparsed[:3]]}')

    # ---------------------------------------------------------------- failing inputs (smallest per signature)
    best = {}
    for i in enc_fail:
        sig = enc_sig(ecases[i], eres[i])
        size = sum(len(c[2]) if c[0] == 'ops' else 1 for c in ecases[i]['comps'])
        if sig not in best or size < best[sig][0]:
            best[sig] = (size, 'a FlowSpec rule written in text is not encoded as RFC 8955/8956 say', enc_desc(ecases[i], eres[i]))
    for i in ds_bad:
        sig = dec_sig(dcases[i], dres[i], verdicts.get(i), ref_offs.get(i, 0))
        size = len(dcases[i]['data'])
        what = ('an NLRI with an undefined component / truncated value / missing end-of-list is delivered as a rule' if verdicts.get(i) == 2
                else 'a well-formed FlowSpec NLRI is not decoded to the rule the RFC reference decoder extracts')
        if sig not in best or size < best[sig][0]:
            best[sig] = (size, what, dec_desc(dcases[i], dres[i]))
    for i in crashes:
        sig = 'dec:crash:' + dres[i][1].split(':')[0]
        if sig not in best:
            best[sig] = (0, 'decoding or rendering a FlowSpec NLRI raised an unexpected exception', dec_desc(dcases[i], dres[i]))
    for i in a_bad:
        best.setdefault('action:' + acases[i][0].split()[0], (0, 'traffic action not mapped to the RFC extended community',
                                                              {'then': acases[i][0], 'implementation': ares[i]}))
    for sig, (_, what, desc) in sorted(best.items()):
        run.fail_case(sig, what, desc)

    # ---------------------------------------------------------------- coverage
    kinds = collections.Counter(c['kind'] + '/' + c['via'] for c in ecases)
    outcome = collections.Counter(r[0] for r in eres)
    ctypes = collections.Counter((('v6' if c['v6'] else 'v4') + ':' + str(x[1])) for c in ecases for x in c['comps'])
    blen = collections.Counter(min(len(r[1]) // 40 * 40, 4080) for r in eres if r[0] == 'bytes')
    faults = collections.Counter(c['fault'] for c in dcases)
    douts = collections.Counter(r[0] for r in dres)
    rc = collections.Counter({0: 'wellformed', 1: 'undefined', 2: 'truncated', 3: 'no-eol', 4: 'order', 5: 'prefix', 6: 'length', 7: 'rd'}[v] for v in rclass.values())
    distinct = len({(c['v6'], bytes(c['rd']), str(c['comps'])) for c in ecases}) + len({(c['v6'], c['vpn'], bytes(c['data'])) for c in dcases if len(c['data']) > 2})
    # observations that are not violations of the property text, kept visible
    shortrd = sum(1 for i in didx if rclass.get(i) == 7 and dres[i][0] == 'ok')
    unordered = sum(1 for i in didx if rclass.get(i) == 4 and dres[i][0] == 'ok')
    run.notes.append(f'observed, not judged (outside the property text): {shortrd} flow-vpn NLRIs shorter than a route distinguisher '
                     f'delivered as rules without RD; {unordered} NLRIs with components out of order / repeated delivered as rules')
    run.coverage.update({
        'evaluations': len(ecases) + len(dcases) + len(acases),
        'distinct_nontrivial': distinct,
        'rule': 'encode: random rules over all component types of both families (1-5 operators per line, AND chains, repeated '
                'keywords, prefixes with masks 0..32/128 and IPv6 offsets, with/without rd), values at 0/63/255/256/65535/65536/0xFFFFF '
                '(text) and 2^32-1/2^32 (objects built directly), every component alone with every operator at every width boundary, '
                'bodies of exactly 237..257, 511, 512, 4094..4097 octets; through the API text, and 1 in 25 through a whole configuration '
                'file.  decode: RFC well-formed NLRIs with any announced width 1/2/4/8 then at most one fault (undefined type, truncated, '
                'no EOL, order, duplicate, short RD, AND on first, reserved bits, length beyond data, ExaBGP-style IPv6 prefix, trailing '
                'octets, bad mask, cut), random octets, every (type 0..15, operator octet) pair (1 in 7 at quick), lengths 230..1000. '
                'non-trivial = distinct rules + distinct NLRIs longer than 2 octets',
        'encode_kinds': dict(kinds), 'encode_outcomes': dict(outcome), 'component_histogram': dict(sorted(ctypes.items())),
        'encoded_length_histogram': {str(k): v for k, v in sorted(blen.items())},
        'decode_faults': dict(faults), 'decode_outcomes': dict(douts), 'reference_classes': dict(rc),
        'timing_s': {'implementation': round(t_impl, 1), 'coq_evaluation': round(t_coq, 1)},
        'exhaustive': tier != 'quick',
    })
    for c, r in list(zip(ecases, eres))[:3]:
        run.samples.append(enc_desc(c, r))
    for c, r in list(zip(dcases, dres))[:3]:
        run.samples.append(dec_desc(c, r))
    if run.broken() and not run.failing:
        run.coverage['search'] = f'{len(ecases)} rules and {len(dcases)} NLRIs were run on the implementation and judged by Spec_Flow; none failed'
    return run.finish(checker_cmd='make -C coq props/Prop_C16.vo && coqc -Q coq ExaV coq/props/Prop_C16.v (Print Assumptions)')
