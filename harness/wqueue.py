"""The API write queue (Processes.write in async mode + Processes.flush_write_queue) against Model_WriteQueue.

Shared pass of C05 (every "up" is followed by its "down" on the API: the order in which events reach the helper),
C13 (an event is written to the pipe as exactly one record) and C14 (replies reach the helper in command order).

The real Processes object is used with one helper 'svc' whose stdin is a stub; os.write is replaced, inside
exabgp.reactor.api.processes only, by a scripted pipe: every call takes the next outcome of the current flush's script
(W n: the pipe accepts n octets; Again: EAGAIN; Pipe: EPIPE; Err: EIO), EAGAIN once the script is used up.
 * correspondence: delivered octets, the items left in the deque and the broken mark = Model_WriteQueue.run on the same
   operations (evaluated by vm_compute; Coq returns the indexes of the cases that differ);
 * property oracle (no model involved): without pipe errors, delivered ++ queued = the records in the order written,
   and after enough generous flushes everything was delivered, whole and once;
 * tie: the batch size and the put-back discipline (front / back, after a partial write and after EAGAIN) of the model
   are regenerated from flush_write_queue by translate/t14_writequeue.py.
"""
import ast
import asyncio
import errno
import os
import random

from harness import common

HEADER = """From Coq Require Import ZArith List Bool.
From ExaV Require Import model.Model_WriteQueue.
Import ListNotations.
Open Scope Z_scope.
Fixpoint leq (a b : list Z) : bool :=
  match a, b with [], [] => true | x :: a', y :: b' => (x =? y) && leq a' b' | _, _ => false end.
Fixpoint lleq (a b : list (list Z)) : bool :=
  match a, b with [], [] => true | x :: a', y :: b' => leq x y && lleq a' b' | _, _ => false end.
Definition ok (ops : list op) (eo : list Z) (eq : list (list Z)) (ed : bool) : bool :=
  let s := run ops in leq (wq_out s) eo && lleq (wq_q s) eq && Bool.eqb (wq_dead s) ed.
Definition bad (l : list (nat * bool)) : list nat := map fst (filter (fun p => negb (snd p)) l).
"""


class _OS:
    """os, with write() scripted"""

    def __init__(self, rig):
        self._rig = rig

    def __getattr__(self, name):
        return getattr(os, name)

    def write(self, fd, data):
        return self._rig.pipe_write(fd, data)


class _Stdin:
    def fileno(self):
        return 987654


class _Proc:
    stdin = _Stdin()


class Rig:
    def __init__(self):
        import exabgp.reactor.api.processes as PM

        self.PM = PM
        self.real_os = PM.os
        PM.os = _OS(self)
        self.p = PM.Processes()
        self.p._async_mode = True
        self.p._process['svc'] = _Proc()
        self.delivered = bytearray()
        self.script = []
        self.loop = asyncio.new_event_loop()

    def close(self):
        self.PM.os = self.real_os
        self.loop.close()

    def pipe_write(self, fd, data):
        if not self.script:
            raise OSError(errno.EAGAIN, 'scripted pipe: script used up')
        o = self.script.pop(0)
        if o[0] == 'W':
            n = min(o[1], len(data))
            self.delivered += bytes(data[:n])
            return n
        if o[0] == 'Again':
            raise OSError(errno.EAGAIN, 'scripted EAGAIN')
        if o[0] == 'Pipe':
            raise OSError(errno.EPIPE, 'scripted EPIPE')
        raise OSError(errno.EIO, 'scripted EIO')

    def run(self, ops):
        for o in ops:
            if o[0] == 'Enq':
                self.p.write('svc', o[1])
            else:
                self.script = list(o[1])
                self.loop.run_until_complete(self.p.flush_write_queue())
                if 'svc' in self.p._broken:
                    break
        return bytes(self.delivered), [bytes(x) for x in self.p._write_queue.get('svc', [])], 'svc' in self.p._broken


def batch_size_in_source():
    src = open(os.path.join(common.REPO, 'src/exabgp/reactor/api/processes.py')).read()
    for node in ast.walk(ast.parse(src)):
        if isinstance(node, ast.AsyncFunctionDef) and node.name == 'flush_write_queue':
            for st in ast.walk(node):
                if isinstance(st, ast.Assign) and any(isinstance(t, ast.Name) and t.id == 'BATCH_SIZE' for t in st.targets):
                    if isinstance(st.value, ast.Constant):
                        return st.value.value
    return None


WORDS = ['neighbor 10.0.0.1 up', 'neighbor 10.0.0.1 down', 'done', 'error', '{"type":"state","state":"up"}',
         '{"type":"state","state":"down"}', 'neighbor 10.0.0.2 connected', 'x', 'y' * 70]


def gen_case(rng, kind):
    ops, n_enq = [], 0
    steps = rng.randint(2, 14)
    for _ in range(steps):
        if rng.random() < 0.55 or n_enq == 0:
            for _ in range(rng.choice([1, 1, 2, 3, 12])):
                ops.append(('Enq', rng.choice(WORDS) + (' %d' % n_enq)))
                n_enq += 1
        else:
            sc = []
            for _ in range(rng.randint(0, 12)):
                r = rng.random()
                if r < 0.55:
                    sc.append(('W', rng.choice([10 ** 6, 10 ** 6, 200, 21, 20, 5, 1, 0])))
                elif r < 0.9:
                    sc.append(('W', rng.randint(0, 30)))
                else:
                    sc.append(('Again',))
                if sc[-1] == ('Again',) or (sc[-1][0] == 'W' and sc[-1][1] < 20 and rng.random() < 0.7):
                    break
            ops.append(('Flush', sc))
    if kind == 'error':
        ops.append(('Enq', 'last %d' % n_enq))
        sc = [('W', 10 ** 6)] * rng.randint(0, 2) + [rng.choice([('Pipe',), ('Err',)])]
        ops.append(('Flush', sc))
    return ops


def coq_ops(ops):
    parts = []
    for o in ops:
        if o[0] == 'Enq':
            parts.append('Enq ' + common.zbytes(bytes(o[1] + '\n', 'ascii')))
        else:
            sc = '; '.join(('W %d%%nat' % min(x[1], 1000)) if x[0] == 'W' else x[0] for x in o[1])
            parts.append(f'Flush BATCH [{sc}]')
    return '[' + '; '.join(parts) + ']'


def run_pass(run, tier, seed):
    """adds the obligations of the write-queue pass to `run`"""
    rng = random.Random(seed * 7919 + 13)
    n = 300 if tier == 'quick' else 6000
    cases = []
    # the order witness of Proofs_WriteQueue first: two records, EAGAIN on the first one, then a pipe that takes everything
    cases.append(('witness', [('Enq', 'neighbor 10.0.0.1 down'), ('Enq', 'neighbor 10.0.0.1 up'), ('Flush', [('Again',)]),
                              ('Flush', [('W', 10 ** 6), ('W', 10 ** 6)])]))
    cases.append(('witness', [('Enq', 'a' * 30), ('Enq', 'b'), ('Flush', [('W', 7)]), ('Enq', 'c'), ('Flush', [('W', 3), ('W', 50)]),
                              ('Flush', [('W', 10 ** 6)] * 3)]))
    for i in range(n):
        kind = 'error' if i % 10 == 9 else 'plain'
        cases.append((kind, gen_case(rng, kind)))

    # BATCH, PARTIAL_FRONT and AGAIN_FRONT of the model are regenerated from the source by T14 (declared translator of
    # C05, C13 and C14); the value is recorded here for the evidence only
    run.coverage['api_write_queue_batch_size_in_source'] = batch_size_in_source()

    observed, oracle_bad, crashed = [], [], []
    for k, (kind, ops) in enumerate(cases):
        rig = Rig()
        try:
            try:
                out, queue, dead = rig.run(ops)
            except Exception as exc:  # noqa: BLE001
                crashed.append((k, f'{type(exc).__name__}: {exc}'))
                observed.append(None)
                continue
            observed.append((out, queue, dead))
            if kind != 'error':
                want = b''.join(bytes(o[1] + '\n', 'ascii') for o in ops if o[0] == 'Enq')
                if out + b''.join(queue) != want:
                    oracle_bad.append((k, 'delivered ++ queued differs from the records in the order written',
                                       {'delivered': out.decode('ascii', 'replace'), 'queued': [q.decode('ascii', 'replace') for q in queue]}))
                    continue
                # a generous pipe from here on: everything must arrive, whole, once, in order
                for _ in range(len(queue) // 10 + 2):
                    rig.script = [('W', 10 ** 6)] * 12
                    rig.loop.run_until_complete(rig.p.flush_write_queue())
                if bytes(rig.delivered) != want or rig.p._write_queue.get('svc'):
                    oracle_bad.append((k, 'after the pipe drained, the helper has not read the records in the order written',
                                       {'read': bytes(rig.delivered).decode('ascii', 'replace').split('\n')[:12],
                                        'written': want.decode('ascii').split('\n')[:12]}))
        finally:
            rig.close()

    run.obligation(f'write queue: the real Processes.write / flush_write_queue run on {len(cases)} scripted histories without an exception',
                   not crashed, f'{len(crashed)} raised; first: {crashed[0] if crashed else ""}')
    run.obligation(f'property oracle (API pipe): records reach the helper whole, once and in the order written, on {len(cases)} histories '
                   '(partial writes, EAGAIN, batches of 10)', not oracle_bad, f'{len(oracle_bad)} failing; first: {oracle_bad[0][1] if oracle_bad else ""}')
    for k, what, detail in oracle_bad[:1]:
        # smallest failing history first
        k, what, detail = min(oracle_bad, key=lambda t: len(cases[t[0]][1]))
        run.fail_case('api-pipe-order', what, {'operations': [list(o) for o in cases[k][1]], **detail})

    idx = [k for k, o in enumerate(observed) if o is not None]
    shards = common.chunked(idx, 120)

    def defs(shard):
        rows = []
        for k in shard:
            out, queue, dead = observed[k]
            rows.append(f'({k}%nat, ok {coq_ops(cases[k][1])} {common.zbytes(out)} [{"; ".join(common.zbytes(q) for q in queue)}] {"true" if dead else "false"})')
        return 'Eval vm_compute in bad [' + ';\n '.join(rows) + '].'

    res = common.eval_cases(HEADER, defs, shards, 'wqueue')
    ran = all(rc == 0 and r for rc, _, r in res)
    bad = []
    for rc, out, r in res:
        if rc == 0 and r:
            bad += common.nat_list_of(r[0])
    run.obligation('write queue: model evaluation (vm_compute of Model_WriteQueue.run on every history) ran', ran,
                   '\n'.join(o[-600:] for rc, o, _ in res if rc != 0)[:1500])
    run.obligation(f'correspondence (API pipe): delivered octets, queued items and broken mark of Processes = Model_WriteQueue.run on {len(idx)} histories',
                   ran and not bad, f'{len(bad)} disagreements; first: {[list(o) for o in cases[bad[0]][1]] if bad else ""}'[:900])
    if bad and not oracle_bad:
        k = min(bad, key=lambda t: len(cases[t][1]))
        run.notes.append(f'write-queue correspondence: smallest disagreeing history {[list(o) for o in cases[k][1]]}; observed {observed[k]}')
    hist = {}
    for kind, ops in cases:
        for o in ops:
            if o[0] == 'Flush':
                for x in o[1]:
                    key = x[0] if x[0] != 'W' else ('W-all' if x[1] >= 10 ** 5 else 'W-zero' if x[1] == 0 else 'W-partial-or-exact')
                    hist[key] = hist.get(key, 0) + 1
    run.coverage['api_write_queue'] = {'histories': len(cases), 'with_pipe_error': sum(1 for c in cases if c[0] == 'error'),
                                       'pipe_outcomes': hist, 'model_disagreements': len(bad), 'oracle_failures': len(oracle_bad)}
    return not (bad or oracle_bad or crashed)
