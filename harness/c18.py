"""C18 - route text is accepted if and only if it can be sent.  T9 + H-text.

Every text is offered to the three entry points
  conf : Configuration([neighbor { <section> }], text=True).reload()      (refusal = False + located error)
  prt  : Configuration.parse_route_text(text)                              (refusal = [])
  api  : `peer * announce route|flow|vpls|attributes ...` through harness/apirig.py (refusal = error reply)
and the outcome is one of Accepted / Refused / Exception cls.  Every accepted route is encoded with
UpdateCollection(...).messages(negotiated) under {iBGP,eBGP} x {asn4,no asn4} x {ADD-PATH on,off} x {4096,65535},
decoded back with the real decoder and the field under test is compared with the number written in the text.
The value domains the parser applies (Gen_TextDomains.accept_<f>, regenerated from the source) are compared with
the real value parsers on the same numbers (correspondence, evaluated in Coq)."""

from __future__ import annotations

import collections
import random
import re
import struct
import time
import traceback

from harness import common
from harness.common import Run

FAMILIES = ('ipv4 unicast ipv6 unicast ipv4 multicast ipv4 nlri-mpls ipv6 nlri-mpls ipv4 mpls-vpn ipv6 mpls-vpn '
            'ipv4 flow ipv6 flow l2vpn vpls')
CONF_TEMPLATE = """neighbor 127.0.0.77 {
  router-id 1.2.3.4; local-address 127.0.0.1; local-as 65000; peer-as 65001;
  family { ipv4 unicast; ipv6 unicast; ipv4 multicast; ipv4 nlri-mpls; ipv6 nlri-mpls; ipv4 mpls-vpn; ipv6 mpls-vpn; ipv4 flow; ipv6 flow; l2vpn vpls; }
  %s
}
"""
API_CONF = """
neighbor 127.0.0.2 { router-id 1.2.3.4; local-address 127.0.0.1; local-as 65000; peer-as 65001;
  family { ipv4 unicast; ipv6 unicast; ipv4 multicast; ipv4 nlri-mpls; ipv6 nlri-mpls; ipv4 mpls-vpn; ipv6 mpls-vpn; ipv4 flow; ipv6 flow; l2vpn vpls; } }
"""

# ------------------------------------------------------------------------------- sessions


class Sess:
    def __init__(self, ibgp, asn4, addpath, msg_size):
        from exabgp.configuration.check import _negotiated
        from exabgp.configuration.setup import create_minimal_configuration
        from exabgp.util.enumeration import TriState

        self.key = f'{"ibgp" if ibgp else "ebgp"}/{"asn4" if asn4 else "asn2"}/{"addpath" if addpath else "plain"}/{msg_size}'
        self.ibgp, self.asn4, self.addpath, self.msg_size = ibgp, asn4, addpath, msg_size
        self.conf = create_minimal_configuration(local_as=65000, peer_as=65000 if ibgp else 65001, families=FAMILIES,
                                                 add_path=addpath)
        self.neighbor = next(iter(self.conf.neighbors.values()))
        if addpath:
            self.neighbor.capability.add_path = 3
        if not asn4:
            self.neighbor.capability.asn4 = TriState.FALSE
        self.neg_in, self.neg = _negotiated(self.neighbor)
        for n in (self.neg_in, self.neg):
            n.msg_size = msg_size
        assert bool(self.neg.asn4) == asn4, 'asn4 not as requested'


_SESSIONS = None


def sessions():
    global _SESSIONS
    if _SESSIONS is None:
        _SESSIONS = [Sess(i, a, p, m) for i in (True, False) for a in (True, False) for p in (False, True) for m in (4096, 65535)]
    return _SESSIONS


def encode_decode(route, sess):
    """-> (messages as bytes, decoded UpdateCollection list) ; raises whatever the implementation raises"""
    from exabgp.bgp.message.update.collection import RoutedNLRI, UpdateCollection

    r = sess.neighbor.resolve_self(route)
    msgs = [bytes(m) for m in UpdateCollection([RoutedNLRI(r.nlri, r.nexthop)], [], r.attributes).messages(sess.neg)]
    return msgs


def decode(msg, sess):
    from exabgp.bgp.message.update.collection import UpdateCollection

    body = msg[19:] if msg.startswith(b'\xff' * 16) else msg
    return UpdateCollection.unpack_message(body, sess.neg_in)


# ------------------------------------------------------------------------------- entry points

_PRT = None
_RIG = None


def exc_info(e):
    tb = traceback.extract_tb(e.__traceback__)
    where = ''
    for fr in reversed(tb):
        if '/exabgp/' in fr.filename:
            where = f'{fr.filename.split("/exabgp/", 1)[1]}:{fr.lineno}'
            break
    return {'cls': type(e).__name__, 'msg': str(e)[:120], 'where': where}


def run_prt(text):
    """Configuration.parse_route_text -> ('A', routes) | ('R', error) | ('X', info)"""
    global _PRT
    if _PRT is None:
        from exabgp.configuration.setup import create_minimal_configuration

        _PRT = create_minimal_configuration(families=FAMILIES)
    try:
        routes = _PRT.parse_route_text(text)
    except Exception as e:  # an exception out of the entry point is an observation
        try:
            _PRT.scope.clear()
        except Exception:
            _PRT = None
        return 'X', exc_info(e)
    if not routes:
        return 'R', str(_PRT.error)
    return 'A', list(routes)


def run_conf(section):
    """-> ('A', routes) | ('R', error text, located?) | ('X', info)"""
    from exabgp.configuration.configuration import Configuration

    from exabgp.rib import RIB

    for key in [k for k in RIB._cache if '127.0.0.77' in k]:
        del RIB._cache[key]  # the RIB store is process wide (keyed by neighbor name): every configuration starts empty
    text = CONF_TEMPLATE % section
    conf = Configuration([text], text=True)
    try:
        ok = conf.reload()
    except Exception as e:
        return 'X', exc_info(e)
    if not ok:
        return 'R', str(conf.error)
    try:
        nb = next(iter(conf.neighbors.values()))
        routes = []
        for u in nb.rib.outgoing.updates(False):
            pass
        routes = list(nb.rib.outgoing.cached_routes())
    except Exception as e:
        return 'X', dict(exc_info(e), phase='reading the routes of the accepted configuration')
    return 'A', routes


def rig():
    global _RIG
    if _RIG is None:
        from harness.apirig import Rig

        _RIG = Rig(API_CONF)
        _RIG.reactor.asynchronous.set_error_handler(lambda uid: _RIG.processes.log.append(('async_callback_raised', (uid,), {})))
        _RIG.escaped = []
        sched = _RIG.reactor.asynchronous.schedule

        def schedule(uid, command, callback):
            import inspect

            if not inspect.iscoroutine(callback):
                return sched(uid, command, callback)

            async def observed():
                try:
                    await callback
                except Exception as e:  # observation only: re-raised for the scheduler
                    _RIG.escaped.append(exc_info(e))
                    raise

            return sched(uid, command, observed())

        _RIG.reactor.asynchronous.schedule = schedule
    return _RIG


def run_api(line):
    """-> ('A', routes) | ('R', reply) | ('X', info) | ('N', 'no reply')"""
    global _RIG
    r = rig()
    try:
        r.clear_ribs()
        r.escaped = []
        ok, calls = r.command(line)
    except Exception as e:
        _RIG = None
        return 'X', exc_info(e)
    names = [c[0] for c in calls]
    try:
        routes = [x for v in r.routes().values() for x in v]
    except Exception as e:
        routes = None
    if 'async_callback_raised' in names:
        esc = r.escaped[-1] if r.escaped else {'cls': '?', 'msg': '', 'where': ''}
        return 'X', {'cls': esc['cls'], 'msg': esc['msg'] + ' (escaped the command callback; the command gets no done/error answer of its own'
                     + (f', {len(routes)} route(s) left announced in the RIB)' if routes else ')'), 'where': esc['where']}
    if 'answer_done' in names and not any(n.startswith('answer_error') for n in names):
        return 'A', routes or []
    if any(n.startswith('answer_error') for n in names):
        detail = ' '.join(str(a) for c in calls if c[0].startswith('answer_error') for a in c[1][1:])
        if routes:
            return 'X', {'cls': 'error-reply-but-route-announced', 'msg': detail[:100], 'where': ''}
        return 'R', detail
    return 'N', f'no terminal reply (handler returned {ok}, calls {names})'


# ------------------------------------------------------------------------------- own wire reader (oracle side)


def read_update(msg):
    """-> dict(attrs=[(flag, code, value)], nlri=bytes, withdrawn=bytes) or None when the framing is broken."""
    if len(msg) < 23 or msg[:16] != b'\xff' * 16 or msg[18] != 2 or (msg[16] << 8 | msg[17]) != len(msg):
        return None
    body = msg[19:]
    wl = body[0] << 8 | body[1]
    if 4 + wl > len(body):
        return None
    al = body[2 + wl] << 8 | body[3 + wl]
    if 4 + wl + al > len(body):
        return None
    raw = body[4 + wl : 4 + wl + al]
    attrs, off = [], 0
    while off < len(raw):
        if off + 3 > len(raw):
            return None
        flag, code = raw[off], raw[off + 1]
        if flag & 0x10:
            if off + 4 > len(raw):
                return None
            ln, hl = raw[off + 2] << 8 | raw[off + 3], 4
        else:
            ln, hl = raw[off + 2], 3
        val = raw[off + hl : off + hl + ln]
        if len(val) != ln:
            return None
        attrs.append((flag, code, val))
        off += hl + ln
    return {'attrs': attrs, 'nlri': body[4 + wl + al :], 'withdrawn': body[2 : 2 + wl]}


def attr(upd, code):
    vals = [v for f, c, v in upd['attrs'] if c == code]
    return vals[0] if len(vals) == 1 else None


def be_int(b):
    return int.from_bytes(b, 'big')


def as_segments(val, size):
    out, off = [], 0
    while off < len(val):
        if off + 2 > len(val):
            return None
        n = val[off + 1]
        seg = val[off + 2 : off + 2 + n * size]
        if len(seg) != n * size:
            return None
        out.append((val[off], [be_int(seg[i : i + size]) for i in range(0, len(seg), size)]))
        off += 2 + n * size
    return out


def effective_as_path(upd, sess):
    p = attr(upd, 2)
    if p is None:
        return None
    segs = as_segments(p, 4 if sess.asn4 else 2)
    if not sess.asn4 and attr(upd, 17) is not None:
        segs4 = as_segments(attr(upd, 17), 4)
        return segs4  # the harness writes whole paths: AS4_PATH carries the same number of ASNs
    return segs


def mp_reach(upd):
    v = attr(upd, 14)
    if v is None or len(v) < 5:
        return None
    afi, safi, nhl = v[0] << 8 | v[1], v[2], v[3]
    return afi, safi, v[4 : 4 + nhl], v[5 + nhl :]


def labelled_nlri(data, addpath, has_rd):
    """[path id] bits labels.. [rd] prefix -> dict"""
    off, out = 0, {}
    if addpath:
        out['pathid'] = be_int(data[:4])
        off = 4
    bits = data[off]
    off += 1
    labels = []
    while True:
        if off + 3 > len(data):
            return None
        raw = be_int(data[off : off + 3])
        off += 3
        bits -= 24
        labels.append(raw >> 4)
        if raw & 1:
            break
    out['labels'] = labels
    if has_rd:
        rd = data[off : off + 8]
        off += 8
        bits -= 64
        t = be_int(rd[:2])
        out['rd'] = (t, be_int(rd[2:4]), be_int(rd[4:8])) if t == 0 else (t, be_int(rd[2:6]), be_int(rd[6:8]))
    out['mask'] = bits
    out['rest'] = data[off:]
    return out


def flow_parse(data, v6):
    off = 0
    ln = data[0]
    off = 1
    if ln >= 0xF0:
        ln = (data[0] & 0x0F) << 8 | data[1]
        off = 2
    end = off + ln
    out = {}
    while off < end:
        t = data[off]
        off += 1
        if t in (1, 2):
            mask = data[off]
            if v6:
                o = data[off + 1]
                nbytes = (mask - o + 7) // 8 if mask >= o else 0
                out[('prefix', t)] = (mask, o)
                off += 2 + nbytes
            else:
                out[('prefix', t)] = (mask, 0)
                off += 1 + (mask + 7) // 8
            continue
        vals = []
        while True:
            op = data[off]
            n = 1 << ((op >> 4) & 3)
            vals.append(be_int(data[off + 1 : off + 1 + n]))
            off += 1 + n
            if op & 0x80:
                break
        out[t] = vals
    if off != end or end != len(data):
        out['framing'] = (off, end, len(data))
    return out


# ------------------------------------------------------------------------------- field catalogue

BASE4 = 'route 10.0.0.0/24 next-hop 1.2.3.4'
BASE6 = 'route 2001:db8::/32 next-hop 2001:db8::1'
U = lambda w: (0, (1 << w) - 1)  # noqa: E731

FLOW_T = {'destination-port': 5, 'source-port': 6, 'port': 4, 'protocol': 3, 'next-header': 3, 'icmp-type': 7, 'icmp-code': 8,
          'packet-length': 10, 'dscp': 11, 'traffic-class': 11, 'flow-label': 13, 'tcp-flags': 9, 'fragment': 12}


def ext_target(v_asn, v_nn):
    return f'extended-community [ target:{v_asn}:{v_nn} ]'


class Field:
    """name, kind (static|flow4|flow6|flowthen|vpls|attrs), the RFC range, text of the keyword part, extractor"""

    def __init__(self, name, kind, rng, text, extract=None, coq=None, base=None, note=''):
        self.name, self.kind, self.rng, self.text, self.extract, self.coq, self.base, self.note = name, kind, rng, text, extract, coq, base, note

    def valid(self, v):
        return self.rng[0] <= v <= self.rng[1] and v not in self.excluded

    excluded = ()


def x_attr_int(code, ibgp_only=False):
    def f(upd, sess, v):
        if ibgp_only and not sess.ibgp:
            return 'absent-by-design' if attr(upd, code) is None else ('present', be_int(attr(upd, code)))
        a = attr(upd, code)
        return None if a is None else be_int(a)

    return f


def x_aspath(upd, sess, v):
    segs = effective_as_path(upd, sess)
    if not segs:
        return None
    asns = [a for t, l in segs for a in l]  # (an as-path given in the text is sent as written, also on eBGP)
    return asns[0] if len(asns) == 1 else ('several', asns)


def x_aspath_dotted(hi):
    def f(upd, sess, v):
        got = x_aspath(upd, sess, v)
        return got if not isinstance(got, int) else (got - (hi << 16) if got >> 16 == hi else ('other', got))

    return f


def x_aspath_dotted_hi(upd, sess, v):
    got = x_aspath(upd, sess, v)
    return got if not isinstance(got, int) else (got >> 16 if got & 0xFFFF == 1 else ('other', got))


def x_aggregator(upd, sess, v):
    if sess.asn4:
        a = attr(upd, 7)
        return None if a is None or len(a) != 8 else be_int(a[:4])
    a4 = attr(upd, 18)
    if a4 is not None:
        return be_int(a4[:4])
    a = attr(upd, 7)
    return None if a is None or len(a) != 6 else be_int(a[:2])


def x_community(part):
    def f(upd, sess, v):
        a = attr(upd, 8)
        if a is None or len(a) != 4:
            return None if a is None else ('length', len(a))
        return be_int(a[:2]) if part == 0 else be_int(a[2:]) if part == 1 else be_int(a)

    return f


def x_large(part):
    def f(upd, sess, v):
        a = attr(upd, 32)
        if a is None or len(a) != 12:
            return None if a is None else ('length', len(a))
        return be_int(a[4 * part : 4 * part + 4])

    return f


def x_ext(lo, hi):
    def f(upd, sess, v):
        a = attr(upd, 16)
        if a is None or len(a) != 8:
            return None if a is None else ('length', len(a))
        return be_int(a[lo:hi])

    return f


def x_ext_target_asn(upd, sess, v):
    a = attr(upd, 16)
    if a is None or len(a) != 8:
        return None if a is None else ('length', len(a))
    # (a 4-octet AS route target is sent with type 0x01, the IPv4-address-specific layout, not 0x02: same octets)
    return be_int(a[2:4]) if a[0] == 0 else be_int(a[2:6]) if a[0] in (1, 2) else ('type', a[0])


def x_generic(which):
    def f(upd, sess, v):
        for fl, code, val in upd['attrs']:
            if which == 'code' and code == v & 0xFF and val == b'\x00' and code not in (1, 2, 3, 5, 14):
                return code if code == v else ('wrapped-to', code)
            if which == 'flag' and code == 0x99:
                return v if (fl & ~0x10) == (v & ~0x10) else fl  # the extended-length bit follows the length
        return None

    return f


def nlri_of(upd, sess, fam):
    """(addpath?, nlri bytes) of the single announced NLRI"""
    mp = mp_reach(upd)
    if mp is not None:
        return mp[3]
    return upd['nlri']


def x_mask(upd, sess, v):
    d = nlri_of(upd, sess, None)
    if not d:
        return None
    return d[4] if sess.addpath else d[0]


def x_pathid(upd, sess, v):
    if not sess.addpath:
        return 'absent-by-design'
    d = nlri_of(upd, sess, None)
    return be_int(d[:4]) if d and len(d) >= 4 else None


def x_label(idx=0, has_rd=False):
    def f(upd, sess, v):
        d = nlri_of(upd, sess, None)
        got = labelled_nlri(d, sess.addpath, has_rd) if d else None
        if got is None:
            return None
        return got['labels'][idx] if len(got['labels']) > idx else ('labels', got['labels'])

    return f


def x_labels_all(upd, sess, v):
    d = nlri_of(upd, sess, None)
    got = labelled_nlri(d, sess.addpath, False) if d else None
    return None if got is None else got['labels']


def x_rd(part):
    def f(upd, sess, v):
        d = nlri_of(upd, sess, None)
        got = labelled_nlri(d, sess.addpath, True) if d else None
        if got is None or 'rd' not in got:
            return None
        return got['rd'][part]

    return f


def x_flow(comp, v6=False):
    def f(upd, sess, v):
        mp = mp_reach(upd)
        if mp is None:
            return None
        got = flow_parse(mp[3], v6)
        if 'framing' in got:
            return ('framing', got['framing'])
        vals = got.get(FLOW_T[comp])
        return None if vals is None else (vals[0] if len(vals) == 1 else ('several', vals))

    return f


def x_flow_mask(which, v6):
    def f(upd, sess, v):
        mp = mp_reach(upd)
        if mp is None:
            return None
        got = flow_parse(mp[3], v6)
        if 'framing' in got:
            return ('framing', got['framing'])
        p = got.get(('prefix', which))
        return None if p is None else p[0]

    return f


def x_vpls(lo, hi, shift=0):
    def f(upd, sess, v):
        mp = mp_reach(upd)
        if mp is None or len(mp[3]) != 19:
            return None if mp is None else ('length', len(mp[3]))
        return be_int(mp[3][lo:hi]) >> shift

    return f


def x_vpls_rd(part):
    def f(upd, sess, v):
        mp = mp_reach(upd)
        if mp is None or len(mp[3]) != 19:
            return None
        rd = mp[3][2:10]
        t = be_int(rd[:2])
        return ((be_int(rd[2:4]), be_int(rd[4:8])) if t == 0 else (be_int(rd[2:6]), be_int(rd[6:8])))[part]

    return f


def x_mark(upd, sess, v):
    a = attr(upd, 16)
    if a is None:
        return None
    for i in range(0, len(a), 8):
        if a[i : i + 2] == b'\x80\x09':
            return a[i + 7]
    return None


def x_redirect(part):
    def f(upd, sess, v):
        a = attr(upd, 16)
        if a is None:
            return None
        for i in range(0, len(a), 8):
            c = a[i : i + 8]
            if c[:2] == b'\x80\x08':
                return be_int(c[2:4]) if part == 0 else be_int(c[4:8])
            if c[:2] == b'\x82\x08':
                return be_int(c[2:6]) if part == 0 else be_int(c[6:8])
        return None

    return f


def x_ipv4_last(code):
    def f(upd, sess, v):
        a = attr(upd, code)
        return None if a is None or len(a) < 4 else a[3]

    return f


def x_nexthop_last(upd, sess, v):
    a = attr(upd, 3)
    return None if a is None or len(a) != 4 else a[3]


def x_prefix_octet(upd, sess, v):
    d = nlri_of(upd, sess, None)
    if not d:
        return None
    d = d[4:] if sess.addpath else d
    return d[4] if len(d) >= 5 else None


def flow4(comp):
    return 'match { source 10.0.0.0/24; %s; } then { discard; }' % comp


def flow6(comp):
    return 'match { source 2001:db8::/32; %s; } then { discard; }' % comp


FIELDS = [
    Field('med', 'static', U(32), lambda v: f'med {v}', x_attr_int(4), 'med'),
    Field('local-preference', 'static', U(32), lambda v: f'local-preference {v}', x_attr_int(5, True), 'local_preference'),
    Field('aigp', 'static', U(64), lambda v: f'aigp {v}', None, 'aigp'),
    Field('as-path', 'static', U(32), lambda v: f'as-path [ {v} ]', x_aspath, 'asn'),
    Field('as-path-asdot-low', 'static', U(16), lambda v: f'as-path [ 1.{v} ]', x_aspath_dotted(1), 'asn_dotted_part'),
    Field('as-path-asdot-high', 'static', U(16), lambda v: f'as-path [ {v}.1 ]', x_aspath_dotted_hi, 'asn_dotted_part'),
    Field('aggregator-asn', 'static', U(32), lambda v: f'aggregator ( {v}:1.2.3.4 )', x_aggregator, 'asn'),
    Field('community-high', 'static', U(16), lambda v: f'community [ {v}:1 ]', x_community(0), 'community_high'),
    Field('community-low', 'static', U(16), lambda v: f'community [ 1:{v} ]', x_community(1), 'community_low'),
    Field('community-number', 'static', U(32), lambda v: f'community [ {v} ]', x_community(2), 'community_number'),
    Field('large-community-1', 'static', U(32), lambda v: f'large-community [ {v}:1:1 ]', x_large(0), 'large_community_part'),
    Field('large-community-2', 'static', U(32), lambda v: f'large-community [ 1:{v}:1 ]', x_large(1), 'large_community_part'),
    Field('large-community-3', 'static', U(32), lambda v: f'large-community [ 1:1:{v} ]', x_large(2), 'large_community_part'),
    Field('extended-community-target-asn', 'static', U(32), lambda v: ext_target(v, 1), x_ext_target_asn),
    Field('extended-community-target-number', 'static', U(32), lambda v: ext_target(1, v), x_ext(4, 8)),
    Field('extended-community-target4-number', 'static', U(16), lambda v: ext_target(70000, v), x_ext(6, 8)),
    Field('label', 'static', U(20), lambda v: f'label {v}', x_label(0), 'label'),
    Field('label-list', 'static', U(20), lambda v: f'label [ {v} ]', x_label(0), 'label'),
    Field('label-stack-first', 'static', U(20), lambda v: f'label [ {v} 100 ]', x_label(0), None,
          note='0x000000 / 0x800000 in a label field end the stack for RFC 8277 readers: 0 and 524288 are not valid before another label'),
    Field('label-stack-last', 'static', U(20), lambda v: f'label [ 100 {v} ]', x_label(1), None),
    Field('label-vpn', 'static', U(20), lambda v: f'rd 65000:1 label {v}', x_label(0, True), 'label'),
    Field('path-information', 'static', U(32), lambda v: f'path-information {v}', x_pathid, 'path_information'),
    Field('rd-asn2-admin', 'static', U(32), lambda v: f'rd {v}:1 label 100', x_rd(1), None, note='rd n:1, n up to 2^32-1 (type 2)'),
    Field('rd-asn2-number', 'static', U(32), lambda v: f'rd 1:{v} label 100', x_rd(2), None),
    Field('rd-asn4-number', 'static', U(16), lambda v: f'rd 70000:{v} label 100', x_rd(2), None),
    Field('rd-ip-number', 'static', U(16), lambda v: f'rd 1.2.3.4:{v} label 100', None, None),
    Field('attribute-code', 'static', (0, 255), lambda v: f'attribute [ 0x{v:x} 0xc0 0x00 ]' if v >= 0 else f'attribute [ 0x-{-v:x} 0xc0 0x00 ]', x_generic('code'), 'attribute_code'),
    Field('attribute-flag', 'static', (0, 255), lambda v: f'attribute [ 0x99 0x{v:x} 0x00 ]' if v >= 0 else f'attribute [ 0x99 0x-{-v:x} 0x00 ]', x_generic('flag'), 'attribute_flag'),
    Field('mask-ipv4', 'static', (0, 32), lambda v: '', x_mask, 'mask_ipv4', base=lambda v: f'route 0.0.0.0/{v} next-hop 1.2.3.4'),
    Field('mask-ipv6', 'static', (0, 128), lambda v: '', x_mask, 'mask_ipv6', base=lambda v: f'route ::/{v} next-hop 2001:db8::1'),
    Field('originator-id-octet', 'static', (0, 255), lambda v: f'originator-id 1.2.3.{v}', x_ipv4_last(9)),
    Field('cluster-list-octet', 'static', (0, 255), lambda v: f'cluster-list [ 1.2.3.{v} ]', x_ipv4_last(10)),
    Field('next-hop-octet', 'static', (0, 255), lambda v: '', x_nexthop_last, None, base=lambda v: f'route 10.0.0.0/24 next-hop 1.2.3.{v}'),
    Field('prefix-octet', 'static', (0, 255), lambda v: '', x_prefix_octet, None, base=lambda v: f'route 10.0.0.{v}/32 next-hop 1.2.3.4'),
    Field('aggregator-ip-octet', 'static', (0, 255), lambda v: f'aggregator ( 65000:1.2.3.{v} )', None),
    # flow
    Field('flow-destination-port', 'flow4', U(16), lambda v: flow4(f'destination-port ={v}'), x_flow('destination-port'), 'flow_port'),
    Field('flow-source-port', 'flow4', U(16), lambda v: flow4(f'source-port ={v}'), x_flow('source-port'), 'flow_port'),
    Field('flow-port', 'flow4', U(16), lambda v: flow4(f'port ={v}'), x_flow('port'), 'flow_port'),
    Field('flow-packet-length', 'flow4', U(16), lambda v: flow4(f'packet-length ={v}'), x_flow('packet-length'), 'flow_packet_length'),
    Field('flow-packet-length-bare', 'flow4', U(16), lambda v: flow4(f'packet-length {v}'), x_flow('packet-length'), 'flow_packet_length'),
    Field('flow-protocol', 'flow4', U(8), lambda v: flow4(f'protocol ={v}'), x_flow('protocol'), 'flow_protocol'),
    Field('flow-icmp-type', 'flow4', U(8), lambda v: flow4(f'icmp-type ={v}'), x_flow('icmp-type'), 'flow_icmp_type'),
    Field('flow-icmp-code', 'flow4', U(8), lambda v: flow4(f'icmp-code ={v}'), x_flow('icmp-code'), 'flow_icmp_code'),
    Field('flow-dscp', 'flow4', U(6), lambda v: flow4(f'dscp ={v}'), x_flow('dscp'), 'flow_dscp'),
    Field('flow-tcp-flags', 'flow4', U(16), lambda v: flow4(f'tcp-flags ={v}'), x_flow('tcp-flags'), None),
    Field('flow-fragment', 'flow4', U(8), lambda v: flow4(f'fragment ={v}'), x_flow('fragment'), None),
    Field('flow-next-header', 'flow6', U(8), lambda v: flow6(f'next-header ={v}'), x_flow('next-header', True), 'flow_next_header'),
    Field('flow-traffic-class', 'flow6', U(8), lambda v: flow6(f'traffic-class ={v}'), x_flow('traffic-class', True), 'flow_traffic_class'),
    Field('flow-flow-label', 'flow6', U(20), lambda v: flow6(f'flow-label ={v}'), x_flow('flow-label', True), 'flow_flow_label'),
    Field('flow-source-mask-ipv4', 'flow4', (0, 32), lambda v: 'match { source 0.0.0.0/%d; } then { discard; }' % v, x_flow_mask(2, False), 'flow_mask_ipv4'),
    Field('flow-destination-mask-ipv4', 'flow4', (0, 32), lambda v: 'match { destination 0.0.0.0/%d; } then { discard; }' % v, x_flow_mask(1, False), 'flow_mask_ipv4'),
    Field('flow-source-mask-ipv6', 'flow6', (0, 128), lambda v: 'match { source ::/%d; } then { discard; }' % v, x_flow_mask(2, True), 'flow_mask_ipv6'),
    Field('flow-destination-mask-ipv6', 'flow6', (0, 128), lambda v: 'match { destination ::/%d; } then { discard; }' % v, x_flow_mask(1, True), 'flow_mask_ipv6'),
    Field('flow-mark', 'flow4', U(6), lambda v: 'match { source 10.0.0.0/24; } then { mark %d; }' % v, x_mark, 'flow_mark'),
    Field('flow-redirect-asn', 'flow4', U(32), lambda v: 'match { source 10.0.0.0/24; } then { redirect %d:1; }' % v, x_redirect(0), None),
    Field('flow-redirect-number', 'flow4', U(32), lambda v: 'match { source 10.0.0.0/24; } then { redirect 1:%d; }' % v, x_redirect(1), None),
    Field('flow-redirect-asn4-number', 'flow4', U(16), lambda v: 'match { source 10.0.0.0/24; } then { redirect 70000:%d; }' % v, x_redirect(1), None),
    Field('flow-rate-limit', 'flow4', (0, 10 ** 12), lambda v: 'match { source 10.0.0.0/24; } then { rate-limit %d; }' % v, None, None),
    # vpls
    Field('vpls-endpoint', 'vpls', U(16), lambda v: dict(endpoint=v), x_vpls(10, 12), 'vpls_endpoint'),
    Field('vpls-offset', 'vpls', U(16), lambda v: dict(offset=v), x_vpls(12, 14), 'vpls_offset'),
    Field('vpls-size', 'vpls', U(16), lambda v: dict(size=v), x_vpls(14, 16), 'vpls_size'),
    Field('vpls-base', 'vpls', (0, 0xFFFFF - 8), lambda v: dict(base=v), x_vpls(16, 19, 4), 'vpls_base',
          note='the block base .. base+size-1 (size 8 in the text) must fit the 20-bit label space'),
    Field('vpls-rd-admin', 'vpls', U(32), lambda v: dict(rd=f'{v}:1'), x_vpls_rd(0), None),
    Field('vpls-rd-number', 'vpls', U(32), lambda v: dict(rd=f'1:{v}'), x_vpls_rd(1), None),
    # announce attributes ... nlri ...
    Field('attributes-med', 'attrs', U(32), lambda v: f'med {v}', x_attr_int(4), 'med'),
    Field('attributes-nlri-mask', 'attrs', (0, 32), lambda v: ('', f'0.0.0.0/{v}'), x_mask, 'mask_ipv4'),
]


# ---- alternative spellings: every other way the parsers accept to write the same value (read from the parser
# functions: bare vs bracketed lists, ( ) sets, asdot, hex where int(x, 16) is used, keyword aliases, the dotted
# path-information, aggregator with and without parentheses, the nested `route P { ...; }` form, the API
# `announce ipv4 unicast ...` form, flow operands without `=`, in hex, in a one-element list).  Each is swept at the
# boundary values of its range like the main spelling, with the same oracles.


def x_aspath_at(idx):
    def f(upd, sess, v):
        segs = effective_as_path(upd, sess)
        if not segs:
            return None
        asns = [a for t, l in segs for a in l]
        return asns[idx] if len(asns) > idx else ('asns', asns)

    return f


def x_aigp(upd, sess, v):
    a = attr(upd, 26)
    if a is None:
        return 'absent-by-design' if not sess.ibgp else None
    return be_int(a[3:11]) if len(a) == 11 and a[0] == 1 else ('tlv', a.hex())


def x_large_whole(upd, sess, v):
    a = attr(upd, 32)
    return None if a is None else (be_int(a) if len(a) == 12 else ('length', len(a)))


def x_pathid_low(upd, sess, v):
    got = x_pathid(upd, sess, v)
    return got if not isinstance(got, int) else (got & 0xFF if got >> 8 == 0x010203 else ('other', got))


def nested(kw):
    return lambda v: ('NESTED', kw(v))


def apifam(kw):
    return lambda v: ('APIFAM', kw(v))


ALT_FIELDS = [
    Field('as-path-bare', 'static', U(32), lambda v: f'as-path {v}', x_aspath, 'asn'),
    Field('as-path-set', 'static', U(32), lambda v: f'as-path ( {v} )', x_aspath, 'asn'),
    Field('as-path-comma-list', 'static', U(32), lambda v: f'as-path [ {v} , 100 ]', x_aspath_at(0), 'asn'),
    Field('as-path-second-segment', 'static', U(32), lambda v: f'as-path [ 100 ] [ {v} ]', x_aspath_at(1), 'asn'),
    Field('as-path-bare-asdot-low', 'static', U(16), lambda v: f'as-path 1.{v}', x_aspath_dotted(1), 'asn_dotted_part'),
    Field('as-path-nested-bare', 'static', U(32), nested(lambda v: f'as-path {v}'), x_aspath, 'asn'),
    Field('as-path-api-family-form-bare', 'static', U(32), apifam(lambda v: f'as-path {v}'), x_aspath, 'asn'),
    Field('aggregator-asn-no-parentheses', 'static', U(32), lambda v: f'aggregator {v}:1.2.3.4', x_aggregator, 'asn'),
    Field('aggregator-asn-tight-parentheses', 'static', U(32), lambda v: f'aggregator ({v}:1.2.3.4)', x_aggregator, 'asn'),
    Field('aggregator-asn-asdot', 'static', U(16), lambda v: f'aggregator ( 1.{v}:1.2.3.4 )',
          lambda upd, sess, v: (lambda g: g if not isinstance(g, int) else (g - 65536 if g >> 16 == 1 else ('other', g)))(x_aggregator(upd, sess, v)), 'asn_dotted_part'),
    Field('community-bare-high', 'static', U(16), lambda v: f'community {v}:1', x_community(0), 'community_high'),
    Field('community-bare-low', 'static', U(16), lambda v: f'community 1:{v}', x_community(1), 'community_low'),
    Field('community-bare-number', 'static', U(32), lambda v: f'community {v}', x_community(2), 'community_number'),
    Field('community-hex-number', 'static', U(32), lambda v: f'community [ 0x{v:x} ]' if v >= 0 else f'community [ 0x-{-v:x} ]', x_community(2)),
    Field('community-nested-high', 'static', U(16), nested(lambda v: f'community [ {v}:1 ]'), x_community(0), 'community_high'),
    Field('large-community-bare-1', 'static', U(32), lambda v: f'large-community {v}:1:1', x_large(0), 'large_community_part'),
    Field('large-community-bare-3', 'static', U(32), lambda v: f'large-community 1:1:{v}', x_large(2), 'large_community_part'),
    Field('large-community-decimal-number', 'static', U(96), lambda v: f'large-community [ {v} ]', x_large_whole),
    Field('large-community-hex-number', 'static', U(96), lambda v: f'large-community [ 0x{v:x} ]' if v >= 0 else f'large-community [ 0x-{-v:x} ]', x_large_whole),
    Field('extended-community-bare-target-asn', 'static', U(32), lambda v: f'extended-community target:{v}:1', x_ext_target_asn),
    Field('extended-community-origin-number', 'static', U(32), lambda v: f'extended-community [ origin:1:{v} ]', x_ext(4, 8)),
    Field('extended-community-target-asn-L-suffix', 'static', U(32), lambda v: f'extended-community [ target:{v}L:1 ]', x_ext(2, 6)),
    Field('cluster-list-bare-octet', 'static', (0, 255), lambda v: f'cluster-list 1.2.3.{v}', x_ipv4_last(10)),
    Field('aigp-hex', 'static', U(64), lambda v: f'aigp 0x{v:x}' if v >= 0 else f'aigp 0x-{-v:x}', x_aigp, None),
    Field('med-nested', 'static', U(32), nested(lambda v: f'med {v}'), x_attr_int(4), 'med'),
    Field('med-api-family-form', 'static', U(32), apifam(lambda v: f'med {v}'), x_attr_int(4), 'med'),
    Field('label-nested', 'static', U(20), nested(lambda v: f'label {v}'), x_label(0), 'label'),
    Field('path-information-dotted-octet', 'static', (0, 255), lambda v: f'path-information 1.2.3.{v}', x_pathid_low),
    Field('path-information-nested', 'static', U(32), nested(lambda v: f'path-information {v}'), x_pathid, 'path_information'),
    Field('route-distinguisher-asn2-number', 'static', U(32), lambda v: f'route-distinguisher 1:{v} label 100', x_rd(2)),
    Field('route-distinguisher-asn4-number', 'static', U(16), lambda v: f'route-distinguisher 70000:{v} label 100', x_rd(2)),
    Field('rd-nested-asn2-admin', 'static', U(32), nested(lambda v: f'rd {v}:1; label 100'), x_rd(1)),
    Field('attribute-code-uppercase-hex', 'static', (0, 255), lambda v: f'attribute [ 0X{v:X} 0XC0 0X00 ]' if v >= 0 else f'attribute [ 0X-{-v:X} 0XC0 0X00 ]',
          x_generic('code'), 'attribute_code'),
    Field('flow-port-bare', 'flow4', U(16), lambda v: flow4(f'port {v}'), x_flow('port'), 'flow_port'),
    Field('flow-port-hex', 'flow4', U(16), lambda v: flow4(f'port =0x{v:x}' if v >= 0 else f'port =0x-{-v:x}'), x_flow('port')),
    Field('flow-port-greater-than', 'flow4', U(16), lambda v: flow4(f'port >{v}'), x_flow('port'), 'flow_port'),
    Field('flow-destination-port-one-element-list', 'flow4', U(16), lambda v: flow4(f'destination-port [ ={v} ]'), x_flow('destination-port'), 'flow_port'),
    Field('flow-source-port-bare-list', 'flow4', U(16), lambda v: flow4(f'source-port [ {v} ]'), x_flow('source-port'), 'flow_port'),
    Field('flow-protocol-bare', 'flow4', U(8), lambda v: flow4(f'protocol {v}'), x_flow('protocol'), 'flow_protocol'),
    Field('flow-protocol-hex', 'flow4', U(8), lambda v: flow4(f'protocol =0x{v:x}' if v >= 0 else f'protocol =0x-{-v:x}'), x_flow('protocol')),
    Field('flow-icmp-type-bare', 'flow4', U(8), lambda v: flow4(f'icmp-type {v}'), x_flow('icmp-type'), 'flow_icmp_type'),
    Field('flow-dscp-bare', 'flow4', U(6), lambda v: flow4(f'dscp {v}'), x_flow('dscp'), 'flow_dscp'),
    Field('flow-packet-length-list', 'flow4', U(16), lambda v: flow4(f'packet-length [ >={v} ]'), x_flow('packet-length'), 'flow_packet_length'),
    Field('flow-flow-label-bare', 'flow6', U(20), lambda v: flow6(f'flow-label {v}'), x_flow('flow-label', True), 'flow_flow_label'),
    Field('flow-next-header-bare', 'flow6', U(8), lambda v: flow6(f'next-header {v}'), x_flow('next-header', True), 'flow_next_header'),
]
FIELDS += ALT_FIELDS
ALT_NAMES = {f.name for f in ALT_FIELDS}
FIELD = {f.name: f for f in FIELDS}
FIELD['aigp'].extract = x_aigp
FIELD['label-stack-first'].excluded = (0, 524288)


def texts_of(field, v):
    """-> {'conf': section text, 'prt': text | None, 'api': command}"""
    kw = field.text(v)
    if isinstance(kw, tuple) and kw[0] == 'NESTED':
        body = 'route 10.0.0.0/24 { next-hop 1.2.3.4; %s; }' % kw[1]
        return {'conf': 'static { %s }' % body, 'prt': body, 'api': 'peer * announce ' + body}
    if isinstance(kw, tuple) and kw[0] == 'APIFAM':
        return {'conf': None, 'prt': None, 'api': 'peer * announce ipv4 unicast 10.0.0.0/24 next-hop 1.2.3.4 ' + kw[1]}
    if field.kind == 'static':
        base = field.base(v) if field.base else (BASE4)
        route = (base + ' ' + kw).strip()
        return {'conf': 'static { %s; }' % route, 'prt': route, 'api': 'peer * announce ' + route}
    if field.kind in ('flow4', 'flow6', 'flowthen'):
        body = kw.replace('match {', 'match {').strip()
        return {'conf': 'flow { route f { %s } }' % body, 'prt': None, 'api': 'peer * announce flow route { %s }' % body}
    if field.kind == 'vpls':
        p = dict(endpoint=5, base=10, offset=1, size=8, rd='65000:1')
        p.update(kw)
        conf = 'l2vpn { vpls v { endpoint %s; base %s; offset %s; size %s; rd %s; next-hop 1.2.3.4; } }' % (
            p['endpoint'], p['base'], p['offset'], p['size'], p['rd'])
        api = 'peer * announce vpls rd %s endpoint %s base %s offset %s size %s next-hop 1.2.3.4' % (
            p['rd'], p['endpoint'], p['base'], p['offset'], p['size'])
        return {'conf': conf, 'prt': None, 'api': api}
    if field.kind == 'attrs':
        if isinstance(kw, tuple):
            attrs, nl = kw
        else:
            attrs, nl = kw, '10.0.0.0/24'
        line = f'attributes next-hop 1.2.3.4 {attrs} nlri {nl}'.replace('  ', ' ')
        return {'conf': None, 'prt': line, 'api': 'peer * announce ' + line}
    raise ValueError(field.kind)


def boundary_values(field, rng, n_random):
    lo, hi = field.rng
    vals = [lo - 1, lo, hi, hi + 1, lo + 1, hi - 1]
    for k in (8, 16, 20, 24, 32, 64):
        vals += [(1 << k) - 1, 1 << k, (1 << k) + 1]
    vals += [-1, -(1 << 16), 1 << 96, (1 << 31), 524288]
    for _ in range(n_random):
        c = rng.random()
        if c < 0.5:
            vals.append(rng.randint(lo, hi))
        elif c < 0.8:
            vals.append(hi + rng.randint(1, max(2, hi)))
        else:
            vals.append(rng.choice([-1, 1]) * rng.getrandbits(rng.choice([9, 17, 33, 65, 80])))
    out = []
    for v in vals:
        if v not in out:
            out.append(v)
    return out


# ------------------------------------------------------------------------------- judging one text

KNOWN_CODES = set(range(1, 41)) | {128, 255}


GROUPS = [
    (r'community-(high|low)$', 'community-half'), (r'large-community-\d$', 'large-community'),
    (r'(vpls-)?rd-', 'rd'), (r'flow-(source|destination)-mask-', 'flow-prefix-length'),
    (r'flow-(protocol|icmp-type|icmp-code|next-header|traffic-class)$', 'flow-one-octet-component'),
    (r'flow-packet-length', 'flow-packet-length'), (r'flow-redirect-', 'flow-redirect'), (r'.*-octet$', 'ipv4-address-text'),
    (r'label(-list|-vpn|-nested)?$', 'label'), (r'route-distinguisher-', 'rd'), (r'aggregator-asn', 'aggregator-asn'), (r'community-(bare|nested)-(high|low)$', 'community-half'),
    (r'large-community-bare-\d$', 'large-community'), (r'cluster-list-bare-octet', 'ipv4-address-text'), (r'as-path', 'as-path'), (r'extended-community-', 'extended-community'),
    (r'flow-(destination-port|source-port|port)$', 'flow-port'), (r'attributes-', 'attributes'),
]


def group_of(field):
    """failing-case signatures name the root cause (one per parser), not every keyword variant"""
    if field is None:
        return 'stream'
    if field.name in ALT_NAMES:
        return field.name  # an alternative spelling is its own root cause (its own branch of the parser)
    for pat, g in GROUPS:
        if re.match(pat, field.name):
            return g
    return field.name


def located(error, section):
    """Does a configuration refusal name the offending statement?  (`line N: <statement>` of Configuration._reload)"""
    return bool(re.search(r'\nline \d+: \S', error))


def raw_generic_known(route):
    """Does the route carry a raw `attribute [ ... ]` whose code the real decoder has a class for?"""
    from exabgp.bgp.message.update.attribute import Attribute, GenericAttribute

    known = {code for (code, _flag) in Attribute.registered_attributes}
    try:
        return any(isinstance(a, GenericAttribute) and int(a.ID) in known for a in route.attributes.values())
    except Exception:
        return False


def judge_routes(field, v, routes, entry, problems, stats, compare=True):
    """Encode every accepted route under every session kind, read the bytes back, compare the field."""
    fname = group_of(field)
    if not routes:
        problems.append((f'accepted-without-route:{fname}', f'{entry}: accepted but no route was produced'))
        return
    big = {}
    for sess in sorted(sessions(), key=lambda x: -x.msg_size):
        for ri, route in enumerate(routes[:4]):
            # a route whose single UPDATE is larger than 4096 octets can only be sent on an extended-message session:
            # not being sent (or RuntimeError) on a 4096 session is the session's limit, not the parser's
            try:
                msgs = encode_decode(route, sess)
                if sess.msg_size == 65535 and msgs:
                    big[ri] = max(big.get(ri, 0), max(len(m) for m in msgs))
                if sess.msg_size == 4096 and not msgs and big.get(ri, 0) > 4096:
                    stats['too_large_for_4096'] += 1
                    continue
            except Exception as e:
                info = exc_info(e)
                if sess.msg_size == 4096 and big.get(ri, 0) > 4096:
                    stats['too_large_for_4096'] += 1
                    continue
                if info['cls'] == 'TypeError' and 'next-hop self' in info['msg']:
                    stats['nexthop_self_other_family'] += 1  # `next-hop self` of another family than the session: refused by design
                    break
                sig = f'accepted-but-cannot-encode:{fname}'
                if 'requires nexthop' in info['msg'] or 'requires labels' in info['msg'] or 'unexpected nlri definition' in info['msg']:
                    sig = 'accepted-but-cannot-encode:incomplete-route'
                elif info['cls'] == 'error' and info['where'].startswith('bgp/message/update/attribute/attribute.py'):
                    sig = 'accepted-but-cannot-encode:attribute-over-65535-octets'
                elif info['cls'] == 'RuntimeError' or 'too large' in info['msg'].lower():
                    sig = f'accepted-but-cannot-encode:{fname}:message-size'
                problems.append((sig, f'{entry}: accepted, then {info["cls"]} "{info["msg"]}" at {info["where"]} while encoding for {sess.key}'))
                stats['encode_exceptions'] += 1
                return
            stats['encodes'] += 1
            if not msgs:
                problems.append((f'accepted-but-not-sent:{fname}', f'{entry}: accepted but messages() yields nothing for {sess.key}'))
                return
            upd = read_update(msgs[0])
            if upd is None:
                problems.append((f'accepted-but-malformed-message:{fname}', f'{entry}: the UPDATE for {sess.key} is not well framed: {msgs[0].hex()[:120]}'))
                return
            if len(msgs[0]) > sess.msg_size:
                stats['oversize'] += 1
            # the real decoder
            d4 = (not sess.asn4) and attr(upd, 17) is not None
            try:
                dec = decode(msgs[0], sess)
                real_nlri = [str(r.nlri) for r in dec.announces]
            except Exception as e:
                info = exc_info(e)
                if d4:
                    stats['decoder_d4'] += 1
                    real_nlri = None
                elif raw_generic_known(route):
                    real_nlri = None
                else:
                    problems.append((f'accepted-but-undecodable:{fname}', f'{entry}: the bytes sent for {sess.key} make the real decoder raise {info["cls"]} "{info["msg"]}" at {info["where"]}'))
                    return
            # `attribute [ code flags value ]` under a code the real decoder interprets: the octets written are the
            # operator's business (ORIGIN with odd flags, a 2-octet attribute 25, ... are treat-as-withdraw for a reader);
            # the property asks that they are carried as written - the own reader judges that, not ExaBGP's decoder
            raw_known = raw_generic_known(route)
            if raw_known:
                stats['raw_generic_under_known_code'] += 1
            if real_nlri is not None and compare and not raw_known:
                try:
                    want = str(sess.neighbor.resolve_self(route).nlri)
                except Exception as e:
                    info = exc_info(e)
                    problems.append((f'accepted-but-undecodable:{fname}', f'{entry}: the accepted route cannot even be printed: {info["cls"]} "{info["msg"]}" at {info["where"]}'))
                    return
                want = re.sub(r' path-information \S+', '', want)
                if want == 'empty':
                    continue  # `attributes ... nlri` with no prefix: an UPDATE without NLRI, nothing to carry
                got = re.sub(r' path-information \S+', '', real_nlri[0]) if len(real_nlri) == 1 else repr(real_nlri)
                if got != want:
                    problems.append((f'accepted-but-reads-back-differently:{fname}', f'{entry}: sent "{want}", the decoder reads "{got}" ({sess.key})'))
                    return
            if field is None or field.extract is None or not compare or len(routes) != 1:
                continue
            if field.name.startswith('attribute-code') and v in KNOWN_CODES:
                continue
            try:
                got = field.extract(upd, sess, v)
            except Exception as e:
                got = ('reader-failed', type(e).__name__)
            stats['compares'] += 1
            if got == 'absent-by-design':
                continue
            if got != v:
                what = 'missing from the message' if got is None else f'carried as {got}'
                problems.append((f'accepted-but-wrapped:{fname}', f'{entry}: value {v} accepted, {what} for {sess.key}: {msgs[0][19:].hex()[:140]}'))
                return


class Hang(BaseException):
    pass


def with_watchdog(fn, arg, limit=20):
    """Run one entry point; a text that keeps it busy for more than `limit` seconds is reported as a hang."""
    import signal

    def onalarm(signum, frame):
        where = ''
        fr = frame
        while fr is not None:
            if '/exabgp/' in fr.f_code.co_filename:
                where = f'{fr.f_code.co_filename.split("/exabgp/", 1)[1]}:{fr.f_lineno}'
                break
            fr = fr.f_back
        raise Hang(where)

    old = signal.signal(signal.SIGALRM, onalarm)
    signal.alarm(limit)
    try:
        return fn(arg)
    except Hang as h:
        global _PRT, _RIG
        _PRT = None
        _RIG = None
        return 'X', {'cls': 'hang', 'msg': f'no answer after {limit}s', 'where': str(h)}
    finally:
        signal.alarm(0)
        signal.signal(signal.SIGALRM, old)


def judge_text(field, v, texts, stats, compare=True):
    """-> (outcomes per entry point, problems)"""
    problems, outcomes = [], {}
    fname = group_of(field)
    valid = field.valid(v) if field else None
    for entry in ('conf', 'prt', 'api'):
        text = texts.get(entry)
        if text is None:
            continue
        kind, val = with_watchdog({'conf': run_conf, 'prt': run_prt, 'api': run_api}[entry], text)
        outcomes[entry] = kind if kind != 'X' else 'X:' + val['cls']
        stats['texts'] += 1
        stats['outcome_' + kind] += 1
        if kind == 'X':
            if val['cls'] == 'AttributeError' and "'Empty' object" in val.get('msg', ''):
                fname = 'split-without-nlri'
            problems.append((f'exception:{val["cls"]}:{fname}', f'{entry}: {val["cls"]} "{val.get("msg", "")}" at {val.get("where", "")} '
                             f'{"(" + val["phase"] + ")" if val.get("phase") else ""}'))
        elif kind == 'N':
            problems.append((f'no-reply:{fname}', f'{entry}: {val}'))
        elif kind == 'R':
            if entry == 'conf' and not located(val, text):
                problems.append((f'config-refusal-not-located:{fname}', f'conf: refused without naming the statement: {val.strip()[:160]!r}'))
            if valid:
                problems.append((f'refused-but-valid:{fname}', f'{entry}: value {v} is allowed by the RFC range {field.rng} but refused: {val.strip()[-120:]!r}'))
        else:
            judge_routes(field, v, val, entry, problems, stats, compare)
    return outcomes, problems


# ------------------------------------------------------------------------------- unit-level value parsers (correspondence)


def tok(words):
    from exabgp.configuration.core.parser import Tokeniser

    return Tokeniser().replenish(list(words))


def unit_drivers():
    from exabgp.bgp.message.open.asn import ASN
    from exabgp.bgp.message.update.nlri import flow as F
    from exabgp.configuration.flow import parser as FP
    from exabgp.configuration.l2vpn import parser as L2
    from exabgp.configuration.static import mpls as M
    from exabgp.configuration.static import parser as P
    from exabgp.protocol.family import AFI
    from exabgp.protocol.ip.netmask import NetMask

    def hexs(v):
        return f'0x{v:x}' if v >= 0 else f'0x-{-v:x}'

    def flowv(klass):
        if hasattr(FP, '_flow_value'):
            return lambda v: FP._flow_value(klass, str(v))
        return lambda v: klass.converter(str(v))

    return {
        'med': lambda v: P.med(tok([str(v)])),
        'local_preference': lambda v: P.local_preference(tok([str(v)])),
        'aigp': lambda v: P.aigp(tok([str(v)])),
        'asn': lambda v: ASN.from_string(str(v)),
        'asn_dotted_part': lambda v: ASN.from_string(f'1.{v}'),
        'community_high': lambda v: P._community(f'{v}:1'),
        'community_low': lambda v: P._community(f'1:{v}'),
        'community_number': lambda v: P._community(str(v)),
        'large_community_part': lambda v: P._large_community(f'1:{v}:1'),
        'label': lambda v: M.label(tok([str(v)])),
        'path_information': lambda v: P.path_information(tok([str(v)])),
        'attribute_code': lambda v: P.attribute(tok(['[', hexs(v), '0xc0', '0x00', ']'])),
        'attribute_flag': lambda v: P.attribute(tok(['[', '0x99', hexs(v), '0x00', ']'])),
        'vpls_endpoint': lambda v: L2.vpls_endpoint(tok([str(v)])),
        'vpls_size': lambda v: L2.vpls_size(tok([str(v)])),
        'vpls_offset': lambda v: L2.vpls_offset(tok([str(v)])),
        'vpls_base': lambda v: L2.vpls_base(tok([str(v)])),
        'flow_packet_length': flowv(F.FlowPacketLength),
        'flow_dscp': flowv(F.FlowDSCP),
        'flow_traffic_class': flowv(F.FlowTrafficClass),
        'flow_flow_label': flowv(F.FlowFlowLabel),
        'flow_mark': lambda v: FP.mark(tok([str(v)])),
        'mask_ipv4': lambda v: NetMask.make_netmask(v, AFI.ipv4),
        'mask_ipv6': lambda v: NetMask.make_netmask(v, AFI.ipv6),
        'flow_mask_ipv4': lambda v: F.Flow4Source.make_prefix4(bytes(4), v),
        'flow_mask_ipv6': lambda v: F.Flow6Source.make_prefix6(bytes(16), v, 0),
        'flow_port': flowv(F.FlowAnyPort),
        'flow_protocol': flowv(F.FlowIPProtocol),
        'flow_next_header': flowv(F.FlowNextHeader),
        'flow_icmp_type': flowv(F.FlowICMPType),
        'flow_icmp_code': flowv(F.FlowICMPCode),
        'rd': lambda n, s: M.route_distinguisher(tok([f'{n}:{s}'])),
    }


def unit_accept(fn, *args):
    """True unless a range guard refuses (ValueError, or the plain Exception the mvpn/mup parsers raise)."""
    try:
        fn(*args)
        return True, None
    except ValueError:
        return False, None
    except Exception as e:
        if type(e) is Exception:
            return False, None
        return True, type(e).__name__  # not a refusal: the parser crashed after its guards let the value through


REPR = {
    'med': U(32), 'local_preference': U(32), 'aigp': U(64), 'asn': U(32), 'asn_dotted_part': U(16), 'community_high': U(16),
    'community_low': U(16), 'community_number': U(32), 'large_community_part': U(32), 'label': U(20), 'path_information': U(32),
    'attribute_code': U(8), 'attribute_flag': U(8), 'vpls_endpoint': U(16), 'vpls_size': U(16), 'vpls_offset': U(16), 'vpls_base': U(20),
    'flow_packet_length': U(16), 'flow_dscp': U(6), 'flow_traffic_class': U(8), 'flow_flow_label': U(20), 'flow_mark': U(6),
    'mask_ipv4': (0, 32), 'mask_ipv6': (0, 128), 'flow_mask_ipv4': (0, 32), 'flow_mask_ipv6': (0, 128), 'flow_port': U(16),
    'flow_protocol': U(8), 'flow_next_header': U(8), 'flow_icmp_type': U(8), 'flow_icmp_code': U(8),
}
COQ_FIELDS = list(REPR)

COQ_HEADER = """From Coq Require Import ZArith Bool List.
From ExaV Require Import gen.Gen_TextDomains model.Model_Text.
Import ListNotations. Open Scope Z_scope.
Definition acc (id : nat) (v : Z) : bool := match id with
%s
  | _ => false end.
Definition rep (id : nat) (v : Z) : bool := match id with
%s
  | _ => false end.
(* case: field id, value, what the real value parser did, what the harness' own RFC table says *)
Fixpoint bad (l : list (nat * Z * bool * bool)) (i : nat) : list nat * list nat :=
  match l with [] => ([], []) | (id, v, a, r) :: l' =>
    let '(x, y) := bad l' (S i) in
    ((if Bool.eqb (acc id v) a then x else i :: x), (if Bool.eqb (rep id v) r then y else i :: y)) end.
Fixpoint badrd (l : list (Z * Z * bool * bool)) (i : nat) : list nat * list nat :=
  match l with [] => ([], []) | (n, s, a, r) :: l' =>
    let '(x, y) := badrd l' (S i) in
    ((if Bool.eqb (accept_rd n s) a then x else i :: x), (if Bool.eqb (repr_rd n s) r then y else i :: y)) end.
(* the encoders against struct.pack: case = field id, value, expected octets *)
Definition encf (id : nat) (v : Z) : list Z := match id with
  | 0%%nat => enc_med v | 1%%nat => enc_label v | 2%%nat => enc_aigp v | 3%%nat => enc_community_high v
  | 4%%nat => enc_flow_port v | 5%%nat => enc_flow_flow_label v | 6%%nat => enc_attribute_code v | _ => [] end.
Fixpoint leqb (a b : list Z) : bool := match a, b with [], [] => true | x :: a', y :: b' => (x =? y) && leqb a' b' | _, _ => false end.
Fixpoint badenc (l : list (nat * Z * list Z)) (i : nat) : list nat :=
  match l with [] => [] | (id, v, e) :: l' => if leqb (encf id v) e && (dec_u (encf id v) =? (if Nat.eqb id 1 then v * 16 + 1 else v)) then badenc l' (S i) else i :: badenc l' (S i) end.
"""


def coq_header():
    a = '\n'.join(f'  | {i}%nat => accept_{f} v' for i, f in enumerate(COQ_FIELDS))
    r = '\n'.join(f'  | {i}%nat => repr_{f} v' for i, f in enumerate(COQ_FIELDS))
    return COQ_HEADER % (a, r)


def cb(x):
    return 'true' if x else 'false'


def cz(v):
    return f'({v})' if v < 0 else str(v)


# ------------------------------------------------------------------------------- random token stream


def stream_value(rng, kind):
    """a value token for a numeric position: mostly valid, otherwise boundary / negative / non numeric / missing"""
    c = rng.random()
    lim = {'u32': 1 << 32, 'u16': 1 << 16, 'u20': 1 << 20, 'u8': 256, 'u64': 1 << 64}[kind]
    if c < 0.6:
        return str(rng.randrange(lim))
    if c < 0.7:
        return str(rng.choice([lim - 1, lim, lim + 1, 0]))
    if c < 0.78:
        return str(-rng.randrange(1, 70000))
    if c < 0.86:
        return rng.choice(['x', 'abc', '1e3', '0x10', '1.5', '١٢', '²', '1_0', '+5', '', '[', ']', '(', ';', '{'])
    if c < 0.93:
        return str(rng.getrandbits(rng.choice([40, 70, 130])))
    return None  # missing


def stream_item(rng):
    def num(kw, kind):
        v = stream_value(rng, kind)
        return [kw] if v is None else [kw, v]

    def lst(kw, gen, lo=0, hi=4, open_='[', close=']'):
        n = rng.choice([lo, 1, 1, 2, hi])
        body = [gen() for _ in range(n)]
        body = [b for b in body if b is not None]
        r = rng.random()
        if r < 0.06:
            return [kw, open_] + body  # unbalanced
        if r < 0.1:
            return [kw] + body + [close]
        if r < 0.14 and body:
            return [kw, body[0]]
        return [kw, open_] + body + [close]

    def pair(a, b, sep=':'):
        x, y = stream_value(rng, a), stream_value(rng, b)
        return sep.join(s for s in (x, y) if s is not None)

    def triple():
        return ':'.join(s for s in (stream_value(rng, 'u32'), stream_value(rng, 'u32'), stream_value(rng, 'u32')) if s is not None)

    choice = rng.randrange(22)
    if choice == 0:
        return num('med', 'u32')
    if choice == 1:
        return num('local-preference', 'u32')
    if choice == 2:
        return ['origin', rng.choice(['igp', 'egp', 'incomplete', 'IGP', 'x', '3'])]
    if choice == 3:
        return lst('as-path', lambda: stream_value(rng, 'u32'), 0, 6)
    if choice == 4:
        return lst('community', lambda: rng.choice([pair('u16', 'u16'), 'no-export', stream_value(rng, 'u32') or 'blackhole']), 0, 5)
    if choice == 5:
        return lst('large-community', triple, 0, 3)
    if choice == 6:
        return lst('extended-community', lambda: rng.choice(['target:', 'origin:', 'target4:', 'l2info:', 'x:', '']) + pair('u16', 'u32'), 1, 3)
    if choice == 7:
        return num('label', 'u20')
    if choice == 8:
        return lst('label', lambda: stream_value(rng, 'u20'), 0, 3)
    if choice == 9:
        return ['rd', pair('u16', 'u32')]
    if choice == 10:
        return ['rd', '1.2.3.' + (stream_value(rng, 'u8') or '') + ':' + (stream_value(rng, 'u16') or '')]
    if choice == 11:
        return num('path-information', 'u32')
    if choice == 12:
        return num('aigp', 'u64')
    if choice == 13:
        return ['aggregator', '(', pair('u32', 'u8').replace(':', ':1.2.3.', 1), ')'][: rng.choice([4, 4, 4, 3, 2])]
    if choice == 14:
        return ['atomic-aggregate']
    if choice == 15:
        return ['originator-id', '1.2.3.' + (stream_value(rng, 'u8') or '')]
    if choice == 16:
        return lst('cluster-list', lambda: '1.2.3.' + (stream_value(rng, 'u8') or ''), 0, 3)
    if choice == 17:
        code, flag = stream_value(rng, 'u8'), stream_value(rng, 'u8')
        hx = lambda s: ('0x%x' % int(s)) if s and s.isascii() and s.isdigit() else (s or '')  # noqa: E731
        return ['attribute', '[', hx(code), hx(flag), rng.choice(['0x00', '0x0102', '0x1', '0xzz', ''])] + ([']'] if rng.random() < 0.9 else [])
    if choice == 18:
        return ['split', 'SPLIT']  # filled in by stream_case: the expansion is 2^(split - mask) routes, kept small
    if choice == 19:
        return [rng.choice(['bogus', 'metric', 'next-hop', 'route', 'nlri', 'name', 'watchdog'])] + ([rng.choice(['x', '5', 'self'])] if rng.random() < 0.7 else [])
    if choice == 20:
        # (Communities.add is quadratic in the pinned tree: 4000 elements take 7 s to parse, so lists stay below that)
        kind = rng.choice(['community', 'large-community', 'as-path'])
        if kind == 'community':
            n = rng.choice([300, 1100, 1800])
            return ['community', '['] + [f'{i % 65536}:{i // 65536}' for i in range(n)] + [']']
        if kind == 'large-community':
            n = rng.choice([100, 400, 900])
            return ['large-community', '['] + [f'{i}:1:1' for i in range(n)] + [']']
        n = rng.choice([255, 256, 300, 1100, 17000])
        return ['as-path', '['] + [str(65000 + i % 500) for i in range(n)] + [']']
    return num(rng.choice(['med', 'label', 'path-information']), 'u32')


def stream_case(rng):
    """-> dict(texts) of one random token sequence"""
    kind = rng.random()
    if kind < 0.7:
        v6 = rng.random() < 0.2
        prefix = rng.choice(['2001:db8::/32', '::/0', '2001:db8::1/128', '2001:db8::/129']) if v6 else rng.choice(
            ['10.0.0.0/24', '0.0.0.0/0', '10.1.2.3/32', '10.0.0.0/33', '10.0.0.1/24', '10.0.0/24', '300.0.0.0/8'])
        nh = rng.choice(['2001:db8::1', 'self']) if v6 else rng.choice(['1.2.3.4', 'self', '1.2.3.256', '1.2.3'])
        words = ['route', prefix] + (['next-hop', nh] if rng.random() < 0.95 else [])
        for _ in range(rng.choice([0, 1, 1, 2, 3, 5])):
            words += stream_item(rng)
        try:
            mask = int(prefix.split('/')[1])
        except ValueError:
            mask = 0
        top = 128 if v6 else 32
        # `split /n` expands to 2^(n - mask) routes with no upper bound in the pinned tree (see the split probe):
        # the stream keeps the expansion at 256 routes at most
        split = rng.choice([mask - 1, mask, mask + 1, mask + 3, mask + 8, top + 1, top + 200, -1, 'x', ''])
        if isinstance(split, int) and mask + 8 < split <= top:
            split = mask + 8
        words = [('/' + str(split)) if w == 'SPLIT' else w for w in words]
        if rng.random() < 0.1 and len(words) > 3:
            del words[rng.randrange(2, len(words))]
        text = ' '.join(words)
        return {'conf': 'static { %s; }' % text, 'prt': text, 'api': 'peer * announce ' + text}
    if kind < 0.85:
        comps = []
        for _ in range(rng.choice([1, 1, 2, 3])):
            name = rng.choice(['destination-port', 'source-port', 'port', 'protocol', 'packet-length', 'dscp', 'icmp-type', 'icmp-code',
                               'tcp-flags', 'fragment', 'bogus'])
            op = rng.choice(['=', '>', '<', '>=', '<=', '!=', '', '&', '=>'])
            val = stream_value(rng, rng.choice(['u8', 'u16'])) or ''
            if rng.random() < 0.3:
                comps.append(f'{name} [ {op}{val} {op}{val}&<{stream_value(rng, "u16") or ""} ]')
            else:
                comps.append(f'{name} {op}{val}')
        src = rng.choice(['10.0.0.0/24', '10.0.0.0/33', '0.0.0.0/0', '10.0.0.0', '10.0.0.0/x'])
        then = rng.choice(['discard', 'accept', 'rate-limit ' + (stream_value(rng, 'u32') or ''), 'mark ' + (stream_value(rng, 'u8') or ''),
                           'redirect ' + (stream_value(rng, 'u16') or '') + ':' + (stream_value(rng, 'u32') or ''), 'redirect 1.2.3.4', 'bogus 5'])
        body = 'match { source %s; %s; } then { %s; }' % (src, '; '.join(comps), then)
        if rng.random() < 0.08:
            body = body[: rng.randrange(len(body))]
        return {'conf': 'flow { route f { %s } }' % body, 'prt': None, 'api': 'peer * announce flow route { %s }' % body}
    if kind < 0.95:
        p = {k: (stream_value(rng, 'u16') or '') for k in ('endpoint', 'base', 'offset', 'size')}
        rd = (stream_value(rng, 'u16') or '') + rng.choice([':', ':', ':', '']) + (stream_value(rng, 'u32') or '')
        conf = 'l2vpn { vpls v { endpoint %s; base %s; offset %s; size %s; rd %s; next-hop 1.2.3.4; } }' % (p['endpoint'], p['base'], p['offset'], p['size'], rd)
        api = 'peer * announce vpls rd %s endpoint %s base %s offset %s size %s next-hop 1.2.3.4' % (rd, p['endpoint'], p['base'], p['offset'], p['size'])
        return {'conf': conf, 'prt': None, 'api': api}
    words = ['attributes', 'next-hop', '1.2.3.4']
    for _ in range(rng.choice([0, 1, 2])):
        words += stream_item(rng)
    words = ['/33' if w == 'SPLIT' else w for w in words]
    words += ['nlri'] + [rng.choice(['10.0.0.0/24', '10.0.1.0/24', '10.0.0.0/33', 'x', '10.0.2.0/24']) for _ in range(rng.choice([0, 1, 2, 3]))]
    text = ' '.join(words)
    return {'conf': None, 'prt': text, 'api': 'peer * announce ' + text}


# ------------------------------------------------------------------------------- the check


def check(tier, seed):
    run = Run('C18', tier, seed)
    run.trusted = [
        'Coq 8.16.1 kernel (coqc); vm_compute for case evaluation and the refutation witnesses; no native_compute',
        'translator translate/t9_textdomains.py (+ py2coq.py): range guards of the value parsers -> Gen_TextDomains.v '
        '(python ast of the parser functions and of the constructors they call, class constants by reflection, whitelisted shapes)',
        'harness/c18.py: text builders per keyword, the three entry-point drivers, harness/apirig.py, the 16 Negotiated objects '
        '(configuration/check.py:_negotiated), its own UPDATE / MP_REACH / labelled / flow / vpls reader used as decode oracle',
        'modelled, not verified: tokeniser and section machinery (exercised by the text sweep only); the encoders of Model_Text '
        'are the RFC field layouts, tied to the implementation through the bytes it produces for every accepted text',
    ]
    run.assumptions = [
        'an API error reply, `False` + configuration.error, or [] from parse_route_text is a refusal; anything else that is not an '
        'acknowledged route is an exception outcome',
        'LOCAL_PREF is absent on eBGP, a path identifier without ADD-PATH and AIGP on plain eBGP are absent by design',
        'AS_PATH + AS4_PATH towards a 2-octet peer is read with the harness reader (the real decoder has its own defect there, C02)',
        'a raw `attribute [ code flags value ]` under a code the real decoder has a class for is judged by the harness reader only: the '
        'property asks that the octets are carried as written, not that the reading side finds them well formed (counted in raw_generic_under_known_code)',
    ]
    common.standard_build(run, ['T9'])
    rng = random.Random(seed)
    t0 = time.time()
    stats = collections.Counter()
    all_problems = []  # (sig, what, case)
    outcome_hist = collections.Counter()

    # ---- 1. boundary sweep of every field through every entry point
    n_random = 6 if tier == "quick" else 40
    sweep = []
    for f in FIELDS:
        for v in boundary_values(f, rng, n_random):
            sweep.append((f, v))
    per_field = collections.defaultdict(collections.Counter)
    for f, v in sweep:
        try:
            texts = texts_of(f, v)
        except Exception:
            continue
        outcomes, problems = judge_text(f, v, texts, stats)
        for e, o in outcomes.items():
            per_field[f.name][o[0]] += 1
            outcome_hist[f'{e}:{o}'] += 1
        for sig, what in problems:
            all_problems.append((sig, what, {'field': f.name, 'value': str(v), 'texts': {k: t for k, t in texts.items() if t}}))

    # ---- 2. must-accept list (values the RFCs allow)
    must = [
        ('route 10.0.0.0/24 next-hop 1.2.3.4 as-path [ 65536 4294967295 ]', 'as-path-asn4'),
        ('route 10.0.0.0/24 next-hop 1.2.3.4 as-path [ 1.0 65535.65535 ]', 'as-path-asdot'),
        ('route 10.0.0.0/24 next-hop 1.2.3.4 med 4294967295', 'med'),
        ('route 10.0.0.0/24 next-hop 1.2.3.4 local-preference 4294967295', 'local-preference'),
        ('route 10.0.0.0/24 next-hop 1.2.3.4 label 1048575', 'label'),
        ('route 10.0.0.0/24 next-hop 1.2.3.4 large-community [ 4294967295:4294967295:4294967295 ]', 'large-community'),
        ('route 10.0.0.0/24 next-hop 1.2.3.4 community [ 65535:65535 ]', 'community'),
        ('route 10.0.0.0/24 next-hop 1.2.3.4 path-information 4294967295', 'path-information'),
        ('route 10.0.0.0/24 next-hop 1.2.3.4 aggregator ( 4294967295:1.2.3.4 )', 'aggregator'),
        ('route 10.0.0.0/24 next-hop 1.2.3.4 rd 4294967295:65535 label 3', 'rd'),
        ('route 10.0.0.0/24 next-hop 1.2.3.4 rd 65535:4294967295 label 3', 'rd'),
        ('route 10.0.0.0/24 next-hop 1.2.3.4 aigp 18446744073709551615', 'aigp'),
        ('route 10.0.0.0/24 next-hop 1.2.3.4 attribute [ 0xff 0xc0 0x00 ]', 'attribute-code'),
    ]
    for text, name in must:
        for entry, t in (('conf', 'static { %s; }' % text), ('prt', text), ('api', 'peer * announce ' + text)):
            kind, val = {'conf': run_conf, 'prt': run_prt, 'api': run_api}[entry](t)
            stats['texts'] += 1
            outcome_hist[f'{entry}:{kind}'] += 1
            if kind == 'A':
                probs = []
                judge_routes(None, None, val, entry, probs, stats)
                for sig, what in probs:
                    all_problems.append((sig.replace(':stream', ':' + name), what, {'field': name, 'texts': {entry: t}}))
            else:
                sig = f'refused-but-valid:{name}' if kind == 'R' else f'exception:{val.get("cls") if isinstance(val, dict) else "no-reply"}:{name}'
                all_problems.append((sig, f'{entry}: {text!r} must be accepted: {val if not isinstance(val, str) else val.strip()[-160:]!r}', {'field': name, 'texts': {entry: t}}))
    # D16, repaired by c8e3732: must stay repaired
    kind, val = run_prt('route 10.0.0.0/24 next-hop 1.2.3.4 as-path [ 65536 4294967295 ]')
    if kind != 'A':
        all_problems.append(('as-path-asn4-struct-error', f'as-path [ 65536 4294967295 ] is not accepted by parse_route_text: {val}',
                             {'texts': {'prt': 'route 10.0.0.0/24 next-hop 1.2.3.4 as-path [ 65536 4294967295 ]'}}))

    # ---- 2a. texts every tier offers (found by the thorough stream first)
    for fixed in ('attributes next-hop 1.2.3.4 split /33 nlri', 'attributes next-hop 1.2.3.4 split /24 nlri',
                  'route 0.0.0.0/0 next-hop 1.2.3.4 attribute [ 0x19 0x6d 0x0102 ]', 'route 10.0.0.0/24 next-hop 1.2.3.4 attribute [ 0x01 0x40 0x07 ]'):
        texts = {'prt': fixed, 'api': 'peer * announce ' + fixed}
        if fixed.startswith('route'):
            texts['conf'] = 'static { %s; }' % fixed
        outcomes, problems = judge_text(None, None, texts, stats)
        for e, o in outcomes.items():
            outcome_hist[f'{e}:{o}'] += 1
        for sig, what in problems:
            all_problems.append((sig, what, {'texts': texts}))

    # ---- 2b. `split` expansion, in a child process (an unbounded expansion never answers)
    import subprocess
    import sys

    probe = ("import resource, sys\nresource.setrlimit(resource.RLIMIT_AS, (3 << 30, 3 << 30))\n"
             "from exabgp.configuration.setup import create_minimal_configuration\n"
             "c = create_minimal_configuration(families='ipv6 unicast')\n"
             "r = c.parse_route_text('route 2001:db8::/32 next-hop 2001:db8::1 split /64')\nprint('answered', len(r))\n")
    try:
        p = subprocess.run([sys.executable, '-c', probe], timeout=15, stdout=subprocess.PIPE, stderr=subprocess.STDOUT, text=True)
        answered = 'answered' in p.stdout
        tail = p.stdout.strip()[-200:]
    except subprocess.TimeoutExpired:
        answered, tail = False, 'no answer after 15 s'
    stats['texts'] += 1
    if not answered:
        all_problems.append(('exception:hang:split', f'prt: `route 2001:db8::/32 next-hop 2001:db8::1 split /64` (2^32 routes) is neither refused nor answered: {tail}',
                             {'field': 'split', 'texts': {'prt': 'route 2001:db8::/32 next-hop 2001:db8::1 split /64'}}))

    # ---- 3. random token stream (valid and invalid)
    n_stream = 700 if tier == "quick" else 12000
    stream_kinds = collections.Counter()
    for i in range(n_stream):
        texts = stream_case(rng)
        outcomes, problems = judge_text(None, None, texts, stats, compare=True)
        for e, o in outcomes.items():
            outcome_hist[f'{e}:{o}'] += 1
            stream_kinds[o[0]] += 1
        for sig, what in problems:
            short = {k: (t if len(t) < 400 else t[:200] + f' ...({len(t)} chars)... ' + t[-100:]) for k, t in texts.items() if t}
            all_problems.append((sig, what, {'texts': short}))
    extra_problems, extra_cov = structured_forms(run, rng, tier, stats)
    all_problems += extra_problems
    size_problems, size_cov = judge_sizes(run, tier, stats)
    all_problems += size_problems
    extra_cov.update(size_cov)
    sweep_wall = time.time() - t0

    # ---- 4. correspondence of the generated predicates with the real value parsers (Coq evaluates)
    drivers = unit_drivers()
    items, crash_hist = [], collections.Counter()
    coq_vals = {}
    for fid, cf in enumerate(COQ_FIELDS):
        lo, hi = REPR[cf]
        vals = [lo - 1, lo, hi, hi + 1, -1, -65536, 255, 256, 257, 65535, 65536, 65537, (1 << 20) - 1, 1 << 20, (1 << 24), (1 << 32) - 1, 1 << 32,
                (1 << 32) + 1, (1 << 64) - 1, 1 << 64, (1 << 64) + 1, (1 << 96) - 1, 1 << 96]
        vals += [rng.randint(lo, hi) for _ in range(10)] + [rng.getrandbits(rng.choice([7, 15, 21, 33, 70])) * rng.choice([1, 1, -1]) for _ in range(12 if tier == 'quick' else 200)]
        for v in dict.fromkeys(vals):
            a, crash = unit_accept(drivers[cf], v)
            if crash:
                crash_hist[f'{cf}:{crash}'] += 1
            items.append((fid, v, a, lo <= v <= hi))
    rd_items = []
    rdv = [-1, 0, 1, 65535, 65536, (1 << 32) - 1, 1 << 32, 70000]
    for n in rdv + [rng.getrandbits(33) for _ in range(6)]:
        for s in rdv + [rng.getrandbits(33) for _ in range(6)]:
            a, crash = unit_accept(drivers['rd'], n, s)
            if crash:
                crash_hist[f'rd:{crash}'] += 1
            r = (0 <= n < 65536 and 0 <= s < (1 << 32)) or (0 <= n < (1 << 32) and 0 <= s < 65536)
            rd_items.append((n, s, a, r))
    enc_items = []
    for v in [0, 1, 255, 256, 65535, 65536, (1 << 32) - 1] + [rng.getrandbits(32) for _ in range(20)]:
        enc_items.append((0, v, list(struct.pack('!L', v))))
        enc_items.append((2, v * 65537, list(struct.pack('!Q', v * 65537))))
    for v in [0, 1, 15, 16, (1 << 20) - 1] + [rng.getrandbits(20) for _ in range(20)]:
        from exabgp.bgp.message.update.nlri.qualifier import Labels

        enc_items.append((1, v, list(bytes(Labels.make_labels([v]).pack_labels() if hasattr(Labels.make_labels([v]), 'pack_labels') else Labels.make_labels([v])._packed))))
        enc_items.append((5, v, list(struct.pack('!B', v) if v < 256 else struct.pack('!H', v) if v < 65536 else struct.pack('!L', v))))
    for v in [0, 255, 256, 65535] + [rng.getrandbits(16) for _ in range(10)]:
        enc_items.append((3, v, list(struct.pack('!H', v))))
        enc_items.append((4, v, list(struct.pack('!B', v) if v < 256 else struct.pack('!H', v))))
    for v in [0, 1, 128, 255]:
        enc_items.append((6, v, [v]))
    shards = common.chunked(items, 600)

    def defs(shard):
        body = ';\n'.join(f'({fid}%nat, {cz(v)}, {cb(a)}, {cb(r)})' for fid, v, a, r in shard)
        return f'Definition cases : list (nat * Z * bool * bool) := [{body}].\nEval vm_compute in (bad cases 0).\n'

    res = common.eval_cases(coq_header(), defs, shards, 'c18')
    extra = ('Definition rdc : list (Z * Z * bool * bool) := [' + ';\n'.join(f'({cz(n)}, {cz(s)}, {cb(a)}, {cb(r)})' for n, s, a, r in rd_items)
             + '].\nEval vm_compute in (badrd rdc 0).\nDefinition encc : list (nat * Z * list Z) := ['
             + ';\n'.join(f'({i}%nat, {cz(v)}, {common.zlist(e)})' for i, v, e in enc_items) + '].\nEval vm_compute in (badenc encc 0).\n')
    res2 = common.eval_cases(coq_header(), lambda s: extra, [[0]], 'c18x')
    ok = all(rc == 0 for rc, _, _ in res) and all(rc == 0 for rc, _, _ in res2)
    run.obligation(f'model evaluation (vm_compute of Gen_TextDomains.accept_*, Model_Text.repr_* / enc_* on {len(items) + len(rd_items) + len(enc_items)} values) ran',
                   ok, '\n'.join(out for rc, out, _ in list(res) + list(res2) if rc != 0)[-2000:])
    acc_bad, rep_bad = [], []
    for shard, (rc, out, parsed) in zip(shards, res):
        if rc == 0 and parsed:
            m = re.match(r'\((.*?),\s*(\[.*\]|nil.*)\)', parsed[0].replace('\n', ' '))
            left, right = (parsed[0].split('],', 1) + [''])[:2] if '],' in parsed[0] else (parsed[0], '')
            acc_bad += [shard[j] for j in common.nat_list_of(left)]
            rep_bad += [shard[j] for j in common.nat_list_of(right)]
    rd_bad, rdrep_bad, enc_bad = [], [], []
    if res2[0][0] == 0 and len(res2[0][2]) >= 2:
        left, right = (res2[0][2][0].split('],', 1) + [''])[:2] if '],' in res2[0][2][0] else (res2[0][2][0], '')
        rd_bad = [rd_items[j] for j in common.nat_list_of(left)]
        rdrep_bad = [rd_items[j] for j in common.nat_list_of(right)]
        enc_bad = [enc_items[j] for j in common.nat_list_of(res2[0][2][1])]
    run.obligation(f'correspondence: generated accept_<field> = the real value parser (refuses / does not refuse) on {len(items)} (field, value) pairs and {len(rd_items)} rd pairs',
                   not acc_bad and not rd_bad,
                   f'{len(acc_bad) + len(rd_bad)} disagreements; first: ' + str([(COQ_FIELDS[b[0]], b[1], 'impl accepts' if b[2] else 'impl refuses') for b in acc_bad[:5]] + rd_bad[:3]))
    run.obligation(f'correspondence: Model_Text.repr_<field> = the RFC range table of the harness on the same values; enc_<field> = struct.pack / Labels on {len(enc_items)} values',
                   not rep_bad and not rdrep_bad and not enc_bad, f'first: {[(COQ_FIELDS[b[0]], b[1]) for b in rep_bad[:5]]} {rdrep_bad[:3]} {enc_bad[:3]}')

    # ---- 5. property oracle obligations
    by_class = collections.defaultdict(list)
    for sig, what, case in all_problems:
        by_class[sig.split(':', 1)[0]].append((sig, what, case))

    def ob(cls_names, title):
        found = [p for c in cls_names for p in by_class.get(c, [])]
        sigs = sorted({p[0] for p in found})
        run.obligation(title, not found, f'{len(found)} failing texts, {len(sigs)} kinds: {sigs[:12]}; first: {found[0][1][:300] if found else ""}')

    n_texts = stats['texts']
    ob(['exception', 'no-reply'], f'property oracle: none of {n_texts} texts (configuration, parse_route_text, API) is answered with an exception or left without a reply')
    ob(['config-refusal-not-located'], 'property oracle: every configuration refusal names the offending statement (line N: ...)')
    ob(['accepted-but-cannot-encode', 'accepted-but-not-sent', 'accepted-but-malformed-message', 'accepted-without-route'],
       f'property oracle: every accepted text encodes under all {len(sessions())} session kinds without raising ({stats["encodes"]} encodings)')
    ob(['accepted-but-wrapped', 'accepted-but-undecodable', 'accepted-but-reads-back-differently'],
       f'property oracle: the bytes carry the value as written (own reader, {stats["compares"]} field comparisons) and the real decoder reads them back')
    ob(['refused-but-valid', 'as-path-asn4-struct-error'], 'property oracle: every value inside the RFC range of its field is accepted')

    seen = set()
    for sig, what, case in all_problems:
        if sig in seen:
            continue
        seen.add(sig)
        run.fail_case(sig, what, case)

    run.coverage.update({
        'evaluations': n_texts + len(items) + len(rd_items) + len(enc_items),
        'distinct_nontrivial': len({(f.name, v) for f, v in sweep}) + n_stream,
        'rule': f'{len(FIELDS)} numeric/length fields x (min-1, min, min+1, max-1, max, max+1, 2^k-1, 2^k, 2^k+1 for k in 8,16,20,24,32,64, '
                f'-1, -65536, 2^31, 2^96, 524288, {n_random} random) through configuration text, parse_route_text and the API; '
                f'{len(must)} RFC-valid must-accept texts x 3 entry points; {n_stream} random token sequences (route / flow / vpls / attributes; '
                'valid values, boundaries, negatives, non-numeric, missing values, unknown keywords, unbalanced brackets, lists of 300..20000 elements); '
                f'every accepted text encoded under {len(sessions())} session kinds and read back; non-trivial = distinct (field, value) + sequences',
        'texts_offered': n_texts,
        'outcomes': dict(outcome_hist),
        'stream_outcomes': dict(stream_kinds),
        'per_field_outcomes': {k: dict(v) for k, v in per_field.items()},
        'encodings': stats['encodes'], 'field_comparisons': stats['compares'], 'real_decoder_skipped_as4_path_to_2_octet_peer': stats['decoder_d4'],
        'value_parser_crashes_after_guards': dict(crash_hist), 'raw_generic_under_known_code': stats['raw_generic_under_known_code'],
        'problem_kinds': {k: len(v) for k, v in by_class.items()},
        'sweep_wall_s': round(sweep_wall, 1), 'structured_forms': extra_cov,
        'exhaustive': False,
    })
    f0 = FIELD['med']
    run.samples.append({'field': 'med', 'value': 4294967296, 'texts': texts_of(f0, 4294967296)})
    run.samples.append({'stream': stream_case(random.Random(seed + 1))})
    if run.broken() and not run.failing:
        run.coverage['search'] = f'{n_texts} texts judged by the property oracle; none failed'
    global _RIG
    if _RIG is not None:
        _RIG.close()
        _RIG = None
    return run.finish(checker_cmd='make -C coq props/Prop_C18.vo && coqc -Q coq ExaV coq/props/Prop_C18.v (Print Assumptions)')


# ------------------------------------------------------------------------------- structured forms (whole-attribute read back)
# Appended after the first review: three seeded changes showed that one number per keyword is not enough -
# the value must also survive in every POSITION the grammar offers (set vs sequence segments, either layout of
# an extended community, every operator of a flow list).


def aspath_cases(rng, tier):
    """as-path texts mixing [ sequence ] and ( set ) segments, 4-octet ASNs only in a set / only in a sequence / in both.
    -> [(text, expected [(wire type, [asn])], category)]   (AS_SET = 1, AS_SEQUENCE = 2)"""
    small = [1, 100, 65001, 65002, 65535]
    large = [65536, 4200000001, 4294967295]
    out = []

    def seg(kind, with_large, n):
        asns = [rng.choice(small) for _ in range(n)]
        if with_large:
            asns[rng.randrange(n)] = rng.choice(large)
            if n > 1 and rng.random() < 0.4:
                asns[rng.randrange(n)] = rng.choice(large)
        return kind, asns

    shapes = [
        ('set-only', [('set', True)]), ('seq-only', [('seq', True)]), ('seq+set:large-in-set', [('seq', False), ('set', True)]),
        ('seq+set:large-in-seq', [('seq', True), ('set', False)]), ('seq+set:large-in-both', [('seq', True), ('set', True)]),
        ('seq+set:none', [('seq', False), ('set', False)]), ('set+seq:large-in-set', [('set', True), ('seq', False)]),
        ('seq+set+seq:large-in-set', [('seq', False), ('set', True), ('seq', False)]), ('seq+seq:large-in-second', [('seq', False), ('seq', True)]),
        ('set+set:large-in-second', [('set', False), ('set', True)]),
    ]
    reps = 2 if tier == 'quick' else 12
    for cat, shape in shapes:
        for _ in range(reps):
            segs = [seg(k, lg, rng.choice([1, 2, 3])) for k, lg in shape]
            text = 'as-path ' + ' '.join(('[ %s ]' if k == 'seq' else '( %s )') % ' '.join(str(a) for a in asns) for k, asns in segs)
            out.append((text, [(2 if k == 'seq' else 1, asns) for k, asns in segs], cat))
    out.append(('as-path [ 65001 ] ( 4200000001 65002 )', [(2, [65001]), (1, [4200000001, 65002])], 'seq+set:large-in-set'))
    out.append(('as-path ( 65002 4294967295 )', [(1, [65002, 4294967295])], 'set-only'))
    return out


def judge_aspath(text, expected, cat, problems, stats):
    route_text = BASE4 + ' ' + text
    for entry, t in (('conf', 'static { %s; }' % route_text), ('prt', route_text), ('api', 'peer * announce ' + route_text)):
        kind, val = with_watchdog({'conf': run_conf, 'prt': run_prt, 'api': run_api}[entry], t)
        stats['texts'] += 1
        if kind != 'A':
            what = val if isinstance(val, str) else str(val)
            problems.append((f'refused-but-valid:as-path-segments:{cat}' if kind == 'R' else f'exception:{val.get("cls") if isinstance(val, dict) else "no-reply"}:as-path-segments',
                             f'{entry}: {text!r} is a legal AS path (RFC 4271 segments, RFC 6793 AS numbers): {what.strip()[-160:]!r}', t))
            continue
        for sess in sessions():
            try:
                msgs = encode_decode(val[0], sess)
            except Exception as e:
                info = exc_info(e)
                problems.append((f'accepted-but-cannot-encode:as-path-segments:{cat}',
                                 f'{entry}: {text!r} accepted, then {info["cls"]} "{info["msg"]}" at {info["where"]} while encoding for {sess.key}', t))
                break
            stats['encodes'] += 1
            upd = read_update(msgs[0]) if msgs else None
            if upd is None:
                problems.append((f'accepted-but-malformed-message:as-path-segments:{cat}', f'{entry}: {text!r}: no well framed UPDATE for {sess.key}', t))
                break
            stats['compares'] += 1
            if sess.asn4:
                got = as_segments(attr(upd, 2) or b'', 4)
                ok = got == expected and attr(upd, 17) is None
                shown = got
            else:
                got2 = as_segments(attr(upd, 2) or b'', 2)
                want2 = [(t_, [a if a <= 65535 else 23456 for a in asns]) for t_, asns in expected]
                has_large = any(a > 65535 for _, asns in expected for a in asns)
                a4 = attr(upd, 17)
                got4 = as_segments(a4, 4) if a4 is not None else None
                ok = got2 == want2 and (got4 == expected if has_large else got4 is None)
                shown = (got2, got4)
            if not ok:
                problems.append((f'accepted-but-wrapped:as-path-segments:{cat}',
                                 f'{entry}: {text!r} is sent as {shown} for {sess.key} (segments written: {expected})', t))
                break
            try:
                decode(msgs[0], sess)
            except Exception as e:
                info = exc_info(e)
                problems.append((f'accepted-but-undecodable:as-path-segments:{cat}', f'{entry}: {text!r}: the real decoder raises {info["cls"]} "{info["msg"]}" ({sess.key})', t))
                break


def extcomm_cases():
    """target: / origin: in every layout at the boundaries of BOTH fields.
    RFC 4360 3.1: 2-octet AS (<= 65535) : 4-octet number; RFC 4360 3.2: IPv4 address : 2-octet number;
    RFC 5668: 4-octet AS : 2-octet number.  -> [(text, valid, expected (kind, admin, number), sub type)]"""
    out = []
    admins = [0, 1, 65534, 65535, 65536, 65537, 4294967295, 4294967296]
    numbers = [0, 1, 65535, 65536, 4294967295, 4294967296]
    for name, sub in (('target', 2), ('origin', 3)):
        for a in admins:
            for n in numbers:
                two = a <= 65535 and n <= 4294967295
                four = a <= 4294967295 and n <= 65535
                out.append((f'{name}:{a}:{n}', two or four, ('as', a, n), sub))
        for n in (0, 1, 65535, 65536):
            out.append((f'{name}:1.2.3.4:{n}', n <= 65535, ('ip', 0x01020304, n), sub))
            out.append((f'{name}:255.255.255.255:{n}', n <= 65535, ('ip', 0xFFFFFFFF, n), sub))
    return out


def read_extcomm(raw):
    """8 octets -> (kind, admin, number, sub type) for the three two-field layouts, else ('other', raw)"""
    if len(raw) != 8:
        return ('length', len(raw))
    t, sub = raw[0] & 0x3F, raw[1]
    if t == 0:
        return ('as', be_int(raw[2:4]), be_int(raw[4:8]), sub)
    if t == 1:
        return ('ip', be_int(raw[2:6]), be_int(raw[6:8]), sub)
    if t == 2:
        return ('as', be_int(raw[2:6]), be_int(raw[6:8]), sub)
    return ('other', raw.hex())


def judge_extcomm(text, valid, want, sub, problems, stats):
    route_text = f'{BASE4} extended-community [ {text} ]'
    for entry, t in (('conf', 'static { %s; }' % route_text), ('prt', route_text), ('api', 'peer * announce ' + route_text)):
        kind, val = with_watchdog({'conf': run_conf, 'prt': run_prt, 'api': run_api}[entry], t)
        stats['texts'] += 1
        name = text.split(':')[0]
        if kind == 'R':
            if valid:
                problems.append((f'refused-but-valid:extended-community:{name}', f'{entry}: {text} fits an RFC 4360 / RFC 5668 layout but is refused: {val.strip()[-140:]!r}', t))
            continue
        if kind != 'A':
            problems.append((f'exception:{val.get("cls") if isinstance(val, dict) else "no-reply"}:extended-community', f'{entry}: {text}: {val}', t))
            continue
        for sess in sessions()[::5]:
            try:
                msgs = encode_decode(val[0], sess)
            except Exception as e:
                info = exc_info(e)
                problems.append((f'accepted-but-cannot-encode:extended-community:{name}', f'{entry}: {text} accepted, then {info["cls"]} "{info["msg"]}" for {sess.key}', t))
                break
            stats['encodes'] += 1
            upd = read_update(msgs[0]) if msgs else None
            raw = attr(upd, 16) if upd else None
            stats['compares'] += 1
            got = read_extcomm(raw) if raw is not None else None
            # the octets must say what the text says: same administrator, same number, same sub type, a layout that holds
            # both (a 4-octet AS written with type 0x01 - same octets as 0x02 - is the implementation's long-standing choice)
            kind_w, a_w, n_w = want
            ok = got is not None and got[0] != 'other' and got[0] != 'length' and got[1] == a_w and got[2] == n_w and got[3] == sub \
                and (got[0] == 'as' or kind_w == 'ip' or a_w > 65535)
            if not ok or not valid:
                what = 'although no layout can hold it, and is ' if not valid else ''
                problems.append((f'accepted-but-wrapped:extended-community:{name}', f'{entry}: {text} is accepted {what}sent as {got} ({raw.hex() if raw else None}) for {sess.key}', t))
                break


FLOW_OPS = {'=': 0x01, '>': 0x02, '<': 0x04, '>=': 0x03, '<=': 0x05, '!=': 0x06}


def flow_list_cases(rng, tier):
    """bracketed and bare operator lists mixing `&` groups and OR items.
    -> [(component, match text, expected [(and bit, operator bits, value)])]"""
    comps = [('port', 4, 65535), ('destination-port', 5, 65535), ('source-port', 6, 65535), ('packet-length', 10, 65535), ('protocol', 3, 255), ('dscp', 11, 63)]
    out = []

    def item(maxv):
        op = rng.choice(list(FLOW_OPS))
        return op, rng.choice([0, 1, 80, 255, 256, maxv, rng.randint(0, maxv)]) % (maxv + 1)

    shapes = [[2, 1], [1, 2], [2, 2], [1, 1, 1], [2, 1, 1], [1, 2, 1], [3, 1], [1, 3], [2, 1, 2], [1], [2], [3]]
    reps = 1 if tier == 'quick' else 6
    for comp, ctype, maxv in comps:
        for shape in shapes:
            for _ in range(reps):
                groups = [[item(maxv) for _ in range(n)] for n in shape]
                words = ['&'.join(f'{op}{v}' for op, v in g) for g in groups]
                expected = [(1 if i else 0, FLOW_OPS[op], v) for g in groups for i, (op, v) in enumerate(g)]
                out.append((comp, ctype, f'{comp} [ {" ".join(words)} ]', expected))
                if len(groups) == 1:
                    out.append((comp, ctype, f'{comp} {words[0]}', expected))
    out.append(('port', 4, 'port [ >=80&<=90 =100 ]', [(0, 3, 80), (1, 5, 90), (0, 1, 100)]))
    return out


def flow_operators(data, ctype):
    """the (and bit, lt/gt/eq bits, value, eol, length code) of every operator of one component of a flow NLRI"""
    off = 1
    ln = data[0]
    if ln >= 0xF0:
        ln = (data[0] & 0x0F) << 8 | data[1]
        off = 2
    end = off + ln
    while off < end:
        t = data[off]
        off += 1
        if t in (1, 2):
            off += 1 + (data[off] + 7) // 8
            continue
        ops = []
        while True:
            op = data[off]
            n = 1 << ((op >> 4) & 3)
            ops.append(((op >> 6) & 1, op & 0x07, be_int(data[off + 1 : off + 1 + n]), op >> 7, n))
            off += 1 + n
            if op & 0x80:
                break
        if t == ctype:
            return ops
    return None


def judge_flow_list(comp, ctype, match, expected, problems, stats):
    body = 'match { source 10.0.0.0/24; %s; } then { discard; }' % match
    for entry, t in (('conf', 'flow { route f { %s } }' % body), ('api', 'peer * announce flow route { %s }' % body)):
        kind, val = with_watchdog({'conf': run_conf, 'api': run_api}[entry], t)
        stats['texts'] += 1
        if kind == 'R':
            problems.append((f'refused-but-valid:flow-operator-list:{comp}', f'{entry}: `{match}` is a legal RFC 8955 operator list but is refused: {val.strip()[-140:]!r}', t))
            continue
        if kind != 'A':
            problems.append((f'exception:{val.get("cls") if isinstance(val, dict) else "no-reply"}:flow-operator-list', f'{entry}: `{match}`: {val}', t))
            continue
        for sess in sessions()[::5]:
            try:
                msgs = encode_decode(val[0], sess)
            except Exception as e:
                info = exc_info(e)
                problems.append((f'accepted-but-cannot-encode:flow-operator-list:{comp}', f'{entry}: `{match}` accepted, then {info["cls"]} "{info["msg"]}" for {sess.key}', t))
                break
            stats['encodes'] += 1
            upd = read_update(msgs[0]) if msgs else None
            mp = mp_reach(upd) if upd else None
            ops = flow_operators(mp[3], ctype) if mp else None
            stats['compares'] += 1
            good = ops is not None and len(ops) == len(expected)
            if good:
                for i, ((a, bits, v, eol, n), (ea, ebits, ev)) in enumerate(zip(ops, expected)):
                    shortest = 1 if ev < 256 else 2 if ev < 65536 else 4
                    good = good and a == ea and bits == ebits and v == ev and eol == (1 if i == len(ops) - 1 else 0) and n == shortest
            if not good:
                problems.append((f'accepted-but-wrapped:flow-operator-list:{comp}',
                                 f'{entry}: `{match}` is sent with operators (and, lt/gt/eq, value, eol, octets) {ops} for {sess.key}; written: (and, lt/gt/eq, value) {expected}', t))
                break


def structured_forms(run, rng, tier, stats):
    """-> list of (sig, what, case); adds its obligations to run"""
    found = []
    asp = aspath_cases(rng, tier)
    probs = []
    for text, expected, cat in asp:
        judge_aspath(text, expected, cat, probs, stats)
    run.obligation(f'property oracle: {len(asp)} as-path texts with set and sequence segments (4-octet AS numbers only in a set, only in a sequence, '
                   'in both) are accepted, encode under all 16 session kinds and carry every segment as written (AS_TRANS + AS4_PATH towards 2-octet peers)',
                   not probs, f'{len(probs)} failing; first: {probs[0][:2] if probs else ""}')
    found += probs
    ext = extcomm_cases()
    probs = []
    for text, valid, want, sub in ext:
        judge_extcomm(text, valid, want, sub, probs, stats)
    run.obligation(f'property oracle: {len(ext)} target:/origin: extended communities (administrator x number boundaries, as:number and ip:number layouts): '
                   'accepted exactly when an RFC 4360 / RFC 5668 layout holds both fields, and the 8 octets sent say what the text says',
                   not probs, f'{len(probs)} failing; first: {probs[0][:2] if probs else ""}')
    found += probs
    fl = flow_list_cases(rng, tier)
    probs = []
    for comp, ctype, match, expected in fl:
        judge_flow_list(comp, ctype, match, expected, probs, stats)
    run.obligation(f'property oracle: {len(fl)} flow operator lists mixing `&` groups and OR items: every operator byte sent (and bit, lt/gt/eq, end-of-list, '
                   'value length) is the one written', not probs, f'{len(probs)} failing; first: {probs[0][:2] if probs else ""}')
    found += probs
    return [(sig, what, {'texts': {'text': t}}) for sig, what, t in found], {'as_path_forms': len(asp), 'extended_community_forms': len(ext), 'flow_operator_lists': len(fl)}


# ------------------------------------------------------------------------------- encoded-size boundaries (every field ordinary)
# Second review: a rule can be unsendable although no number in it is near a limit - the SIZE of what it encodes to
# sits on a boundary of the wire format (flow NLRI length 239/240 one or two octets, 4095 the most twelve bits hold;
# 255 ASNs per segment; attribute value 255/256 octets = extended-length flag).


def flow_strict(data, v6):
    """One flow NLRI read strictly as RFC 8955 4.1 / RFC 8956 3 say: length < 240 in one octet, else 0xfnnn in two;
    the components must fill exactly that length and the NLRI exactly the field.  -> (components, None) | (None, why)"""
    if not data:
        return None, 'empty NLRI field'
    if data[0] < 0xF0:
        ln, off = data[0], 1
    else:
        if len(data) < 2:
            return None, 'two-octet length cut short'
        ln, off = (data[0] & 0x0F) << 8 | data[1], 2
    if off + ln != len(data):
        return None, f'length field says {ln} octets of components, the NLRI field holds {len(data) - off} (first octets {data[:3].hex()})'
    end, comps = off + ln, []
    try:
        while off < end:
            t = data[off]
            off += 1
            if t in (1, 2):
                mask = data[off]
                if v6:
                    o = data[off + 1]
                    n = (mask - o + 7) // 8
                    comps.append((t, (mask, o, bytes(data[off + 2 : off + 2 + n]))))
                    off += 2 + n
                else:
                    n = (mask + 7) // 8
                    comps.append((t, (mask, 0, bytes(data[off + 1 : off + 1 + n]))))
                    off += 1 + n
                continue
            ops = []
            while True:
                op = data[off]
                n = 1 << ((op >> 4) & 3)
                if off + 1 + n > end:
                    return None, 'operator runs over the end of the NLRI'
                ops.append((op & 0xCF, be_int(data[off + 1 : off + 1 + n])))  # operator without the length bits, value
                off += 1 + n
                if op & 0x80:
                    break
            comps.append((t, ops))
    except IndexError:
        return None, 'components run over the end of the NLRI'
    if off != end:
        return None, 'components do not end where the length says'
    return comps, None


def flow_size_case(total, v6):
    """A flow rule of ordinary values whose NLRI components take exactly `total` octets:
    one destination prefix and `port [ =v ... ]` with 3 octets per value >= 256 and 2 octets per value < 256."""
    head = 7 if v6 else 5  # type, length, [offset], 4 / 3 prefix octets
    room = total - head - 1
    b = {0: 0, 2: 1, 1: 2}[room % 3]
    a = (room - 2 * b) // 3
    if a < 0 or room < 2:
        return None
    values = [1000 + i for i in range(a)] + [10 + i for i in range(b)]
    dest = '2001:db8::/32' if v6 else '10.0.0.0/24'
    want = [(1, (32, 0, bytes.fromhex('20010db8')) if v6 else (24, 0, bytes([10, 0, 0])))]
    want.append((4, [((0x80 if i == len(values) - 1 else 0) | 0x01, v) for i, v in enumerate(values)]))
    body = 'match { destination %s; port [ %s ]; } then { discard; }' % (dest, ' '.join(f'={v}' for v in values))
    return body, want


def size_cases(tier):
    """-> [(kind, name, texts per entry point, sendable?, checker(upd, sess) -> None | problem text)]"""
    out = []
    # ---- flow NLRI totals
    totals = [238, 239, 240, 241, 242, 254, 255, 256, 257, 4093, 4094, 4095, 4096, 4097]
    if tier != 'quick':
        totals += list(range(230, 238)) + list(range(243, 254)) + [511, 512, 513, 1023, 1024, 4000]
    for v6 in (False, True):
        for total in totals:
            made = flow_size_case(total, v6)
            if made is None:
                continue
            body, want = made

            def chk(upd, sess, want=want, v6=v6, total=total):
                mp = mp_reach(upd)
                if mp is None:
                    return 'no MP_REACH_NLRI in the message'
                comps, why = flow_strict(mp[3], v6)
                if comps is None:
                    return f'the flow NLRI sent cannot be read: {why}'
                if comps != want:
                    return f'the flow NLRI sent reads as {str(comps)[:200]}, written {str(want)[:200]}'
                return None

            out.append(('flow', f'flow-nlri-{"ipv6" if v6 else "ipv4"}-{total}-octets',
                        {'conf': 'flow { route f { %s } }' % body, 'api': 'peer * announce flow route { %s }' % body},
                        total <= 4095, chk, 4 + total > 4000))
    # ---- AS_PATH: ASNs in one segment (the count is one octet)
    for n in (254, 255, 256, 257, 510, 511):
        for large_at in (None, 254, 255):
            asns = [64512 + (i % 1000) for i in range(n)]
            if large_at is not None:
                if large_at >= n:
                    continue
                asns[large_at] = 4200000000 + n
            text = f'{BASE4} as-path [ {" ".join(str(a) for a in asns)} ]'

            def chk(upd, sess, asns=asns):
                def flat(val, size):
                    segs = as_segments(val, size)
                    if segs is None:
                        return None, 'segments do not parse'
                    if any(t != 2 or not 1 <= len(l) <= 255 for t, l in segs):
                        return None, f'segment types/sizes {[(t, len(l)) for t, l in segs]}'
                    return [a for _, l in segs for a in l], None

                p = attr(upd, 2)
                if p is None:
                    return 'no AS_PATH'
                if sess.asn4:
                    got, why = flat(p, 4)
                    return None if got == asns else f'AS_PATH carries {why or str(got)[:120]}'
                got, why = flat(p, 2)
                if got != [a if a <= 65535 else 23456 for a in asns]:
                    return f'AS_PATH (2-octet) carries {why or str(got)[:120]}'
                if any(a > 65535 for a in asns):
                    p4 = attr(upd, 17)
                    got4, why = flat(p4, 4) if p4 is not None else (None, 'no AS4_PATH')
                    return None if got4 == asns else f'AS4_PATH carries {why or str(got4)[:120]}'
                return None

            out.append(('as-path', f'as-path-{n}-asns' + ('' if large_at is None else f'-4-octet-at-{large_at}'),
                        {'conf': 'static { %s; }' % text, 'prt': text, 'api': 'peer * announce ' + text}, True, chk, False))
    # ---- attribute value up to and across what any message can carry: n ASNs take 2 * ceil(n / 255) + 4 * n octets.
    #      The route below needs 23 (header, two lengths) + 4 (ORIGIN) + 7 (NEXT_HOP) + 4 (NLRI) + 4 (AS_PATH header) octets
    #      around it, and 7 more (LOCAL_PREF) on iBGP: 16339 ASNs (65486 octets) fill a 65535-octet message on iBGP exactly,
    #      16340 (65490) still fit eBGP, 16341 (65494) fit no message at all, 16352 (65538) not even the attribute length.
    for n in (16300, 16339, 16340, 16341, 16351, 16352, 17000):
        asns = [64512 + (i % 1000) for i in range(n)]
        text = f'{BASE4} as-path [ {" ".join(str(a) for a in asns)} ]'

        def chk(upd, sess, asns=asns):
            p = attr(upd, 2)
            segs = as_segments(p, 4 if sess.asn4 else 2) if p is not None else None
            if not segs or any(t != 2 or not 1 <= len(l) <= 255 for t, l in segs):
                return 'AS_PATH segments do not parse'
            got = [a for _, l in segs for a in l]
            return None if got == asns else f'AS_PATH carries {len(got)} ASNs, written {len(asns)}'

        def carriers(x, n=n):
            # the sessions whose largest message holds this route: AS numbers take 2 octets towards a 2-octet peer,
            # iBGP adds LOCAL_PREF (7), ADD-PATH a path identifier (4)
            need = 23 + 4 + 7 + 4 + 2 * -(-n // 255) + (4 if x.asn4 else 2) * n + 4 + (7 if x.ibgp else 0) + (4 if x.addpath else 0)
            return need <= x.msg_size

        out.append(('attribute-over-65535', f'as-path-{n}-asns-{2 * -(-n // 255) + 4 * n}-octets',
                    {'conf': 'static { %s; }' % text, 'prt': text, 'api': 'peer * announce ' + text}, n <= 16340, chk, carriers))
    # ---- attribute value length across 255 octets (extended-length flag)
    def listcase(name, code, kw, items, raw_of, unit):
        text = f'{BASE4} {kw} [ {" ".join(items)} ]'
        want = sorted(raw_of(i) for i in items)

        def chk(upd, sess):
            a = attr(upd, code)
            if a is None:
                return f'attribute {code} is not in the message'
            got = sorted(bytes(a[i : i + unit]) for i in range(0, len(a), unit))
            if len(a) % unit or got != want:
                return f'attribute {code} carries {len(a)} octets / {len(got)} members, written {len(want)} members'
            return None

        out.append(('attribute-length', f'{name}-{len(items)}-members-{len(items) * unit}-octets',
                    {'conf': 'static { %s; }' % text, 'prt': text, 'api': 'peer * announce ' + text}, True, chk, False))

    for n in (63, 64, 65):
        listcase('community', 8, 'community', [f'{65000}:{i + 1}' for i in range(n)], lambda s: struct.pack('!HH', *map(int, s.split(':'))), 4)
    for n in (21, 22):
        listcase('large-community', 32, 'large-community', [f'65000:{i + 1}:7' for i in range(n)], lambda s: struct.pack('!LLL', *map(int, s.split(':'))), 12)
    for n in (31, 32, 33):
        listcase('extended-community', 16, 'extended-community', [f'target:65000:{i + 1}' for i in range(n)],
                 lambda s: b'\x00\x02' + struct.pack('!HL', int(s.split(':')[1]), int(s.split(':')[2])), 8)
    for n in (254, 255, 256, 257, 4000):
        data = bytes((i * 7 + 1) & 0xFF for i in range(n))
        text = f'{BASE4} attribute [ 0x99 0xc0 0x{data.hex()} ]'

        def chk(upd, sess, data=data):
            for fl, code, val in upd['attrs']:
                if code == 0x99:
                    return None if bytes(val) == data and (fl & 0xEF) == 0xC0 else f'attribute 0x99 carries {len(val)} octets with flags {fl:#x}, written {len(data)} octets'
            return 'attribute 0x99 is not in the message'

        out.append(('attribute-length', f'generic-attribute-{n}-octets', {'conf': 'static { %s; }' % text, 'prt': text, 'api': 'peer * announce ' + text},
                    True, chk, n > 3000))
    return out


def ext_length_consistent(upd):
    """RFC 4271 4.3: the extended-length bit is for values longer than 255 octets (and is needed for them)."""
    for fl, code, val in upd['attrs']:
        if bool(fl & 0x10) != (len(val) > 255) and code not in (14, 15):
            return f'attribute {code}: {len(val)} octets with flags {fl:#x}'
    return None


def judge_sizes(run, tier, stats):
    cases = size_cases(tier)
    found = []
    hist = collections.Counter()
    for kind, name, texts, sendable, chk, needs_big in cases:
        for entry, t in texts.items():
            res, val = with_watchdog({'conf': run_conf, 'prt': run_prt, 'api': run_api}[entry], t, 60)
            stats['texts'] += 1
            hist[f'{kind}:{res}'] += 1
            short = t if len(t) < 300 else t[:160] + f' ...({len(t)} chars)... ' + t[-80:]
            if res == 'R':
                if sendable:
                    found.append((f'refused-but-valid:size:{kind}', f'{entry}: {name}: every value is ordinary and the encoding fits the wire format, but it is refused: '
                                  f'{val.strip()[-140:]!r}', {'name': name, 'texts': {entry: short}}))
                continue
            if res != 'A':
                cls = val.get('cls') if isinstance(val, dict) else 'no-reply'
                found.append((f'exception:{cls}:size:{kind}', f'{entry}: {name}: {val}', {'name': name, 'texts': {entry: short}}))
                continue
            if not sendable:
                found.append(('accepted-but-cannot-encode:attribute-over-65535-octets' if kind == 'attribute-over-65535' else f'accepted-but-cannot-encode:size:{kind}', f'{entry}: {name} is accepted although no session can carry it (it does not fit the length field / the largest message)',
                              {'name': name, 'texts': {entry: short}}))
                continue
            if len(val) != 1:
                found.append((f'accepted-without-route:size:{kind}', f'{entry}: {name}: {len(val)} routes', {'name': name, 'texts': {entry: short}}))
                continue
            for sess in sessions():
                # what does not fit a 4096-octet message is carried by the extended-message sessions only (and the last
                # octets before 65535 by the sessions that add no LOCAL_PREF): the session's limit, not the parser's
                if callable(needs_big):
                    if not needs_big(sess):
                        continue
                elif needs_big and sess.msg_size == 4096:
                    continue
                try:
                    msgs = encode_decode(val[0], sess)
                except Exception as e:
                    info = exc_info(e)
                    found.append((f'accepted-but-cannot-encode:size:{kind}', f'{entry}: {name} accepted, then {info["cls"]} "{info["msg"]}" at {info["where"]} for {sess.key}',
                                  {'name': name, 'session': sess.key, 'texts': {entry: short}}))
                    break
                stats['encodes'] += 1
                upd = read_update(msgs[0]) if len(msgs) == 1 else None
                if upd is None:
                    found.append((f'accepted-but-not-sent:size:{kind}', f'{entry}: {name}: {len(msgs)} messages / not a well framed UPDATE for {sess.key}',
                                  {'name': name, 'session': sess.key, 'texts': {entry: short}}))
                    break
                stats['compares'] += 1
                why = chk(upd, sess) or ext_length_consistent(upd)
                if why:
                    found.append((f'accepted-but-wrapped:size:{kind}', f'{entry}: {name} for {sess.key}: {why}', {'name': name, 'session': sess.key, 'texts': {entry: short}}))
                    break
                try:
                    dec = decode(msgs[0], sess)
                    [str(r.nlri) for r in dec.announces]
                    str(dec.attributes)
                except Exception as e:
                    info = exc_info(e)
                    found.append((f'accepted-but-undecodable:size:{kind}', f'{entry}: {name}: the real decoder raises {info["cls"]} "{info["msg"]}" at {info["where"]} for {sess.key}',
                                  {'name': name, 'session': sess.key, 'texts': {entry: short}}))
                    break
    run.obligation(f'property oracle: {len(cases)} texts of ordinary values whose ENCODED SIZE sits on a wire boundary (flow NLRI 238..242, 254..257, 4093..4097 octets, ipv4 '
                   'and ipv6; 254..257 and 510/511 ASNs in one segment; community / large / extended community lists and a generic attribute across 255 octets): '
                   'refused only when no length field can hold it, otherwise sent and read back octet for octet as written',
                   not found, f'{len(found)} failing; first: {found[0][:2] if found else ""}')
    return found, {'size_boundary_texts': len(cases), 'size_boundary_outcomes': dict(hist)}
