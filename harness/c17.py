"""C17 - Configuration reload applies the difference, or nothing at all.  H-reload.

Real code driven: Configuration([file]).reload() through the real Reactor.reload() on real temporary
files, real Peer.reconfigure / reestablish / remove / _reset, real OutgoingRIBs shared through
RIB._cache, the real API dispatcher for API-announced routes.  Sessions are never connected: the
RIB-level steps Peer._main runs are emulated (replace_restart at establishment, the deferred
replace_reload of an established peer, updates() consumed element-wise, the first generator of a
session sent without its withdraws)."""

from __future__ import annotations

import collections
import copy
import os
import random
import re

from harness import apirig, common
from harness.common import Run

IPS = ['127.0.0.2', '127.0.0.3', '127.0.0.4']
PREFIXES = [f'10.0.{i}.0/24' for i in range(6)]
NHS = ['192.0.2.1', '192.0.2.2']
ATTRS = ['med 1', 'med 3', 'med 3 community [ 65000:1 ]', '']
HOLDS = [180, 90]
PEER_AS = [65001, 65002]
SERVICE = 'api-internal-cli-verif'  # a service with this prefix matches every peer (Reactor.peers)


# ------------------------------------------------------------------------------- configuration text


def route_text(rt):
    p, h, a = rt
    return f'{PREFIXES[p]} next-hop {NHS[h]}' + (f' {ATTRS[a]}' if ATTRS[a] else '')


def nb_lines(nb):
    """-> list of (kind, text) for one neighbor section"""
    out = [('open', f'neighbor {nb["ip"]} {{')]
    out.append(('param:router-id', '  router-id 1.2.3.4;'))
    out.append(('param:local-address', '  local-address 127.0.0.1;'))
    out.append(('param:local-as', '  local-as 65000;'))
    out.append(('param:peer-as', f'  peer-as {nb["peer_as"]};'))
    out.append(('param:hold-time', f'  hold-time {nb["hold"]};'))
    out.append(('static-open', '  static {'))
    for rt in nb['routes']:
        out.append(('route', f'    route {route_text(rt)};'))
    out.append(('static-close', '  }'))
    out.append(('close', '}'))
    return out


FAULT_KINDS = ['unknown', 'badvalue', 'raise-community', 'raise-nexthop', 'raise-prefix', 'drop-brace', 'extra-brace', 'missing']


def fault_applicable(kind, line_kind):
    if kind == 'unknown':
        return True
    if kind == 'badvalue':
        return line_kind.startswith('param:') or line_kind == 'route'
    if kind.startswith('raise-'):
        return line_kind == 'route'
    if kind == 'drop-brace':
        return line_kind in ('static-close', 'close')
    if kind == 'extra-brace':
        return line_kind.startswith('param:') or line_kind == 'route'
    if kind == 'missing':
        return line_kind in ('param:local-as', 'param:peer-as')
    return False


def render(nbs, fault=None):
    """configuration text; fault = (kind, neighbor index, line index inside that neighbor section)"""
    lines = []
    for i, nb in enumerate(nbs):
        for j, (lk, text) in enumerate(nb_lines(nb)):
            if fault is not None and fault[1] == i and fault[2] == j:
                kind = fault[0]
                if kind == 'unknown':
                    if lk.startswith('param:') or lk == 'route':
                        lines.append('  frobnicate 1;')
                    else:
                        lines.append('  frobnicate 1;')
                        lines.append(text)
                elif kind == 'badvalue':
                    if lk == 'route':
                        lines.append(text[:-1] + ' med abc;')
                    else:
                        lines.append(f'  {lk.split(":", 1)[1]} @bad@;')
                elif kind == 'raise-community':
                    lines.append(text[:-1] + ' community [ 70000:1 ];')
                elif kind == 'raise-nexthop':
                    lines.append(re.sub(r'next-hop \S+', 'next-hop 192.0.2.999', text))
                elif kind == 'raise-prefix':
                    lines.append(re.sub(r'route \S+', 'route 10.0.300.0/24', text))
                elif kind == 'drop-brace':
                    pass
                elif kind == 'extra-brace':
                    lines.append('  }')
                    lines.append(text)
                elif kind == 'missing':
                    pass
                continue
            lines.append(text)
    return '\n'.join(lines) + '\n'


# ------------------------------------------------------------------------------- implementation side


def reloads_of(case):
    """the reloads of a case, in order: dict(cfg=neighbors or None for a missing file, fault=...)"""
    if 'reloads' in case:
        return case['reloads']
    out = [{'cfg': case['new'], 'fault': case.get('fault')}]
    if case.get('then') is not None:
        out.append({'cfg': case['then'], 'fault': None})
    return out


class Ids:
    """real objects -> small integers shared by the implementation run and the model terms"""

    def __init__(self):
        self.idx, self.attr, self.nh, self.name, self.param = {}, {}, {}, {}, {}

    @staticmethod
    def _get(d, k):
        return d.setdefault(k, len(d) + 1)

    def route(self, r):
        fam = r.nlri.family().afi_safi()
        return (self._get(self.idx, bytes(r.index())), 0 if int(fam[0]) == 1 else 1,
                self._get(self.attr, bytes(r.attributes.index())), self._get(self.nh, bytes(r.nexthop.index())))

    def nlri(self, nlri):
        return self._get(self.idx, bytes(b'%02x%02x' % nlri.family().afi_safi() + nlri.index()))

    def nbname(self, name):
        return self._get(self.name, name)

    def params(self, n):
        # what Neighbor.__eq__ compares and the generator varies
        return self._get(self.param, (int(n.hold_time), bool(n.group_updates), str(n.session.peer_as)))


def previous_routes(neighbor):
    """the `previous` argument Peer._main / Peer.reconfigure give to replace_restart / replace_reload:
    read from the source of Peer._main so that the emulation follows the code (fail closed)"""
    import inspect
    from exabgp.reactor.peer import Peer

    src = inspect.getsource(Peer._main)
    if 'previous = self.neighbor.replaced_routes()' in src:
        return neighbor.replaced_routes()
    if 'previous = self.neighbor.previous.routes if self.neighbor.previous else []' in src:
        return neighbor.previous.routes if neighbor.previous else []
    raise RuntimeError('Peer._main: the establishment step is not the one this harness emulates')


_MAIN_SHAPE = {}


def main_shape():
    """which of the bookkeeping statements around replace_restart / replace_reload Peer._main really has, read
    from its source (ast) so that the emulation does what the code does and nothing more:
      restart_clears : `self.neighbor.previous = None` follows replace_restart(...) before the loop
      reload_clears  : `self._neighbor.previous = None` follows replace_reload(...) in the loop's reload branch"""
    if _MAIN_SHAPE:
        return _MAIN_SHAPE
    import ast
    import inspect
    import textwrap
    from exabgp.reactor.peer import Peer

    fn = ast.parse(textwrap.dedent(inspect.getsource(Peer._main))).body[0]

    def is_call(stmt, name):
        return any(isinstance(n, ast.Call) and isinstance(n.func, ast.Attribute) and n.func.attr == name for n in ast.walk(stmt))

    def clears(stmt, target):
        return (isinstance(stmt, ast.Assign) and len(stmt.targets) == 1 and ast.unparse(stmt.targets[0]) == target
                and isinstance(stmt.value, ast.Constant) and stmt.value.value is None)

    def after(block, name, target):
        """in the statement list holding the call `name`, is `target = None` among the statements after it?"""
        for i, stmt in enumerate(block):
            if isinstance(stmt, (ast.Expr, ast.Assign)) and is_call(stmt, name):
                return any(clears(x, target) for x in block[i + 1:])
            for field in ('body', 'orelse', 'finalbody'):
                sub = getattr(stmt, field, None)
                if isinstance(sub, list) and sub and isinstance(sub[0], ast.stmt):
                    r = after(sub, name, target)
                    if r is not None:
                        return r
            for h in getattr(stmt, 'handlers', []) or []:
                r = after(h.body, name, target)
                if r is not None:
                    return r
        return None

    rs = after(fn.body, 'replace_restart', 'self.neighbor.previous')
    rl = after(fn.body, 'replace_reload', 'self._neighbor.previous')
    if rs is None or rl is None:
        raise RuntimeError('Peer._main: replace_restart / replace_reload are not where this harness emulates them')
    _MAIN_SHAPE.update(restart_clears=rs, reload_clears=rl)
    return _MAIN_SHAPE


class Sess:
    """the remote end of one neighbor name + the part of Peer._main that consumes the RIB"""

    def __init__(self):
        self.up = False
        self.fresh = False
        self.cur = None
        self.buf = []
        self.table = {}
        self.sent = []  # everything put on the wire, in order: (3, idx, attr, nh) | (4, idx, 0, 0)
        self.gens = []


class FileRig(apirig.Rig):
    """apirig.Rig on a configuration FILE; the service name matches every peer without any api section"""

    def __init__(self, path):
        import asyncio
        from exabgp.environment import getenv
        from exabgp.configuration.configuration import Configuration
        from exabgp.reactor.loop import Reactor
        from exabgp.reactor.peer import Peer

        getenv().api.version = 6
        self.service = SERVICE
        self.configuration = Configuration([path])
        self.reactor = Reactor(self.configuration)
        self.processes = apirig.RecProcesses()
        self.reactor.processes = self.processes
        self.loop = asyncio.new_event_loop()
        self.first = self.reactor.reload()  # creates the Peers exactly as the daemon does at start-up
        self.Peer = Peer


class Impl:
    def __init__(self, case, workdir):
        from exabgp.rib import RIB

        RIB._cache.clear()  # class-level cache: one process-wide daemon per case
        self.case = case
        self.ids = Ids()
        self.path = os.path.join(workdir, 'exabgp.conf')
        self.sess = {}  # neighbor name -> Sess
        self.parse_log = []  # per configuration.reload(): dict(prefix=[(name, params, routes)], result='true'|'false'|'raised')
        self.trace = []  # model-level schedule actually performed
        self.reload_returns = []

    # -- instrumentation (from outside the repository)
    def _instrument(self):
        from exabgp.configuration.neighbor import ParseNeighbor
        from exabgp.configuration.configuration import Configuration

        me = self
        self._orig_init = ParseNeighbor._init_neighbor
        self._orig_parse = Configuration.parse_section

        def init_neighbor(pn, neighbor, local, *more):
            r = me._orig_init(pn, neighbor, local, *more)
            if me.parse_log and me.parse_log[-1]['open']:
                me.parse_log[-1]['prefix'].append(
                    (me.ids.nbname(neighbor.name()), me.ids.params(neighbor), [me.ids.route(x) for x in neighbor.routes]))
            return r

        def parse_section(cfg, name):
            if name != 'root':
                return me._orig_parse(cfg, name)
            entry = {'prefix': [], 'result': 'raised', 'open': True}
            me.parse_log.append(entry)
            try:
                r = me._orig_parse(cfg, name)
                entry['result'] = 'true' if r is True else 'false'
                return r
            finally:
                entry['open'] = False

        ParseNeighbor._init_neighbor = init_neighbor
        Configuration.parse_section = parse_section

    def _restore(self):
        from exabgp.configuration.neighbor import ParseNeighbor
        from exabgp.configuration.configuration import Configuration

        ParseNeighbor._init_neighbor = self._orig_init
        Configuration.parse_section = self._orig_parse

    # -- steps
    def write(self, text):
        if text is None:
            if os.path.exists(self.path):
                os.remove(self.path)
        else:
            with open(self.path, 'w') as f:
                f.write(text)

    def peer_of(self, ip):
        for key, peer in self.rig.reactor._peers.items():
            if str(peer.neighbor.session.peer_address).split('/')[0] == ip:
                return key, peer
        return None, None

    def sess_of(self, key):
        return self.sess.setdefault(key, Sess())

    def cycle(self, key, peer):
        """a pending teardown is acted upon: the real Peer._reset (reset_rib, hand-over of peer._neighbor)"""
        s = self.sess_of(key)
        peer._reset('reload', 'teardown 3')
        s.up, s.fresh, s.cur, s.buf, s.table = False, False, None, [], {}
        self.trace.append(('drop', self.ids.nbname(key)))

    def establish(self, ip):
        """Peer._main up to the main loop: replace_restart(previous routes, current routes)"""
        from exabgp.bgp.fsm import FSM

        key, peer = self.peer_of(ip)
        if peer is None:
            return
        s = self.sess_of(key)
        if s.up:
            return
        if peer._teardown:
            self.cycle(key, peer)  # Peer._main: `if self._teardown: raise Notify(6, 3)`, then the peer starts again
        n = peer.neighbor
        previous = previous_routes(n)
        n.rib.outgoing.replace_restart(previous, n.routes)
        if main_shape()['restart_clears']:
            n.previous = None
        peer.fsm.change(FSM.ESTABLISHED)
        s.up, s.fresh, s.cur, s.buf, s.table = True, True, None, [], {}
        self.trace.append(('establish', self.ids.nbname(key)))

    def _flatten(self, item):
        from exabgp.bgp.message.update.collection import UpdateCollection

        if not isinstance(item, UpdateCollection):
            raise RuntimeError(f'unexpected generator item {item!r}')
        out = [(4, self.ids.nlri(nlri), 0, 0) for nlri in item.withdraws]
        aid = self.ids._get(self.ids.attr, bytes(item.attributes.index()))
        for rn in item.announces:
            out.append((3, self.ids.nlri(rn.nlri), aid, self.ids._get(self.ids.nh, bytes(rn.nexthop.index()))))
        return out

    def _fetch(self, s):
        while s.cur is not None:
            try:
                item = next(s.cur)
            except StopIteration:
                s.cur = None
                return
            eff = [u for u in self._flatten(item) if not (u[0] == 4 and not s.include_withdraw)]
            if eff:
                s.buf.append(eff)
                return

    def start(self, ip):
        key, peer = self.peer_of(ip)
        if peer is None:
            return
        s = self.sess_of(key)
        self.trace.append(('start', self.ids.nbname(key)))
        if not s.up or s.cur is not None or s.buf or not peer.neighbor.rib.outgoing.pending():
            return
        s.cur = peer.neighbor.rib.outgoing.updates(False)
        s.include_withdraw = not s.fresh
        s.fresh = False
        s.gens.append([])
        self._fetch(s)

    def emit(self, ip, count):
        key, peer = self.peer_of(ip)
        if peer is None:
            return 0
        s = self.sess_of(key)
        done = 0
        while done < count and s.up and s.buf:
            for u in s.buf.pop(0):
                s.sent.append(u)
                s.gens[-1].append(u)
                if u[0] == 3:
                    s.table[u[1]] = (u[2], u[3])
                else:
                    s.table.pop(u[1], None)
                done += 1
                self.trace.append(('emit', self.ids.nbname(key)))
            self._fetch(s)
        return done

    def drain(self, ip):
        for _ in range(4):
            self.start(ip)
            while self.emit(ip, 1000):
                pass

    def api(self, line):
        ok, calls = self.rig.command(line)
        names = [c[0] for c in calls]
        return bool(ok) and not any(n.startswith('answer_error') for n in names)

    def api_route(self, ip, action, rt):
        """an API announcement / withdrawal for one peer; recorded as the model operation on that RIB"""
        key, peer = self.peer_of(ip)
        if peer is None:
            return False
        before = {bytes(r.index()): r for r in peer.neighbor.rib.outgoing.cached_routes()}
        ok = self.api(f'peer {ip} {action} route {route_text(rt)}')
        if not ok:
            return False
        after = {bytes(r.index()): r for r in peer.neighbor.rib.outgoing.cached_routes()}
        if action == 'announce':
            new = [r for k, r in after.items() if PREFIXES[rt[0]] in str(r.nlri)]
            if new:
                self.trace.append(('ann', self.ids.nbname(key), self.ids.route(new[-1])))
        else:
            i = None
            for k, r in before.items():
                if PREFIXES[rt[0]] in str(r.nlri):
                    i = self.ids.route(r)
            if i is None:
                # withdrawing something that is not cached: the index is still needed for the model
                rs = self.rig.configuration.parse_route_text(f'route {route_text(rt)}')
                i = self.ids.route(peer.neighbor.resolve_self(rs[0]))
            self.trace.append(('wd', self.ids.nbname(key), i))
        return True

    def api_probe(self):
        """one more `announce route` for every peer; recorded as model operations on every peer's RIB"""
        ok = self.api('peer * announce route 10.99.0.0/24 next-hop 192.0.2.9')
        self.matching_peers = len(self.rig.reactor.peers(SERVICE))
        if not ok:
            return False
        for key, peer in self.rig.reactor._peers.items():
            got = [r for r in peer.neighbor.rib.outgoing.cached_routes() if '10.99.0.0/24' in str(r.nlri)]
            if not got:
                return False
            self.trace.append(('ann', self.ids.nbname(key), self.ids.route(got[-1])))
        return True

    def reload(self, text):
        """the daemon's SIGUSR1 path: Reactor.reload(), then what the peers do on their next iteration"""
        from exabgp.bgp.fsm import FSM

        self.write(text)
        n0 = len(self.parse_log)
        ret = self.rig.reactor.reload()
        self.reload_returns.append(ret)
        entry = self.parse_log[n0] if len(self.parse_log) > n0 else None
        if entry is None:
            outcome = ('nofile',)
        elif entry['result'] == 'true':
            outcome = ('parsed', entry['prefix'])
        else:
            outcome = ('failed', entry['result'] == 'false', entry['prefix'])
        self.trace.append(('reload', outcome))
        # what the peers and the main loop do next
        for key, peer in list(self.rig.reactor._peers.items()):
            s = self.sess_of(key)
            if peer._teardown and not peer._restart:
                # removed: Notify(6,3), the task ends, the main loop forgets the peer
                s.up, s.cur, s.buf, s.table = False, None, [], {}
                del self.rig.reactor._peers[key]
            elif not peer._teardown and peer._neighbor is not None and peer.fsm == FSM.ESTABLISHED:
                # Peer._main, top of the loop
                previous = previous_routes(peer._neighbor)
                current = peer._neighbor.routes
                peer.neighbor.rib.outgoing.replace_reload(previous, current)
                if main_shape()['reload_clears']:
                    peer._neighbor.previous = None
                peer._neighbor = None
        self.step_obs.append(self.observe()['ribs'])
        for key, peer in list(self.rig.reactor._peers.items()):
            s = self.sess_of(key)
            if peer._teardown and peer._restart:
                # an established session leaves its loop at once (Notify 6/3, Peer._reset); one that is down
                # cycles at once, or only when the remote end shows up (a passive neighbor nobody connects to):
                # until then peer.neighbor is still the OLD definition
                ip = str(peer.neighbor.session.peer_address).split('/')[0]
                if s.up or self.case.get('cycle', {}).get(ip, 'at-once') == 'at-once':
                    self.cycle(key, peer)
        return ret, outcome

    # -- observation
    def snapshot(self):
        """everything the property says must not move on a failed reload"""
        from exabgp.rib import RIB

        cfg = self.rig.configuration
        snap = {'neighbors': {}, 'ribs': {}, 'peers': {}, 'sessions': {}}
        for key, n in cfg.neighbors.items():
            snap['neighbors'][key] = sorted(self.ids.route(r) for r in n.routes)
        for name, rib in RIB._cache.items():
            if name.startswith('disabled-'):
                continue
            o = rib.outgoing
            snap['ribs'][name] = {
                'cached': sorted(self.ids.route(r) for r in o.cached_routes()),
                'queued': sorted(self.ids.route(r) for r in o.queued_routes()),
                'withdraws': sorted(self.ids.nlri(nlri) for fam in o._pending_withdraws.values() for nlri, _ in fam.values()),
                'pending': o.pending(),
            }
        for key, peer in self.rig.reactor._peers.items():
            snap['peers'][key] = (self.ids.params(peer.neighbor), sorted(self.ids.route(r) for r in peer.neighbor.routes),
                                  peer._teardown, peer._neighbor is not None, str(peer.fsm.state))
        for key in self.rig.reactor._peers:
            s = self.sess.get(key) or Sess()
            snap['sessions'][key] = (s.up, dict(s.table), len(s.sent))
        snap['processes'] = sorted(cfg.processes)
        return snap

    def observe(self):
        """the model's observation format (see Model_Reload.observe)"""
        from exabgp.rib import RIB

        cfg = self.rig.configuration
        out = {'neighbors': {}, 'ribs': {}, 'peers': {}}
        for key, n in cfg.neighbors.items():
            out['neighbors'][self.ids.nbname(key)] = (self.ids.params(n), [self.ids.route(r) for r in n.routes])
        for key, peer in self.rig.reactor._peers.items():
            out['peers'][self.ids.nbname(key)] = (self.ids.params(peer.neighbor), self.ids.params(peer._neighbor) if peer._neighbor is not None else 0)
        for name, rib in RIB._cache.items():
            if name.startswith('disabled-'):
                continue
            o = rib.outgoing
            s = self.sess.get(name) or Sess()
            out['ribs'][self.ids.nbname(name)] = {
                'seen': sorted((i, a, h) for i, f, a, h in (self.ids.route(r) for r in o.cached_routes())),
                'queued': sorted((i, a, h) for i, f, a, h in (self.ids.route(r) for r in o.queued_routes())),
                'withdraws': sorted(self.ids.nlri(nlri) for fam in o._pending_withdraws.values() for nlri, _ in fam.values()),
                'peer': dict(s.table),
                'up': s.up,
            }
        return out

    # -- a whole case
    def set_down_states(self):
        """every session that is not established sits in the FSM state the case names for its address"""
        from exabgp.bgp.fsm import FSM

        states = self.case.get('fsm', {})
        for key, peer in self.rig.reactor._peers.items():
            s = self.sess_of(key)
            if s.up:
                continue
            ip = str(peer.neighbor.session.peer_address).split('/')[0]
            peer.fsm.change(getattr(FSM, states.get(ip, 'IDLE')))

    def run(self):
        c = self.case
        self.write(render(c['old']))
        self._instrument()
        try:
            self.rig = FileRig(self.path)
            if self.rig.first is not True:
                raise RuntimeError(f'old configuration rejected: {self.rig.configuration.error}')
            first = self.parse_log[0]
            self.reload_returns.append(self.rig.first)
            self.trace.append(('load', first['prefix']))
            self.step_obs = [self.observe()['ribs']]
            for step in c['pre']:
                self.do(step)
            self.steps = []
            for rl in reloads_of(c):
                self.set_down_states()
                st = {'before': self.snapshot()}
                text = None if rl['cfg'] is None else render(rl['cfg'], rl.get('fault'))
                st['ret'], st['outcome'] = self.reload(text)
                st['after'] = self.snapshot()
                st['api_ok'] = None
                if st['outcome'][0] != 'parsed':
                    st['api_ok'] = self.api_probe()  # the API keeps working
                self.steps.append(st)
            self.ret, self.outcome = self.steps[0]['ret'], self.steps[0]['outcome']
            self.sent_mark = {k: len(s.sent) for k, s in self.sess.items()}
            self.up_at_mark = {k: s.up for k, s in self.sess.items()}
            # API operations that arrive while the sessions torn down by the reloads are not back yet
            self.mid_done = [self.do(step) for step in c.get('mid', [])]
            self.round_obs = []
            self.rounds_done = []
            for rnd in [[]] + list(c.get('rounds', [])):
                # what happens between two establishments: API operations, session losses
                self.rounds_done.append([self.do(step) for step in rnd])
                self.set_down_states()
                for ip in IPS:
                    self.establish(ip)
                for ip in IPS:
                    self.drain(ip)
                self.round_obs.append(self.observe()['ribs'])
                if len(self.round_obs) == 1:
                    self.sent_after = {k: s.sent[self.sent_mark.get(k, 0):] for k, s in self.sess.items()}
            self.final = self.observe()
            self.final_stale = [self.ids.nbname(k) for k in self.rig.configuration.neighbor.neighbors]
        finally:
            self._restore()
            try:
                self.rig.close()
            except Exception:
                pass
        return self

    def drop(self, ip):
        """the session is lost: the real Peer._reset (reset_rib, FSM to IDLE, neighbor hand-over); the remote end forgets everything"""
        key, peer = self.peer_of(ip)
        if peer is None:
            return False
        s = self.sess_of(key)
        if not s.up:
            return False
        peer._reset('session lost', 'emulated by the harness')
        s.up, s.fresh, s.cur, s.buf, s.table = False, False, None, [], {}
        self.trace.append(('drop', self.ids.nbname(key)))
        return True

    def do(self, step):
        kind = step[0]
        if kind == 'establish':
            self.establish(step[1])
        elif kind == 'api':
            return self.api_route(step[1], step[2], step[3])
        elif kind == 'drop':
            return self.drop(step[1])
        elif kind == 'start':
            self.start(step[1])
        elif kind == 'emit':
            self.emit(step[1], step[2])
        elif kind == 'drain':
            self.drain(step[1])
        else:
            raise RuntimeError(step)


# ------------------------------------------------------------------------------- model side

HEADER = """From Coq Require Import ZArith Bool List.
From ExaV Require Import lib.Amap model.Model_Rib model.Model_Reload.
Import ListNotations. Open Scope Z_scope.
Definition R (i f a h : Z) : route := {| ridx := i; rfam := f; rattr := a; rnh := h |}.
Definition C (p : Z) (l : list route) : ncfg := {| nparams := p; nroutes := l |}.
"""


def coq_route(t):
    i, f, a, h = t
    return f'R {i} {f} {a} {h}'


def coq_cfg(prefix):
    return '[' + '; '.join(f'({n}, C {p} [' + '; '.join(coq_route(x) for x in rs) + '])' for n, p, rs in prefix) + ']'


def coq_trace(trace):
    parts = []
    for t in trace:
        k = t[0]
        if k == 'load':
            parts.append(f'Reload (Parsed {coq_cfg(t[1])})')
        elif k == 'reload':
            o = t[1]
            if o[0] == 'nofile':
                parts.append('Reload NoFile')
            elif o[0] == 'parsed':
                parts.append(f'Reload (Parsed {coq_cfg(o[1])})')
            else:
                parts.append(f'Reload (Failed {"true" if o[1] else "false"} {coq_cfg(o[2])})')
        elif k == 'establish':
            parts.append(f'RibOp {t[1]} Establish')
        elif k == 'ann':
            parts.append(f'RibOp {t[1]} (Ann ({coq_route(t[2])}))')
        elif k == 'wd':
            parts.append(f'RibOp {t[1]} (Wd ({coq_route(t[2])}))')
        elif k == 'drop':
            parts.append(f'RibOp {t[1]} Drop')
        elif k == 'start':
            parts.append(f'RibOp {t[1]} Start')
        elif k == 'emit':
            parts.append(f'RibOp {t[1]} Emit')
        else:
            raise RuntimeError(t)
    return '[' + '; '.join(parts) + ']'


def parse_obs(zs):
    """Model_Reload.observe -> dict comparable with Impl.observe()"""
    out = {'returns': [], 'after_each_reload': [], 'neighbors': {}, 'stale': [], 'peers': {}, 'ribs': {}}
    groups = []
    for z in zs:
        if z < 0:
            groups.append([z])
        else:
            groups[-1].append(z)
    rib = None
    target = out['ribs']
    for g in groups:
        m, body = g[0], g[1:]
        if m == -11:
            out['returns'].append(bool(body[0]))
            out['after_each_reload'].append({})
            target = out['after_each_reload'][-1]
        elif m == -2:
            target = out['ribs']
        elif m == -10:
            out['neighbors'][body[0]] = (body[1], [tuple(body[k:k + 3]) for k in range(2, len(body), 3)])
        elif m == -3:
            out['stale'] = sorted(body)
        elif m == -4:
            out['peers'] = {body[k]: (body[k + 1], body[k + 2]) for k in range(0, len(body), 3)}
        elif m == -5:
            rib = target.setdefault(body[0], {})
            rib['up'] = bool(body[1])
        elif m == -6:
            rib['seen'] = sorted(tuple(body[k:k + 3]) for k in range(0, len(body), 3))
        elif m == -7:
            rib['peer'] = {body[k]: (body[k + 1], body[k + 2]) for k in range(0, len(body), 3)}
        elif m == -8:
            rib['queued'] = sorted(tuple(body[k:k + 3]) for k in range(0, len(body), 3))
        elif m == -9:
            rib['withdraws'] = sorted(body)
    return out


def impl_obs(im):
    f = im.final
    return {
        'returns': [bool(x) for x in im.reload_returns],
        'after_each_reload': im.step_obs,
        'neighbors': {n: (p, [(i, a, h) for i, fam, a, h in rs]) for n, (p, rs) in f['neighbors'].items()},
        'stale': sorted(im.final_stale),
        'peers': dict(f['peers']),
        'ribs': f['ribs'],
    }


# which tree the model is evaluated for: `tree` is the constant of Model_Reload.v (what /repo is declared to
# be); C17_TREE=pinned|rollback_only|repaired only serves to validate a proposed patch in a scratch worktree
TREE = os.environ.get('C17_TREE', 'tree')


def model_eval(traces, tag):
    shards = common.chunked(list(range(len(traces))), 40)

    def defs(idx):
        return 'Eval vm_compute in [' + ';\n'.join(f'observe {TREE} {coq_trace(traces[i])}' for i in idx) + '].\n'

    res = common.eval_cases(HEADER, defs, shards, tag)
    out = [None] * len(traces)
    ok, logs = True, []
    for shard, (rc, text, parsed) in zip(shards, res):
        if rc != 0 or not parsed:
            ok = False
            logs.append(text[-1500:])
            continue
        lists = re.findall(r'\[([^\[\]]*)\]', parsed[0])
        if len(lists) != len(shard):
            ok = False
            logs.append(f'expected {len(shard)} results, parsed {len(lists)}')
            continue
        for i, l in zip(shard, lists):
            out[i] = [int(x) for x in re.findall(r'-?\d+', l)]
    return ok, out, logs


# ------------------------------------------------------------------------------- generation


def gen_nbs(rng):
    k = rng.choice([2, 2, 3])
    nbs = []
    for i in range(k):
        prefixes = rng.sample(range(len(PREFIXES) - 1), rng.choice([0, 1, 2, 2, 3, 4]))
        nbs.append({'ip': IPS[i], 'peer_as': PEER_AS[0], 'hold': HOLDS[0],
                    'routes': [(p, rng.randrange(len(NHS)), rng.randrange(len(ATTRS))) for p in sorted(prefixes)]})
    return nbs


MUTATIONS = ['route-added', 'route-removed', 'attr-changed', 'nexthop-changed', 'neighbor-added', 'neighbor-removed',
             'hold-time-changed', 'peer-as-changed', 'nothing']


def mutate(rng, old):
    """-> (new configuration, list of differences applied)"""
    new = copy.deepcopy(old)
    applied = []
    for _ in range(rng.choice([1, 1, 2, 3])):
        m = rng.choice(MUTATIONS)
        nb = rng.choice(new)
        used = {r[0] for r in nb['routes']}
        if m == 'route-added':
            free = [p for p in range(len(PREFIXES) - 1) if p not in used]
            if not free or len(nb['routes']) >= 4:
                continue
            nb['routes'].append((rng.choice(free), rng.randrange(len(NHS)), rng.randrange(len(ATTRS))))
        elif m == 'route-removed':
            if not nb['routes']:
                continue
            nb['routes'].pop(rng.randrange(len(nb['routes'])))
        elif m == 'attr-changed':
            if not nb['routes']:
                continue
            j = rng.randrange(len(nb['routes']))
            p, h, a = nb['routes'][j]
            nb['routes'][j] = (p, h, (a + rng.choice([1, 2, 3])) % len(ATTRS))
        elif m == 'nexthop-changed':
            if not nb['routes']:
                continue
            j = rng.randrange(len(nb['routes']))
            p, h, a = nb['routes'][j]
            nb['routes'][j] = (p, 1 - h, a)
        elif m == 'neighbor-added':
            if len(new) >= 3:
                continue
            ip = next(x for x in IPS if x not in [n['ip'] for n in new])
            prefixes = rng.sample(range(len(PREFIXES) - 1), rng.choice([0, 1, 2]))
            new.append({'ip': ip, 'peer_as': PEER_AS[0], 'hold': HOLDS[0],
                        'routes': [(p, rng.randrange(2), rng.randrange(len(ATTRS))) for p in sorted(prefixes)]})
        elif m == 'neighbor-removed':
            if len(new) <= 1:
                continue
            new.remove(nb)
        elif m == 'hold-time-changed':
            nb['hold'] = HOLDS[1] if nb['hold'] == HOLDS[0] else HOLDS[0]
        elif m == 'peer-as-changed':
            nb['peer_as'] = PEER_AS[1] if nb['peer_as'] == PEER_AS[0] else PEER_AS[0]
        applied.append(m)
    return new, applied


def gen_pre(rng, old):
    """sessions up or down, API routes, generators drained / half consumed / not started"""
    pre = []
    for nb in old:
        ip = nb['ip']
        up = rng.random() < 0.6
        if up:
            pre.append(('establish', ip))
            if rng.random() < 0.8:
                pre.append(('drain', ip))
        for _ in range(rng.choice([0, 0, 1, 1, 2])):
            rt = (rng.randrange(len(PREFIXES)), rng.randrange(len(NHS)), rng.randrange(len(ATTRS)))
            pre.append(('api', ip, 'announce' if rng.random() < 0.8 else 'withdraw', rt))
        if up:
            x = rng.random()
            if x < 0.6:
                pre.append(('drain', ip))
            elif x < 0.8:
                pre.append(('start', ip))
                pre.append(('emit', ip, rng.choice([0, 1, 2])))
    return pre


def all_faults(nbs):
    """every applicable (kind, neighbor, line)"""
    out = []
    for i, nb in enumerate(nbs):
        for j, (lk, _) in enumerate(nb_lines(nb)):
            for kind in FAULT_KINDS:
                if fault_applicable(kind, lk):
                    out.append((kind, i, j))
    return out


# ------------------------------------------------------------------------------- property oracle (text level)


def nbkey(nb):
    return (nb['ip'], nb['peer_as'])


def api_intent(case):
    """(ip, peer-as) -> {prefix index: (nh, attr)} announced through the API and not withdrawn since"""
    out = collections.defaultdict(dict)
    key_of_ip = {nb['ip']: nbkey(nb) for nb in case['old']}
    for step in case['pre']:
        if step[0] == 'api' and step[1] in key_of_ip:
            p, h, a = step[3]
            if step[2] == 'announce':
                out[key_of_ip[step[1]]][p] = (h, a)
            else:
                out[key_of_ip[step[1]]].pop(p, None)
    return out


def api_withdrawn(case):
    out = collections.defaultdict(set)
    key_of_ip = {nb['ip']: nbkey(nb) for nb in case['old']}
    for step in case['pre']:
        if step[0] == 'api' and step[1] in key_of_ip:
            if step[2] == 'withdraw':
                out[key_of_ip[step[1]]].add(step[3][0])
            else:
                out[key_of_ip[step[1]]].discard(step[3][0])
    return out


def table_before(case):
    """what every old neighbor's peer should hold before the reload: file routes, API on top"""
    out = {}
    api = api_intent(case)
    wd = api_withdrawn(case)
    for nb in case['old']:
        t = {p: (h, a) for p, h, a in nb['routes']}
        # the order of API operations relative to the file is: file first
        for step in case['pre']:
            if step[0] == 'api' and step[1] == nb['ip']:
                p, h, a = step[3]
                if step[2] == 'announce':
                    t[p] = (h, a)
                else:
                    t.pop(p, None)
        out[nbkey(nb)] = t
    return out


def expected_tables(case, old, new, probe):
    """success oracle: (ip, peer-as) -> {prefix: (nh, attr)}: the new file, plus what was there before
    on prefixes that neither file names (API routes); `probe`: the extra API route announced to all"""
    before = table_before(case)
    oldmap = {nbkey(nb): nb for nb in old}
    out = {}
    for nb in new:
        k = nbkey(nb)
        t = {}
        if k in oldmap:
            oldp = {r[0] for r in oldmap[k]['routes']}
            newp = {r[0] for r in nb['routes']}
            for p, v in before.get(k, {}).items():
                if p not in oldp and p not in newp:
                    t[p] = v
            if probe:
                t['probe'] = True
        for p, h, a in nb['routes']:
            t[p] = (h, a)
        out[k] = t
    return out


class Texts:
    """ids of the implementation run -> text-level values"""

    def __init__(self, im):
        self.idx, self.attr, self.nh = {}, {}, {}
        from exabgp.configuration.setup import create_minimal_configuration

        conf = create_minimal_configuration(families='ipv4 unicast')
        n = next(iter(conf.neighbors.values()))
        for p in range(len(PREFIXES)):
            for h in range(len(NHS)):
                for a in range(len(ATTRS)):
                    rs = conf.parse_route_text('route ' + route_text((p, h, a)))
                    i, f, ai, hi = im.ids.route(n.resolve_self(rs[0]))
                    self.idx[i], self.attr[ai], self.nh[hi] = p, a, h
        rs = conf.parse_route_text('route 10.99.0.0/24 next-hop 192.0.2.9')
        i, f, ai, hi = im.ids.route(n.resolve_self(rs[0]))
        self.idx[i] = 'probe'

    def table(self, t):
        out = {}
        for i, (a, h) in t.items():
            p = self.idx.get(i, ('?', i))
            out[p] = True if p == 'probe' else (self.nh.get(h, ('?', h)), self.attr.get(a, ('?', a)))
        return out


def key_of_name(name):
    m = re.match(r'neighbor (\S+) .* peer-as (\d+) ', name)
    return (m.group(1), int(m.group(2)))


def apply_file(tables, cur, new):
    """text-level effect of one accepted reload on what every peer must hold:
    the new file, plus what was there on prefixes that neither file names (API routes)"""
    curmap = {nbkey(nb): nb for nb in cur}
    out = {}
    for nb in new:
        k = nbkey(nb)
        t = {}
        if k in curmap:
            oldp = {r[0] for r in curmap[k]['routes']}
            newp = {r[0] for r in nb['routes']}
            t = {p: v for p, v in tables.get(k, {}).items() if p not in oldp and p not in newp}
        for p, h, a in nb['routes']:
            t[p] = (h, a)
        out[k] = t
    return out


def judge(case, im):
    """-> list of (sig, what).  Independent of the model: the reloads are followed at text level."""
    probs = []
    tx = Texts(im)
    names = {v: k for k, v in im.ids.name.items()}
    tables = {k: dict(t) for k, t in table_before(case).items()}
    cur = case['old']
    failed_cls = None  # class of the last failed reload
    accepted = 0
    reest, chained = set(), set()  # neighbors re-establishing; ... and reloaded again before they came up
    for rl, st in zip(reloads_of(case), im.steps):
        broken = rl.get('fault') is not None or rl['cfg'] is None
        if st['outcome'][0] == 'parsed':
            if broken:
                return probs + [('NOTE:broken-file-accepted', f'{rl.get("fault")}')]
            if st['ret'] is not True:
                probs.append(('reload:returned-false-on-valid-file', f'reload() returned {st["ret"]!r}'))
            tables = apply_file(tables, cur, rl['cfg'])
            curmap = {nbkey(nb): nb for nb in cur}
            for nb in rl['cfg']:
                k = nbkey(nb)
                if k in reest:
                    chained.add(k)
                if k in curmap and curmap[k]['hold'] != nb['hold']:
                    reest.add(k)
            cur = rl['cfg']
            gone = {k for k in reest | chained if k not in {nbkey(nb) for nb in cur}}
            reest -= gone
            chained -= gone
            accepted += 1
            continue
        # a failed reload: nothing may move
        cls = 'missing-file' if st['outcome'][0] == 'nofile' else ('syntax-error' if st['outcome'][1] else 'exception')
        if not broken:
            where = f'reload-after-failed-reload:valid-file-refused:{failed_cls}' if failed_cls else 'reload:valid-file-refused'
            probs.append((where, f'reload() of a valid file returned {st["ret"]!r}'))
            return probs
        failed_cls = cls
        if st['ret'] is not False:
            probs.append((f'failed-reload:return-value:{cls}', f'reload() returned {st["ret"]!r}'))
        b, a = st['before'], st['after']
        if sorted(a['neighbors']) != sorted(b['neighbors']):
            probs.append((f'failed-reload:neighbors-changed:{cls}',
                          f'configuration.neighbors had {len(b["neighbors"])} neighbors, has {len(a["neighbors"])} after the failed reload'))
        elif a['neighbors'] != b['neighbors']:
            probs.append((f'failed-reload:neighbor-routes-changed:{cls}', 'the routes of a configured neighbor changed'))
        if a['ribs'] != b['ribs']:
            diff = []
            for name in sorted(set(a['ribs']) | set(b['ribs'])):
                ra, rb = a['ribs'].get(name), b['ribs'].get(name)
                if ra != rb:
                    if rb is None:
                        diff.append(f'{key_of_name(name)}: a RIB was created, cached={ra["cached"]} queued={ra["queued"]}')
                    else:
                        diff.append(f'{key_of_name(name)}: cached {rb["cached"]} -> {ra["cached"]}, queued {rb["queued"]} -> {ra["queued"]}, '
                                    f'withdraws {rb["withdraws"]} -> {ra["withdraws"]}')
            probs.append((f'failed-reload:rib-changed:{cls}', '; '.join(diff)))
        if a['peers'] != b['peers'] or a['sessions'] != b['sessions']:
            probs.append((f'failed-reload:sessions-changed:{cls}', f'{b["peers"]} -> {a["peers"]}'))
        if a['processes'] != b['processes']:
            probs.append((f'failed-reload:processes-changed:{cls}', f'{b["processes"]} -> {a["processes"]}'))
        if not st['api_ok']:
            probs.append((f'failed-reload:api-refuses-announce:{cls}', 'after the failed reload `peer * announce route 10.99.0.0/24 next-hop 192.0.2.9` is refused'))
        else:
            for t in tables.values():
                t['probe'] = True

    # the end: every session established and drained
    if failed_cls and accepted:
        sig = f'reload-after-failed-reload:{failed_cls}'
    elif failed_cls:
        sig = f'failed-reload:afterwards:{failed_cls}'
    elif accepted >= 2:
        sig = 'reload-sequence'
    else:
        sig = 'reload'
    want = tables
    cfg_keys = sorted(key_of_name(names[n]) for n in im.final['neighbors'])
    if cfg_keys != sorted(want):
        probs.append((sig + ':neighbors', f'configured neighbors {cfg_keys}, the file has {sorted(want)}'))
        return probs
    peers = sorted(key_of_name(names[n]) for n in im.final['peers'])
    if peers != sorted(want):
        probs.append((sig + ':peers', f'reactor peers {peers}, the file has {sorted(want)}'))
        return probs
    down = {nbkey(nb): case.get('fsm', {}).get(nb['ip'], 'IDLE') for nb in cur}
    key_of_ip = {nb['ip']: nbkey(nb) for nb in cur}

    def api_apply(steps, done, touched):
        """API operations after the reloads act on the intention of the neighbor that now has the address"""
        for step, ok in zip(steps, done):
            if step[0] != 'api' or step[1] not in key_of_ip:
                continue
            k = key_of_ip[step[1]]
            p, h, a = step[3]
            touched.add(k)
            if not ok:
                probs.append((sig + ':api-refused', f'{step} is refused after the reloads'))
                continue
            if step[2] == 'announce':
                want[k][p] = (h, a)
            else:
                want[k].pop(p, None)

    mid_keys = set()
    api_apply(case.get('mid', []), im.mid_done, mid_keys)
    rounds = [[]] + list(case.get('rounds', []))
    for j, (rnd, done, obs) in enumerate(zip(rounds, im.rounds_done, im.round_obs)):
        api_apply(rnd, done, set())
        lost = sorted(step[1] for step, ok in zip(rnd, done) if step[0] == 'drop' and ok)
        got = {}
        for nid, rib in obs.items():
            got[key_of_name(names[nid])] = (rib['up'], tx.table(rib['peer']), rib['queued'], rib['withdraws'])
        for k, t in want.items():
            if k not in got:
                probs.append((sig + ':no-rib', f'{k} has no RIB'))
                continue
            up, table, queued, wds = got[k]
            if j == 0:
                where = sig + ':peer-table' + (':reload-after-parameter-change' if k in chained else '') \
                    + (':api-before-the-session-is-back' if k in mid_keys and k in reest else '')
            else:
                where = sig + ':peer-table:after-a-later-session-loss' + (':of-a-re-established-neighbor' if k in reest else '')
            if not up or queued or wds:
                probs.append((sig + ':not-drained', f'{k}: establishment {j + 1}: up={up} queued={queued} withdraws={wds}'))
            elif table != t:
                probs.append((where, f'{k} (FSM state while down: {down.get(k)}): after establishment {j + 1}'
                              f'{" (sessions lost before it: " + str(lost) + ")" if j else ""} the peer holds {table}, expected {t} '
                              f'(prefix -> (next hop, attribute set)) = files of {accepted} accepted reload(s) + API intent'))
        if j == 0:
            for k in got:
                if k not in want and got[k][1]:
                    probs.append((sig + ':removed-neighbor-still-served', f'{k} is not configured and its peer holds {got[k][1]}'))
            # a route that no current definition names is never announced once the last reload is done
            for name, sent in im.sent_after.items():
                k = key_of_name(name)
                if k not in want or im.up_at_mark.get(name):
                    continue  # an established session may still be sending a generator started before the reload
                for u in sent:
                    if u[0] == 3:
                        p = tx.idx.get(u[1], ('?', u[1]))
                        if p not in want[k]:
                            probs.append((sig + ':announced-removed-route' + (':reload-after-parameter-change' if k in chained else ''),
                                          f'{k} (FSM state while down: {down.get(k)}): prefix {p} is announced after the last reload, the peer must hold {want[k]}'))
                            break
        if any(s_.endswith(':not-drained') or ':peer-table' in s_ for s_, _ in probs):
            break  # later establishments inherit the first difference
    return probs


# ------------------------------------------------------------------------------- process sections


def process_cases(workdir):
    """failed reloads of files WITH a process section: configuration.processes must not move and a
    valid file must be accepted afterwards (property oracle only; processes are not in the model)"""
    from exabgp.rib import RIB

    proc = 'process svc {\n  run /bin/true;\n  encoder text;\n}\n'
    nbs = [{'ip': IPS[0], 'peer_as': 65001, 'hold': 180, 'routes': [(0, 0, 0)]}, {'ip': IPS[1], 'peer_as': 65001, 'hold': 180, 'routes': [(1, 0, 0)]}]
    out = []
    for label, text in [('syntax-error', proc + render(nbs, ('badvalue', 1, 7))), ('exception', proc + render(nbs, ('raise-nexthop', 1, 7))),
                        ('syntax-error-before-process', render(nbs, ('badvalue', 1, 7)) + proc), ('missing-file', None)]:
        RIB._cache.clear()
        path = os.path.join(workdir, 'proc.conf')
        with open(path, 'w') as f:
            f.write(proc + render(nbs))
        rig = FileRig(path)
        try:
            if rig.first is not True:
                out.append(('process-section:load', f'{rig.configuration.error}', label))
                continue
            before = sorted(rig.configuration.processes)
            if text is None:
                os.remove(path)
            else:
                with open(path, 'w') as f:
                    f.write(text)
            r = rig.reactor.reload()
            after = sorted(rig.configuration.processes)
            if r is not False:
                out.append((f'failed-reload:return-value:{label}', f'returned {r!r}', label))
            if after != before:
                out.append((f'failed-reload:processes-changed:{label}', f'configuration.processes {before} -> {after} (the main loop then calls Processes.start with it: '
                            f'every API process missing from it is terminated)', label))
            with open(path, 'w') as f:
                f.write(proc + render(nbs))
            r2 = rig.reactor.reload()
            if r2 is not True:
                out.append((f'reload-after-failed-reload:valid-file-refused:{label}', f'{str(rig.configuration.error).strip().splitlines()[-1] if str(rig.configuration.error).strip() else r2}', label))
        finally:
            rig.close()
    return out


# ------------------------------------------------------------------------------- the check


def describe(case):
    d = {'old_configuration': render(case['old']), 'before_the_reloads': [list(map(str, s)) for s in case['pre']],
         'fsm_state_of_the_sessions_that_are_down': case.get('fsm', {}), 'reloads': []}
    for rl in reloads_of(case):
        d['reloads'].append({'file': None if rl['cfg'] is None else render(rl['cfg'], rl.get('fault')), 'fault': rl.get('fault')})
    d['when_a_session_that_is_down_acts_on_a_teardown'] = case.get('cycle', {})
    d['api_operations_before_the_sessions_are_back'] = [list(map(str, x)) for x in case.get('mid', [])]
    d['then'] = 'every session is established (replace_restart as Peer._main does) and drained; the peer tables are judged'
    d['then_rounds'] = [{'operations (api, session loss = Peer._reset)': [list(map(str, x)) for x in rnd],
                         'then': 'every session that is down is established again and drained; the peer tables are judged'}
                        for rnd in case.get('rounds', [])]
    return d


def gen_api(rng, ips):
    rt = (rng.randrange(len(PREFIXES)), rng.randrange(len(NHS)), rng.randrange(len(ATTRS)))
    return ('api', rng.choice(ips), 'announce' if rng.random() < 0.7 else 'withdraw', rt)


def gen_after(rng, case):
    """what follows the reloads: API operations before the sessions are back (one case in three), then 0-2
    rounds of API operations (also on routes the reloads removed: 6 prefixes in all) and session losses"""
    ips = sorted({nb['ip'] for nb in case['old']} | {nb['ip'] for rl in reloads_of(case) if rl['cfg'] for nb in rl['cfg']})
    if rng.random() < 0.35:
        case['mid'] = [gen_api(rng, ips) for _ in range(rng.choice([1, 1, 2]))]
    rounds = []
    for _ in range(rng.choice([0, 1, 1, 2])):
        rnd = [gen_api(rng, ips) for _ in range(rng.choice([0, 1, 1, 2]))]
        rnd += [('drop', ip) for ip in ips if rng.random() < 0.6]
        rng.shuffle(rnd)
        if not any(x[0] == 'drop' for x in rnd):
            rnd.append(('drop', rng.choice(ips)))
        rounds.append(rnd)
    case['rounds'] = rounds
    return case


DOWN_STATES = ['IDLE', 'ACTIVE', 'CONNECT', 'OPENSENT', 'OPENCONFIRM']


def gen_sequence(rng, old, n):
    """n reloads: valid files (each a mutation of the last accepted one) and, one time in four, a failing one"""
    out, cur = [], old
    for _ in range(n):
        x = rng.random()
        new, _ = mutate(rng, cur)
        if rng.random() < 0.3:
            # a neighbor leaves, or one that left (or never was) comes (back) with other routes
            new = copy.deepcopy(cur)
            missing = [ip for ip in IPS if ip not in [nb['ip'] for nb in new]]
            if missing and (len(new) <= 1 or rng.random() < 0.6):
                prefixes = rng.sample(range(len(PREFIXES) - 1), rng.choice([0, 1, 2, 3]))
                new.append({'ip': rng.choice(missing), 'peer_as': PEER_AS[0], 'hold': rng.choice(HOLDS),
                            'routes': [(p, rng.randrange(2), rng.randrange(len(ATTRS))) for p in sorted(prefixes)]})
            elif len(new) > 1:
                new.pop(rng.randrange(len(new)))
        if x < 0.08:
            out.append({'cfg': None, 'fault': None})
        elif x < 0.25:
            faults = all_faults(new)
            out.append({'cfg': new, 'fault': rng.choice(faults)})
        else:
            out.append({'cfg': new, 'fault': None})
            cur = new
    return out


def scripted_sequences():
    """small scope, every down state: a route removed by the first reload, other reloads before the session comes up"""
    A, B, C = (0, 0, 0), (1, 0, 0), (2, 0, 0)

    def nb(routes, hold=180):
        return [{'ip': IPS[0], 'peer_as': PEER_AS[0], 'hold': hold, 'routes': list(routes)}]

    bad = {'cfg': nb([A, C]), 'fault': ('badvalue', 0, 7)}
    seqs = [
        [nb([A])],
        [nb([A]), nb([A, C])],
        [nb([A]), nb([A, C]), nb([C])],
        [nb([A]), bad, nb([A, C])],
        [bad, nb([A]), nb([A, C])],
        [nb([A]), {'cfg': None, 'fault': None}, nb([A, C])],
        [nb([A], 90), nb([A, C], 90)],
        [nb([A], 90), nb([A, C], 180)],
        [nb([A]), nb([A, C], 90)],
        [nb([A, (1, 1, 1)]), nb([A])],
    ]
    annB, wdA, loss = ('api', IPS[0], 'announce', B), ('api', IPS[0], 'withdraw', A), ('drop', IPS[0])
    # after the reloads: (API operations before the session is back, rounds of API operations / session losses)
    afters = [
        ([], [[annB, loss]]),
        ([], [[annB, loss], [loss]]),
        ([], [[loss, annB]]),
        ([], [[wdA, loss], [loss]]),
        ([annB], []),
        ([annB], [[loss]]),
        ([wdA], [[loss]]),
    ]
    out = []
    for state in DOWN_STATES + ['UP']:
        pre = [('establish', IPS[0]), ('drain', IPS[0])] if state == 'UP' else []
        fsm = {} if state == 'UP' else {IPS[0]: state}
        for seq in seqs:
            rls = [x if isinstance(x, dict) else {'cfg': x, 'fault': None} for x in seq]
            out.append({'old': nb([A, B]), 'new': rls[0]['cfg'], 'pre': pre, 'reloads': rls, 'fsm': fsm})
        # a route removed by a reload (with and without re-establishment) and announced again through the API,
        # then session losses: it must be there after every later establishment
        for first in (nb([A], 90), nb([A])):
            for mid, rounds in afters:
                out.append({'old': nb([A, B]), 'new': first, 'pre': pre, 'reloads': [{'cfg': first, 'fault': None}],
                            'fsm': fsm, 'mid': list(mid), 'rounds': [list(r) for r in rounds]})
    return out


def scripted_flaps():
    """small scope: a neighbor is modified, removed and configured again, in every FSM state, before and after
    its session cycled: nothing of its earlier incarnation (file routes, API routes, owed withdraws) may survive"""
    X = {'ip': IPS[0], 'peer_as': PEER_AS[0], 'hold': 180, 'routes': [(4, 0, 0)]}

    def B(routes, hold=180):
        return {'ip': IPS[1], 'peer_as': PEER_AS[0], 'hold': hold, 'routes': list(routes)}

    R1, R2, R3 = (0, 0, 0), (1, 0, 0), (2, 0, 0)
    bad = {'cfg': [X, B([R3])], 'fault': ('badvalue', 1, 7)}
    seqs = [
        [[X, B([R1], 90)], [X], [X, B([R3])]],
        [[X], [X, B([R3])]],
        [[X, B([R1], 90)], [X], [X, B([R3], 90)]],
        [[X, B([R1], 90)], [X], [X, B([R1, R2])]],
        [[X], [X, B([R3])], [X], [X, B([R1, R2])]],
        [[X, B([R1], 90)], bad, [X], [X, B([R3])]],
        [[X, B([R1], 90)], [X, B([R1, R3], 180)], [X], [X, B([R2])]],
    ]
    out = []
    for state in DOWN_STATES + ['UP']:
        for cyc in ('at-once', 'late'):
            for api in (False, True):
                for seq in seqs:
                    rls = [x if isinstance(x, dict) else {'cfg': x, 'fault': None} for x in seq]
                    pre = [('establish', IPS[1]), ('drain', IPS[1])] if state == 'UP' else []
                    if api:
                        pre.append(('api', IPS[1], 'announce', (3, 1, 1)))
                    out.append({'old': [X, B([R1, R2])], 'new': rls[0]['cfg'], 'pre': pre, 'reloads': rls,
                                'fsm': {IPS[0]: 'IDLE'} if state == 'UP' else {IPS[0]: 'IDLE', IPS[1]: state},
                                'cycle': {IPS[0]: 'at-once', IPS[1]: cyc}, 'rounds': [[('drop', IPS[1])]]})
    return out


def shrink(case, sig, workdir):
    """drop pre-steps, API routes, neighbors and routes while the same signature remains"""

    def fails(c):
        try:
            im = Impl(c, workdir).run()
        except Exception:
            return False
        return any(s == sig for s, _ in judge(c, im))

    cur = case
    # shorter reload sequences first
    rls = reloads_of(case)
    for k in range(len(rls)):
        if len(reloads_of(cur)) <= 1:
            break
        cand = dict(cur)
        now = reloads_of(cur)
        if k >= len(now):
            break
        cand['reloads'] = now[:k] + now[k + 1:]
        cand['new'] = cand['reloads'][0]['cfg']
        if fails(cand):
            cur = cand
    for field in ('rounds', 'mid'):
        k = 0
        while k < len(cur.get(field, [])):
            cand = dict(cur)
            cand[field] = cur[field][:k] + cur[field][k + 1:]
            if fails(cand):
                cur = cand
            else:
                k += 1
    changed = True
    budget = 60
    while changed and budget > 0:
        changed = False
        for k in range(len(cur['pre'])):
            cand = dict(cur)
            cand['pre'] = cur['pre'][:k] + cur['pre'][k + 1:]
            budget -= 1
            if fails(cand):
                cur, changed = cand, True
                break
            if budget <= 0:
                break
    return cur


def check(tier, seed):
    run = Run('C17', tier, seed)
    run.trusted = [
        'Coq 8.16.1 kernel (coqc), vm_compute for case evaluation; no native_compute',
        'harness/c17.py: generation of configuration texts and faults; abstraction of Route/Neighbor objects to ids; the emulation of '
        'what Peer._main does with the RIB (replace_restart at establishment, deferred replace_reload, updates() consumed '
        'element-wise, first generator of a session without its withdraws, Peer._reset called at once for a teardown); '
        'instrumentation of ParseNeighbor._init_neighbor and Configuration.parse_section from outside the repository to read '
        'the parser outcome (which neighbors were completed, returned or raised)',
        'modelled, not verified: Configuration.reload, Reactor.reload, Peer.reconfigure/reestablish/remove (hand model '
        'Model_Reload over Model_Rib); the configuration tokeniser and section parsers are an oracle, tied by this harness only',
    ]
    run.assumptions = [
        'adj-rib-out kept (the default), one route per prefix inside a neighbor, all routes ipv4 unicast, no process / template sections in the modelled files',
        'a teardown (reestablish / remove) and the deferred replace_reload of an established peer take effect before the next RIB operation',
        'theorem C17_success starts from a state with no withdraw owed; histories of several reloads are covered by C17_reload_composes (tree with fix_chain) and by this harness',
        'the model has one "session down" state: IDLE, ACTIVE, CONNECT, OPENSENT and OPENCONFIRM are required to behave alike (checked on every history)',
        '"still-valid API-announced routes" = API routes on prefixes that neither the old nor the new file of that neighbor names; a neighbor whose name (peer address, AS numbers, router-id) changes is a removed plus a new neighbor',
    ]
    common.standard_build(run, ['T13'])
    rng = random.Random(seed)
    wd = common.work_dir()

    n_pairs = 260 if tier == 'quick' else 6000
    n_fault_bases = 14 if tier == 'quick' else 300
    cases, kinds = [], []
    mutmix = collections.Counter()
    for _ in range(n_pairs):
        old = gen_nbs(rng)
        new, applied = mutate(rng, old)
        for m in applied:
            mutmix[m] += 1
        c = {'old': old, 'new': new, 'pre': gen_pre(rng, old)}
        if rng.random() < 0.4:
            gen_after(rng, c)
        cases.append(c)
        kinds.append('pair')
    n_seq = 420 if tier == 'quick' else 9000
    seqmix = collections.Counter()
    for _ in range(n_seq):
        old = gen_nbs(rng)
        pre = gen_pre(rng, old)
        if rng.random() < 0.6:
            pre = [st for st in pre if st[0] == 'api']  # every session down through all the reloads
        n = rng.choice([1, 2, 2, 3, 3, 4])
        rls = gen_sequence(rng, old, n)
        c = {'old': old, 'new': rls[0]['cfg'], 'pre': pre, 'reloads': rls}
        if rng.random() < 0.6:
            gen_after(rng, c)
        cases.append(c)
        kinds.append('sequence')
        seqmix[f'{n} reloads, {sum(1 for r in rls if r["fault"] or r["cfg"] is None)} failing'] += 1
    scripted = scripted_sequences() + scripted_flaps()
    cases += scripted
    kinds += ['scripted'] * len(scripted)
    faultmix = collections.Counter()
    for _ in range(n_fault_bases):
        old = gen_nbs(rng)
        new, applied = mutate(rng, old)
        pre = gen_pre(rng, old)
        for fault in all_faults(new):
            c = {'old': old, 'new': new, 'pre': pre, 'fault': fault}
            x = rng.random()
            if x < 0.25:
                c['then'] = new
            elif x < 0.40:
                c['then'] = old
            cases.append(c)
            kinds.append('fault')
            faultmix[fault[0]] += 1
        c = {'old': old, 'new': None, 'pre': pre}
        if rng.random() < 0.5:
            c['then'] = new
        cases.append(c)
        kinds.append('missing')
        faultmix['missing-file'] += 1

    fsmmix = collections.Counter()
    for c in cases:
        if 'fsm' not in c:
            c['fsm'] = {ip: rng.choice(DOWN_STATES) for ip in IPS}
        if 'cycle' not in c:
            c['cycle'] = {ip: rng.choice(['at-once', 'late']) for ip in IPS}
        for v in c['fsm'].values():
            fsmmix[v] += 1

    impls, crashed = [], []
    for idx, c in enumerate(cases):
        try:
            impls.append(Impl(c, wd).run())
        except Exception as exc:  # the harness could not drive the case
            impls.append(None)
            crashed.append((idx, f'{type(exc).__name__}: {exc}'))
    run.obligation(f'the implementation was driven through all {len(cases)} cases', not crashed, f'{crashed[:3]}')

    live = [i for i, im in enumerate(impls) if im is not None]
    ok, model, logs = model_eval([impls[i].trace for i in live], 'c17')
    run.obligation(f'model evaluation (vm_compute of Model_Reload.observe {TREE} on every history) ran', ok, '\n'.join(logs)[-2000:])

    corr_bad = []
    outcomes = collections.Counter()
    for i, mo in zip(live, model):
        im = impls[i]
        outcomes[im.outcome[0] if im.outcome[0] != 'failed' else ('syntax-error' if im.outcome[1] else 'exception')] += 1
        if mo is None:
            continue
        a, b = impl_obs(im), parse_obs(mo)
        if a != b:
            keys = [k for k in a if a[k] != b.get(k)]
            corr_bad.append((i, keys, {k: (a[k], b.get(k)) for k in keys}))
    run.obligation(f'correspondence: reload() return values, Configuration.neighbors (names, parameters, routes), parser state left behind, '
                   f'reactor peers, every RIB (cached, queued, pending withdraws), every peer table and session = Model_Reload on {len(live)} histories',
                   not corr_bad, f'{len(corr_bad)} disagreements; first: {corr_bad[0] if corr_bad else ""}'[:3000])

    failing = []
    accepted_broken = collections.Counter()
    for i in live:
        for sig, what in judge(cases[i], impls[i]):
            if sig.startswith('NOTE:'):
                accepted_broken[what.split("'")[1] if "'" in what else what] += 1
                continue
            failing.append((i, sig, what))
    proc = process_cases(wd)
    n_ok = sum(1 for i in live for rl, st in zip(reloads_of(cases[i]), impls[i].steps)
               if st['outcome'][0] == 'parsed' and rl.get('fault') is None and rl['cfg'] is not None)
    n_fail = sum(1 for i in live for st in impls[i].steps if st['outcome'][0] != 'parsed')
    succ_bad = [f for f in failing if f[1].startswith('reload:') or f[1].startswith('reload-sequence')]
    fail_bad = [f for f in failing if f not in succ_bad]
    run.obligation(f'property oracle (success): after the accepted reloads (1, 2 or 3 in a row; sessions up, or down in each of '
                   f'{DOWN_STATES}), establishment and a drain, every peer table = last accepted file + API routes on prefixes no file names, '
                   f'removed neighbors gone, nothing removed is announced, on {n_ok} accepted reloads in {len(live)} histories', not succ_bad, f'{len(succ_bad)} failing; first: {succ_bad[0] if succ_bad else ""}'[:2000])
    run.obligation(f'property oracle (failure): neighbors, routes, every RIB, peers, sessions, processes identical before/after, returns False, '
                   f'the API still accepts an announce, a later valid reload is applied, on {n_fail} failed reloads + 4 with a process section',
                   not fail_bad and not proc, f'{len(fail_bad) + len(proc)} failing; first: {(fail_bad[0] if fail_bad else proc[0]) if (fail_bad or proc) else ""}'[:2000])

    seen = set()
    sigmix = collections.Counter(sig for _, sig, _ in failing)
    for i, sig, what in failing:
        if sig in seen:
            continue
        seen.add(sig)
        c = shrink(cases[i], sig, wd)
        run.fail_case(sig, what, describe(c))
    for sig, what, label in proc:
        if sig in seen:
            continue
        seen.add(sig)
        run.fail_case(sig, what, {'scenario': f'configuration with a process section, then a reload failing by {label}, then the valid file again'})

    nontrivial = {(render(c['old']), str([(None if r['cfg'] is None else render(r['cfg'], r.get('fault'))) for r in reloads_of(c)]),
                   str(c['pre']), str(sorted(c['fsm'].items())), str(c.get('mid')), str(c.get('rounds'))) for c in cases}
    run.coverage.update({
        'evaluations': len(cases),
        'distinct_nontrivial': len(nontrivial),
        'rule': f'{n_pairs} (old, new) configuration pairs as text: 2-3 neighbors x 0-4 static routes over 5 prefixes x 2 next hops x 4 attribute sets, '
                f'1-3 differences among {MUTATIONS}; before the reload each session is up (60%) or down, 0-2 API announce/withdraw per neighbor '
                f'(also on file prefixes), generators drained / half consumed / not started; plus {n_fault_bases} pairs with EVERY applicable fault '
                f'{FAULT_KINDS} at EVERY line of EVERY neighbor section of the new file and the missing file; 40% of the failed reloads are followed by a valid reload; '
                f'plus {n_seq} sequences of 1-3 reloads (each a mutation of the last accepted file; one in four fails: fault at a random line or missing file) '
                f'with every session down (60%) or mixed, plus {len(scripted)} scripted sequences (a route removed by the first reload, 0-2 more reloads, '
                f'failed ones in between, parameter changes) in every down state and up; every session that is down sits in a random FSM state of '
                f'{DOWN_STATES} at every reload; Model_Reload has ONE down state: the correspondence and the oracle both require the code to behave alike in all five; '
                f'in the sequences three steps in ten remove a neighbor or configure one again (other routes, either hold-time); a session that is down acts on a '
                f'pending teardown at once or only when it is established next (peer.neighbor is the old definition until then), per address at random; '
                f'{len(scripted_flaps())} scripted modify / remove / configure-again histories in every FSM state x both timings x with and without an API route; '
                f'40% of the pairs and 60% of the sequences go on after the reloads: API announce/withdraw before the sessions are back (one in three), then 0-2 rounds of '
                f'API operations (6 prefixes: also the ones the reloads removed) and session losses (real Peer._reset), each round closed by a new establishment and drain; '
                f'the peer tables are judged after EVERY establishment against files + API intent; '
                f'non-trivial = distinct (old text, reload texts, schedule, FSM states, what follows)',
        'histories_going_on_after_the_reloads': sum(1 for c in cases if c.get('rounds') or c.get('mid')),
        'later_session_losses': sum(1 for c in cases for r in c.get('rounds', []) for x in r if x[0] == 'drop'),
        'reload_sequences': dict(seqmix),
        'fsm_states_of_down_sessions': dict(fsmmix),
        'differences_applied': dict(mutmix),
        'faults_injected': dict(faultmix),
        'parser_outcomes_observed': dict(outcomes),
        'broken_files_accepted_by_the_parser': dict(accepted_broken),
        'failing_signatures': dict(sigmix),
        'exhaustive': False,
    })
    if live:
        im = impls[live[0]]
        run.samples.append({'case': describe(cases[live[0]]), 'outcome': str(im.outcome)[:300], 'final': str(im.final)[:600]})
    if run.broken() and not run.failing:
        run.coverage['search'] = f'{len(cases)} generated reloads judged by the text-level oracle; none failed'
    return run.finish(checker_cmd='make -C coq props/Prop_C17.vo && coqc -Q coq ExaV coq/props/Prop_C17.v (Print Assumptions)')
