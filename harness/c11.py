"""C11 - after any session loss the peer is fully resynchronised (Adj-RIB-Out part): the C04 harness with
Drop (OutgoingRIB.reset, generator abandoned, peer table emptied) and Establish (replace_restart) anywhere."""

from harness import c04


def check(tier, seed):
    return c04.check(tier, seed, pid='C11')
