"""C06 - framing independent of TCP segmentation.  H-frame + property oracle."""

from __future__ import annotations

import asyncio
import errno
import random
import socket
import time

from harness import common
from harness.common import Run, zlist, zbytes, natlist

MARKER = bytes([0xFF] * 16)


# ------------------------------------------------------------------------------- implementation side


class FakeSock:
    """A socket whose recv_into hands out the stream in scripted pieces."""

    def __init__(self, stream: bytes, sched, blocky=False):
        self.stream = stream
        self.pos = 0
        self.sched = list(sched)
        self.blocky = blocky
        self.toggle = False
        self.recv_sizes = []

    def recv_into(self, view):
        if self.blocky:
            self.toggle = not self.toggle
            if self.toggle:
                raise BlockingIOError(errno.EAGAIN, 'scripted EAGAIN')
        want = len(view)
        offer = (self.sched.pop(0) + 1) if self.sched else want
        n = min(offer, want, len(self.stream) - self.pos)
        view[:n] = self.stream[self.pos : self.pos + n]
        self.pos += n
        self.recv_sizes.append(n)
        return n

    def close(self):
        pass

    def fileno(self):
        return -1


class FakeLoop:
    async def sock_recv_into(self, sock, view):
        return sock.recv_into(view)

    async def sock_recv(self, sock, nbytes):
        # the other asyncio receive primitive, so that a rewrite of the read loop around it is run rather than refused
        buf = bytearray(nbytes)
        n = sock.recv_into(memoryview(buf))
        return bytes(buf[:n])


def make_protocol():
    """A real Protocol on a stub peer (no API consumers, adj-rib-in kept so UPDATEs are decoded)."""
    from exabgp.configuration.setup import create_minimal_configuration
    from exabgp.reactor.protocol import Protocol

    conf = create_minimal_configuration()
    neighbor = next(iter(conf.neighbors.values()))
    from exabgp.configuration.neighbor.api import ParseAPI

    neighbor.api = ParseAPI.flatten({})

    class Stats(dict):
        def __missing__(self, k):
            return 0

    class Peer:
        pass

    peer = Peer()
    peer.neighbor = neighbor
    peer.stats = Stats()
    peer.reactor = None
    proto = Protocol(peer)
    return proto


def drive(coro):
    try:
        coro.send(None)
    except StopIteration as stop:
        return stop.value
    raise RuntimeError('coroutine suspended on a fake loop')


def run_impl(case, proto_cache={}):
    """-> list of outputs: ['M', type, bodyhex] / ['N', code, sub]; mirrors successive read_message calls."""
    from exabgp.reactor.network import connection as connmod
    from exabgp.reactor.network.connection import Connection
    from exabgp.reactor.network.error import LostConnection
    from exabgp.bgp.message import Notify, Notification
    from exabgp.protocol.family import AFI

    stream = bytes(case['stream'])
    mode = case['mode']
    conn = Connection(AFI.ipv4, '127.0.0.1', '127.0.0.1')
    conn.msg_size = case['max']
    conn.defensive = False
    outs = []
    if mode in ('async', 'proto'):
        conn.io = FakeSock(stream, case['sched'])
        saved = connmod.asyncio.get_event_loop
        connmod.asyncio.get_event_loop = lambda: FakeLoop()
        try:
            if mode == 'async':
                while True:
                    try:
                        length, msg, header, body, err = drive(conn.reader_async())
                    except LostConnection:
                        break
                    if err is not None:
                        outs.append(['N', err.code, err.subcode])
                        break
                    outs.append(['I', int(msg), body, int(length), header])  # kept as handed up, rendered once the stream is read
            else:
                if 'p' not in proto_cache:
                    proto_cache['p'] = make_protocol()
                proto = proto_cache['p']
                proto.connection = conn
                while True:
                    try:
                        m = drive(proto.read_message())
                    except LostConnection:
                        break
                    except Notify as n:
                        outs.append(['N', n.code, n.subcode])
                        break
                    except Notification as n:
                        outs.append(['RN', n.code, n.subcode])
                        continue
                    outs.append(['P', int(m.ID)])
        finally:
            connmod.asyncio.get_event_loop = saved
            conn.io = None
    elif mode == 'sync':
        conn.io = FakeSock(stream, case['sched'], blocky=case.get('blocky', False))
        conn.reading = lambda: True
        try:
            while True:
                try:
                    res = None
                    for res in conn.reader():
                        pass
                    length, msg, header, body, err = res
                except LostConnection:
                    break
                if err is not None:
                    outs.append(['N', err.code, err.subcode])
                    break
                outs.append(['I', int(msg), body, int(length), header])  # kept as handed up, rendered once the stream is read
        finally:
            conn.io = None
    elif mode == 'real':
        outs = run_real_socket(case)
    elif mode == 'mainloop':
        outs = run_mainloop(case)
    return render_retained(outs)


def render_retained(outs):
    """The protocol layer keeps what the reader hands up (Update keeps its payload, messages are queued): an
    item must still be the message it was once the following ones have been read.  Items are therefore kept
    as objects while the stream is read and turned into bytes only at the end."""
    for o in outs:
        if o[0] == 'I' and not isinstance(o[2], str):
            o[2] = bytes(o[2]).hex()
            o[4] = bytes(o[4]).hex()
    return outs


class VLoop(asyncio.SelectorEventLoop):
    """asyncio loop whose clock jumps to the next timer when nothing is ready (no real I/O)"""

    def __init__(self):
        super().__init__()
        self._vt = 0.0

    def time(self):
        return self._vt

    def _run_once(self):
        if not self._ready and self._scheduled:
            when = self._scheduled[0]._when
            if when > self._vt:
                self._vt = when
        super()._run_once()


class TimedSock:
    """bytes become readable at scripted (virtual) times; recv is an await point that can be cancelled"""

    def __init__(self, stream, arrivals):
        self.stream = stream
        self.arrivals = list(arrivals)  # [(gap_seconds, nbytes)]
        self.avail = 0
        self.pos = 0
        self.next_at = None
        self.trace = []  # what happened, in order: n (a recv returned n bytes) or 'T' (the 100 ms wait expired)

    def close(self):
        pass

    def fileno(self):
        return -1


class TimedLoop:
    def __init__(self, loop):
        self.loop = loop

    async def sock_recv(self, sock, nbytes):
        buf = bytearray(nbytes)
        n = await self.sock_recv_into(sock, memoryview(buf))
        return bytes(buf[:n])

    async def sock_recv_into(self, sock, view):
        while sock.avail == 0:
            if not sock.arrivals:
                if sock.pos >= len(sock.stream):
                    return 0
                sock.avail = len(sock.stream) - sock.pos
                break
            if sock.next_at is None:
                sock.next_at = self.loop.time() + sock.arrivals[0][0]
            delay = sock.next_at - self.loop.time()
            if delay > 0:
                await asyncio.sleep(delay)  # cancellation point: nothing consumed
            gap, nb = sock.arrivals.pop(0)
            sock.next_at = None
            sock.avail += min(nb, len(sock.stream) - sock.pos - sock.avail)
            if sock.pos + sock.avail >= len(sock.stream) and not sock.avail:
                return 0
        n = min(len(view), sock.avail)
        view[:n] = sock.stream[sock.pos : sock.pos + n]
        sock.pos += n
        sock.avail -= n
        sock.trace.append(n)  # a recv which returned n bytes
        return n


def run_mainloop(case, proto_cache={}):
    """The read step of Peer._main (a 100 ms timeout around Protocol.read_message, repeated) over a
    connection on which the bytes arrive at scripted times."""
    from exabgp.reactor.network import connection as connmod
    from exabgp.reactor.network.connection import Connection
    from exabgp.reactor.network.error import LostConnection
    from exabgp.reactor.peer.peer import Peer
    from exabgp.bgp.message import Notify, Notification
    from exabgp.protocol.family import AFI

    stream = bytes(case['stream'])
    if 'p' not in proto_cache:
        proto_cache['p'] = make_protocol()
    proto = proto_cache['p']
    conn = Connection(AFI.ipv4, '127.0.0.1', '127.0.0.1')
    conn.msg_size = case['max']
    conn.defensive = False
    tsock = TimedSock(stream, case['arrivals'])
    conn.io = tsock
    proto.connection = conn
    loop = VLoop()
    saved = connmod.asyncio.get_event_loop
    connmod.asyncio.get_event_loop = lambda: TimedLoop(loop)
    asyncio.set_event_loop(loop)

    class Stub:
        pass

    stub = Stub()
    stub.proto = proto
    real_step = getattr(Peer, '_read_message_or_nop', None)

    async def read_step():
        if real_step is not None:
            return await real_step(stub)
        # the pinned Peer._main reads like this (translate/t1_header.py checks that it still does)
        try:
            return await asyncio.wait_for(proto.read_message(), timeout=0.1)
        except asyncio.TimeoutError:
            return None

    async def main():
        outs = []
        for _ in range(100000):
            try:
                m = await read_step()
            except LostConnection:
                break
            except Notify as n:
                outs.append(['N', n.code, n.subcode])
                break
            except Notification as n:
                outs.append(['RN', n.code, n.subcode])
                continue
            if m is None or getattr(m, 'SCHEDULING', 0):
                tsock.trace.append('T')
                await asyncio.sleep(0)
                continue
            outs.append(['P', int(m.ID)])
        return outs

    try:
        return loop.run_until_complete(main())
    finally:
        case['trace'] = list(tsock.trace)
        connmod.asyncio.get_event_loop = saved
        conn.io = None
        proto.connection = None
        asyncio.set_event_loop(None)
        loop.close()


def run_real_socket(case):
    """The asyncio reader over a real socketpair, the writer delivering the scripted chunks."""
    from exabgp.reactor.network.connection import Connection
    from exabgp.reactor.network.error import LostConnection
    from exabgp.protocol.family import AFI

    stream = bytes(case['stream'])

    async def main():
        a, b = socket.socketpair()
        a.setblocking(False)
        b.setblocking(False)
        conn = Connection(AFI.ipv4, '127.0.0.1', '127.0.0.1')
        conn.msg_size = case['max']
        conn.defensive = False
        conn.io = a
        loop = asyncio.get_event_loop()

        async def writer():
            pos = 0
            for k in case['sched']:
                if pos >= len(stream):
                    break
                await loop.sock_sendall(b, stream[pos : pos + k + 1])
                pos += k + 1
                await asyncio.sleep(0)
            if pos < len(stream):
                await loop.sock_sendall(b, stream[pos:])
            b.close()

        w = asyncio.ensure_future(writer())
        outs = []
        while True:
            try:
                length, msg, header, body, err = await conn.reader_async()
            except LostConnection:
                break
            if err is not None:
                outs.append(['N', err.code, err.subcode])
                break
            outs.append(['I', int(msg), body, int(length), header])  # kept as handed up, rendered once the stream is read
        await w
        conn.close()
        return outs

    return asyncio.run(main())


# ------------------------------------------------------------------------------- generation


def header(length, ty, marker=MARKER):
    return marker + bytes([(length >> 8) & 0xFF, length & 0xFF, ty])


def valid_len(rng, ty, maxsize, big=False):
    lo = {1: 29, 2: 23, 3: 21, 4: 19, 5: 23}.get(ty, 19)
    if ty in (4, 5):
        return lo
    if big:
        return rng.choice([maxsize, maxsize - 1, rng.randint(lo, maxsize)])
    return rng.choice([lo, lo + 1, rng.randint(lo, lo + 40), rng.randint(lo, 300)])


def gen_case(rng, idx, modes):
    maxsize = rng.choice([4096, 4096, 65535])
    mode = modes[idx % len(modes)]
    stream = b''
    kinds = []
    nmsg = rng.choice([0, 1, 1, 2, 3, 5])
    for _ in range(nmsg):
        ty = rng.choice([1, 2, 3, 4, 4, 5, 6])
        ln = valid_len(rng, ty, maxsize, big=(rng.random() < 0.004))
        if ln - 19 > 400:
            fill = rng.getrandbits(8)
            body = bytes(rng.getrandbits(8) for _ in range(8)) + bytes([fill]) * (ln - 19 - 16) + bytes(rng.getrandbits(8) for _ in range(8))
        else:
            body = bytes(rng.getrandbits(8) for _ in range(ln - 19))
        stream += header(ln, ty) + body
        kinds.append('valid')
    fault = rng.choice(['none', 'none', 'marker', 'short', 'long', 'typelen', 'unknown', 'trunc', 'trunc-header'])
    if mode == 'proto':
        # the protocol layer decodes bodies; keep to KEEPALIVE / header faults / unknown types so that
        # the only variable is framing (decoding is C02/C03's subject)
        stream = b''.join(header(19, 4) for _ in range(nmsg))
        if fault in ('trunc',):
            fault = 'unknown'
    if fault == 'marker':
        bad = bytearray(MARKER)
        bad[rng.randrange(16)] = rng.choice([0, 0xFE, 0x7F, rng.getrandbits(8) & 0xFE])
        ln = rng.choice([19, 23, 40])
        stream += header(ln, rng.choice([1, 2, 4]), bytes(bad)) + bytes(rng.getrandbits(8) for _ in range(ln - 19))
    elif fault == 'short':
        stream += header(rng.choice([0, 1, 18, 17]), rng.choice([1, 2, 3, 4, 5, 6, 7]))
    elif fault == 'long':
        ln = rng.choice([maxsize + 1, maxsize + 2, 65535]) if maxsize < 65535 else 65535
        if ln <= maxsize:
            ty = 4
            stream += header(ln, ty)  # KEEPALIVE with a body: type bound
        else:
            stream += header(ln, rng.choice([1, 2, 3, 6]))
    elif fault == 'typelen':
        ty, ln = rng.choice([(1, 28), (1, 19), (2, 22), (2, 19), (3, 20), (3, 19), (4, 20), (4, 23), (5, 19), (5, 22), (5, 24)])
        stream += header(ln, ty) + bytes(rng.getrandbits(8) for _ in range(max(0, ln - 19)))
    elif fault == 'unknown':
        ty = rng.choice([0, 7, 8, 100, 127, 128, 200, 251, 252, 253, 254, 255, rng.randint(7, 255)])
        ln = rng.choice([19, 19, 20, 23, 50])
        stream += header(ln, ty) + bytes(rng.getrandbits(8) for _ in range(ln - 19))
    elif fault == 'trunc':
        ty = rng.choice([1, 2, 3, 6])
        ln = valid_len(rng, ty, maxsize) + 5
        full = header(ln, ty) + bytes(rng.getrandbits(8) for _ in range(ln - 19))
        stream += full[: rng.randint(19, len(full) - 1)]
    elif fault == 'trunc-header':
        stream += header(19, 4)[: rng.randint(1, 18)]
    if fault in ('marker', 'short', 'long', 'typelen', 'unknown') and rng.random() < 0.7:
        # bytes after the fault must never be interpreted
        stream += header(19, 4) + (header(19, 4) if mode == 'proto' else header(23, 2) + bytes(4))
    # segmentation: how many bytes each recv offers (k -> k+1)
    style = rng.choice(['one', 'small', 'mixed', 'whole', 'span'])
    n = len(stream)
    if n > 2500 and style in ('one', 'small'):
        # 1-byte reads over the first messages only (the model's accumulator is quadratic in reads)
        style = 'one-then-mixed'
        sched = [0] * 300 + [rng.choice([0, 1, 18, 19, 22, 100, 5000]) for _ in range(200)]
    elif style == 'one':
        sched = [0] * n
    elif style == 'small':
        sched = [rng.randint(0, 3) for _ in range(n)]
    elif style == 'mixed':
        sched = [rng.choice([0, 1, 18, 19, 22, 100, 5000]) for _ in range(min(n, 200))]
    elif style == 'whole':
        sched = []
    else:
        sched = [rng.randint(15, 60) for _ in range(min(n, 200))]
    if mode == 'real':
        sched = sched[:64]
    return {
        'max': maxsize,
        'stream': list(stream),
        'sched': sched,
        'mode': mode,
        'fault': fault,
        'nmsg': nmsg,
        'style': style,
        'blocky': mode == 'sync' and rng.random() < 0.3,
    }


def gen_mainloop_case(rng):
    """valid decodable messages (KEEPALIVE, End-of-RIB, withdraw-only UPDATEs with bodies up to ~500 bytes)
    delivered in pieces separated by gaps below and above the 100 ms read timeout of Peer._main"""
    maxsize = rng.choice([4096, 65535])
    stream = b''
    for _ in range(rng.choice([1, 2, 3, 4])):
        kind = rng.choice(['ka', 'eor', 'wd', 'wd'])
        if kind == 'ka':
            stream += header(19, 4)
        elif kind == 'eor':
            stream += header(23, 2) + bytes(4)
        else:
            k = rng.choice([1, 3, 20, 100])
            wd = b''.join(bytes([32, 10, rng.getrandbits(8), rng.getrandbits(8), rng.getrandbits(8)]) for _ in range(k))
            body = len(wd).to_bytes(2, 'big') + wd + bytes(2)
            stream += header(19 + len(body), 2) + body
    fault = 'none'
    if rng.random() < 0.2:
        fault = 'unknown'
        stream += header(19, rng.choice([0, 7, 99, 255]))
    arrivals = []
    left = len(stream)
    while left > 0:
        nb = rng.choice([1, 2, 5, 18, 19, 20, 23, 40, 200, left])
        nb = min(nb, left)
        gap = rng.choice([0.0, 0.01, 0.05, 0.099, 0.1, 0.101, 0.15, 0.3, 1.0])
        arrivals.append((gap, nb))
        left -= nb
    return {'max': maxsize, 'stream': list(stream), 'sched': [], 'arrivals': arrivals, 'mode': 'mainloop',
            'fault': fault, 'nmsg': 0, 'style': 'timed'}


def boundary_cases():
    """Every type 0..255 x lengths around every bound x both maxima (complete messages)."""
    cases = []
    for maxsize in (4096, 65535):
        lens = sorted(set(list(range(0, 41)) + list(range(4090, 4101)) + list(range(65530, 65536))))
        for ty in range(256):
            for ln in lens:
                if ty not in (0, 1, 2, 3, 4, 5, 6, 7, 128, 251, 252, 253, 255) and ln not in (19, 23, 29, 4096, 4097, 65535):
                    continue
                body = bytes((ln - 19)) if ln >= 19 else b''
                cases.append(
                    {'max': maxsize, 'stream': list(header(ln, ty) + body + header(19, 4)), 'sched': [18, 0, 200],
                     'mode': 'async', 'fault': 'boundary', 'nmsg': 0, 'style': 'boundary'}
                )
    return cases


# ------------------------------------------------------------------------------- model / spec evaluation

HEADER_MODEL = """From Coq Require Import ZArith Bool List.
From ExaV Require Import gen.Gen_Header model.Model_Reader.
Import ListNotations. Open Scope Z_scope.
Definition out_eqb (a b : out) : bool :=
  match a, b with
  | OMsg t1 b1, OMsg t2 b2 => (t1 =? t2) && list_eqb b1 b2
  | ONotify c1 s1, ONotify c2 s2 => (c1 =? c2) && (s1 =? s2)
  | _, _ => false end.
Fixpoint outs_eqb (a b : list out) : bool :=
  match a, b with [], [] => true | x :: a', y :: b' => out_eqb x y && outs_eqb a' b' | _, _ => false end.
(* protocol-level observations carry the message type only: bodies are compared at reader level *)
Definition strip (o : out) : out := match o with OMsg t _ => OMsg t [] | n => n end.
Definition okc (c : bool * bool * Z * list Z * list nat * list out) : bool :=
  match c with (proto, async, max, stream, sched, expect) =>
    outs_eqb (if proto then map strip (reader async max stream sched) else reader_items async max stream sched) expect end.
Fixpoint bad (l : list (bool * bool * Z * list Z * list nat * list out)) (i : nat) : list nat :=
  match l with [] => [] | c :: l' => if okc c then bad l' (S i) else i :: bad l' (S i) end.
"""

HEADER_TIMED = HEADER_MODEL.split('Definition okc')[0] + """
Definition okt (c : Z * list Z * list tev * list out) : bool :=
  match c with (max, stream, evs, expect) => outs_eqb (map strip (main_reader max stream evs)) expect end.
Fixpoint badt (l : list (Z * list Z * list tev * list out)) (i : nat) : list nat :=
  match l with [] => [] | c :: l' => if okt c then badt l' (S i) else i :: badt l' (S i) end.
"""


def evaluate_traces(cases, impl_outs, tag):
    """the recorded trace of each main-loop run (recv sizes and expired waits, in order) replayed on
    Model_Reader.main_reader: the model must deliver what the implementation delivered"""
    idx = [i for i, c in enumerate(cases) if c['mode'] == 'mainloop' and 'trace' in c]
    shards = common.chunked(idx, 100)

    def evs(c):
        return '[' + ';'.join('Timeout' if e == 'T' else f'Recv {e - 1}' for e in c['trace']) + ']'

    def defs(sh):
        items = [f'({cases[i]["max"]}, {zbytes(cases[i]["stream"])}, {evs(cases[i])}, {coq_outs(impl_outs[i], "OMsg", "ONotify")})' for i in sh]
        return 'Definition cases : list (Z * list Z * list tev * list out) := [' + ';\n'.join(items) + '].\nEval vm_compute in (badt cases 0).\n'

    res = common.eval_cases(HEADER_TIMED, defs, shards, tag + '_t')
    ok = all(rc == 0 for rc, _, _ in res)
    bad = []
    for sh, (rc, out, parsed) in zip(shards, res):
        if rc == 0 and parsed:
            bad += [sh[j] for j in common.nat_list_of(parsed[0])]
    return ok, bad, len(idx), [out for rc, out, _ in res if rc != 0]


HEADER_SPEC = """From Coq Require Import ZArith Bool List.
From ExaV Require Import spec.Spec_Frame.
Import ListNotations. Open Scope Z_scope.
Fixpoint leqb (a b : list Z) : bool :=
  match a, b with [], [] => true | x :: a', y :: b' => (x =? y) && leqb a' b' | _, _ => false end.
Definition fout_eqb (a b : fout) : bool :=
  match a, b with
  | FMsg t1 b1, FMsg t2 b2 => (t1 =? t2) && leqb b1 b2
  | FNotify c1 s1, FNotify c2 s2 => (c1 =? c2) && (s1 =? s2)
  | _, _ => false end.
Fixpoint fouts_eqb (a b : list fout) : bool :=
  match a, b with [], [] => true | x :: a', y :: b' => fout_eqb x y && fouts_eqb a' b' | _, _ => false end.
Definition fstrip (o : fout) : fout := match o with FMsg t _ => FMsg t [] | n => n end.
Definition okc (c : bool * Z * list Z * list fout) : bool :=
  match c with (proto, max, stream, expect) =>
    fouts_eqb (if proto then map fstrip (frames max stream) else frames max stream) expect end.
Fixpoint bad (l : list (bool * Z * list Z * list fout)) (i : nat) : list nat :=
  match l with [] => [] | c :: l' => if okc c then bad l' (S i) else i :: bad l' (S i) end.
"""


def canon(outs):
    """impl outputs -> [('M', ty, body bytes) | ('N', c, s)] as the protocol layer sees them."""
    res = []
    for o in outs:
        if o[0] == 'I':
            res.append(('M', o[1], list(bytes.fromhex(o[2]))))
        elif o[0] == 'N':
            res.append(('N', o[1], o[2]))
    return res


def coq_outs(res, msg, notify):
    return '[' + ';'.join(f'{msg} {r[1]} {zbytes(r[2])}' if r[0] == 'M' else f'{notify} {r[1]} {r[2]}' for r in res) + ']'


def reader_level(case, outs):
    """Connection.reader*() returns raw items; the model's `reader` includes Protocol.read_message's
    type dispatch.  For reader-level modes compare with the model restricted to what the reader
    itself decides: apply the (trivial) protocol-layer dispatch on the harness side, taken from
    the same generated constants by evaluating the model on proto-mode cases instead."""
    return canon(outs)


def spec_expect(case):
    """Python rendering of the RFC framing, used only to pre-filter which cases are 'nontrivial'."""
    return None


def evaluate(run: Run, cases, impl_outs, tag, model=True):
    """Correspondence (model) and property oracle (spec) on the same cases."""
    # Reader-level cases ('async', 'sync', 'real'): the impl output is the item list; the protocol
    # dispatch (unknown type -> notification) is applied by the model only, so for these cases we
    # compare against the model with the dispatch undone: an item of unknown type is what the
    # reader must return.  To keep one model function, reader-level expectations are passed
    # through `lift`: an item whose type is not deliverable becomes the model's notification.
    # shards balanced by stream bytes (large literals dominate coqc time)
    model_shards, cur, size = [], [], 0
    for i in sorted(range(len(cases)), key=lambda i: -len(cases[i]['stream'])):
        cur.append(i)
        size += len(zbytes(cases[i]['stream'])) // 3 + 50
        if size > 60000 or len(cur) >= 200:
            model_shards.append(cur)
            cur, size = [], 0
    if cur:
        model_shards.append(cur)

    def lift(case, res):
        if case['mode'] in ('proto', 'mainloop'):
            return res
        out = []
        for r in res:
            if r[0] == 'M' and not (1 <= r[1] <= 6):
                out.append(('N', 1, 3))
                break
            out.append(r)
        return out

    lifted = [lift(c, r) for c, r in zip(cases, impl_outs)]

    def model_defs(idx):
        items = []
        for i in idx:
            c = cases[i]
            a = 'false' if c['mode'] == 'sync' else 'true'
            p = 'true' if c['mode'] in ('proto', 'mainloop') else 'false'
            items.append(f'({p}, {a}, {c["max"]}, {zbytes(c["stream"])}, {natlist(c["sched"])}, {coq_outs(impl_outs[i], "OMsg", "ONotify")})')
        return 'Definition cases : list (bool * bool * Z * list Z * list nat * list out) := [' + ';\n'.join(items) + '].\nEval vm_compute in (bad cases 0).\n'

    def spec_defs(idx):
        items = []
        for i in idx:
            c = cases[i]
            p = 'true' if c['mode'] in ('proto', 'mainloop') else 'false'
            items.append(f'({p}, {c["max"]}, {zbytes(c["stream"])}, {coq_outs(lifted[i], "FMsg", "FNotify")})')
        return 'Definition cases : list (bool * Z * list Z * list fout) := [' + ';\n'.join(items) + '].\nEval vm_compute in (bad cases 0).\n'

    model_bad, spec_bad = [], []
    mres = common.eval_cases(HEADER_MODEL, model_defs, model_shards, tag + '_m') if model else []
    model_ok = all(rc == 0 for rc, _, _ in mres)
    for shard, (rc, out, parsed) in zip(model_shards, mres):
        if rc == 0 and parsed:
            model_bad += [shard[j] for j in common.nat_list_of(parsed[0])]
    sres = common.eval_cases(HEADER_SPEC, spec_defs, model_shards, tag + '_s')
    spec_ok = all(rc == 0 for rc, _, _ in sres)
    for shard, (rc, out, parsed) in zip(model_shards, sres):
        if rc == 0 and parsed:
            spec_bad += [shard[j] for j in common.nat_list_of(parsed[0])]
    logs = [out for rc, out, _ in mres + sres if rc != 0]
    return model_ok, spec_ok, model_bad, spec_bad, logs, lifted


def proto_canon(outs):
    """Protocol.read_message results: delivered message ids / the Notify that ends the session."""
    res = []
    for o in outs:
        if o[0] == 'P':
            res.append(('M', o[1], []))
        elif o[0] == 'N':
            res.append(('N', o[1], o[2]))
    return res


def mid_message_timeout(case):
    """did a wait expire while a message was partly read (the situation the kept read exists for)?"""
    tr = case.get('trace')
    if not tr:
        return False
    s = bytes(case['stream'])
    pos, start = 0, 0
    for e in tr:
        if e == 'T':
            if pos > start:
                return True
            continue
        pos += e
        while pos - start >= 19:
            ln = int.from_bytes(s[start + 16 : start + 18], 'big')
            if ln < 19 or pos - start < ln:
                break
            start += ln
    return False


def describe(case, got):
    return {
        'main_loop_trace': case.get('trace'),
        'max': case['max'],
        'stream_hex': bytes(case['stream']).hex(),
        'recv_schedule': case['sched'][:64],
        'arrivals_gap_s_nbytes': case.get('arrivals'),
        'mode': case['mode'],
        'fault': case['fault'],
        'implementation_output': got,
    }


def shrink(case, still_fails):
    """Delta-debug the stream by dropping whole leading messages, then trailing bytes."""
    if case['mode'] == 'mainloop':
        return case
    cur = dict(case)
    changed = True
    while changed:
        changed = False
        s = bytes(cur['stream'])
        # drop a leading well-formed message
        if len(s) >= 19 and s[:16] == MARKER:
            ln = (s[16] << 8) | s[17]
            if 19 <= ln < len(s):
                cand = dict(cur, stream=list(s[ln:]), sched=[0] * 8)
                if still_fails(cand):
                    cur, changed = cand, True
                    continue
        # drop trailing bytes
        for cut in (len(s) // 2, 8, 1):
            if cut and len(s) - cut >= 19:
                cand = dict(cur, stream=list(s[: len(s) - cut]), sched=[0] * 8)
                if still_fails(cand):
                    cur, changed = cand, True
                    break
    return cur


def check(tier, seed):
    run = Run('C06', tier, seed)
    run.trusted = [
        'Coq 8.16.1 kernel (coqc), vm_compute for case evaluation; no native_compute',
        'translator translate/t1_header.py + py2coq.py (python ast, whitelisted shapes, fail-closed)',
        'harness/c06.py: FakeSock/FakeLoop substitution of the socket under Connection, generators, canonicalisation',
        'modelled, not verified: Connection._reader/_reader_async recv loop (hand model Model_Reader.read_loop), '
        'Protocol.read_message type dispatch (hand model deliver, constants regenerated)',
    ]
    run.assumptions = [
        'recv_into returns between 1 and len(view) bytes, or 0 at end of stream (POSIX stream socket contract)',
        'OS errors other than EAGAIN are outside the property (they end the session without interpreting data)',
    ]
    pc = common.standard_build(run, ['T1'])

    rng = random.Random(seed)
    n = 1500 if tier == 'quick' else 30000
    modes = ['async', 'sync', 'proto', 'async', 'sync', 'proto', 'real'] if tier == 'quick' else ['async', 'sync', 'proto', 'async', 'sync', 'proto', 'async', 'real']
    cases = [gen_case(rng, i, modes) for i in range(n)]
    cases += [gen_mainloop_case(rng) for _ in range(300 if tier == 'quick' else 5000)]
    if tier == 'thorough':
        cases += boundary_cases()
    else:
        bc = boundary_cases()
        rng2 = random.Random(seed + 1)
        cases += rng2.sample(bc, 250)
    # replays first
    impl = []
    t_impl = time.time()
    for c in cases:
        o = run_impl(c)
        impl.append(proto_canon(o) if c['mode'] in ('proto', 'mainloop') else canon(o))
    t_impl = time.time() - t_impl
    t_eval = time.time()
    model_ok, spec_ok, model_bad, spec_bad, logs, lifted = evaluate(run, cases, impl, 'c06')
    t_eval = time.time() - t_eval
    run.coverage['timing_s'] = {'implementation': round(t_impl, 1), 'coq_evaluation': round(t_eval, 1)}
    print(f'[C06] impl {t_impl:.1f}s coq eval {t_eval:.1f}s', flush=True)
    run.obligation('model evaluation (vm_compute of Model_Reader.reader on every case) ran', model_ok, '\n'.join(logs)[-2000:])
    run.obligation('spec evaluation (vm_compute of Spec_Frame.frames on every case) ran', spec_ok, '\n'.join(logs)[-2000:])
    run.obligation(
        f'correspondence: implementation output = model output on {len(cases)} cases',
        not model_bad,
        f'{len(model_bad)} disagreements, first: {describe(cases[model_bad[0]], impl[model_bad[0]]) if model_bad else ""}',
    )
    t_ok, t_bad, t_n, t_logs = evaluate_traces(cases, impl, 'c06')
    n_timeouts = sum(c.get('trace', []).count('T') for c in cases)
    run.coverage['main_loop_traces'] = {'runs': t_n, 'expired_waits': n_timeouts,
                                        'runs_with_a_wait_expiring_inside_a_message': sum(1 for c in cases if mid_message_timeout(c))}
    run.obligation(
        f'correspondence (read step of Peer._main): the recorded recv/timeout trace of {t_n} main-loop runs replayed on '
        'Model_Reader.main_reader delivers what the implementation delivered',
        t_ok and not t_bad,
        (f'{len(t_bad)} disagreements, first: {describe(cases[t_bad[0]], impl[t_bad[0]])}' if t_bad else '\n'.join(t_logs)[-1500:]),
    )
    run.obligation(
        f'property oracle: implementation output = RFC framing (Spec_Frame.frames) on {len(cases)} cases',
        not spec_bad,
        f'{len(spec_bad)} failing inputs',
    )

    def sig_of(c, got):
        last = got[-1] if got else None
        tail = (last[0] + str(last[1]) + '/' + str(last[2] if last[0] == 'N' else '')) if last else 'nothing'
        return f'{c["fault"]}:{c["mode"]}:{tail}'

    def fails_with(sig):
        def pred(c):
            o = run_impl(c)
            r = proto_canon(o) if c['mode'] in ('proto', 'mainloop') else canon(o)
            _, ok, _, sb, _, lf = evaluate(run, [c], [r], 'c06_shrink', model=False)
            return ok and bool(sb) and sig_of(c, lf[0]) == sig

        return pred

    seen_sig = set()
    for i in spec_bad[:40]:
        c = cases[i]
        s = bytes(c['stream'])
        sig = sig_of(c, lifted[i])
        if sig in seen_sig:
            continue
        seen_sig.add(sig)
        small = shrink(c, fails_with(sig))
        o = run_impl(small)
        run.fail_case(sig, 'implementation framing differs from RFC 4271 framing of the same stream', describe(small, o))

    # coverage
    import collections

    dist = collections.Counter((c['mode'], c['fault']) for c in cases)
    styles = collections.Counter(c['style'] for c in cases)
    sizes = collections.Counter(min(len(c['stream']) // 100 * 100, 5000) for c in cases)
    distinct = len({(c['max'], bytes(c['stream']), tuple(c['sched']), c['mode']) for c in cases if len(c['stream']) >= 19})
    run.coverage.update(
        {
            'evaluations': len(cases),
            'distinct_nontrivial': distinct,
            'rule': 'random streams of 0-5 well-formed messages followed by at most one fault (bad marker, length <19, '
            '>max, per-type bound, unknown type, truncation) and trailing messages, under 5 segmentation styles incl. '
            '1-byte reads and reads spanning messages, both maxima, 4 entry points (reader_async, reader, '
            'Protocol.read_message on a scripted socket, reader_async on a real socketpair); plus the type x length '
            'boundary table. non-trivial = distinct (max, stream, schedule, entry point) with at least one full header',
            'distribution': {f'{m}/{f}': k for (m, f), k in sorted(dist.items())},
            'segmentation_styles': dict(styles),
            'stream_size_histogram': {str(k): v for k, v in sorted(sizes.items())},
            'exhaustive': False,
        }
    )
    for c, r in list(zip(cases, lifted))[:3]:
        run.samples.append({'max': c['max'], 'stream_hex': bytes(c['stream']).hex()[:200], 'sched': c['sched'][:20], 'mode': c['mode'], 'output': str(r)[:200]})
    if run.broken() and not run.failing:
        run.coverage['search'] = (
            f'{len(cases)} generated cases and the type x length boundary table were run on the implementation and '
            'judged by Spec_Frame.frames; none failed'
        )
    return run.finish(checker_cmd='make -C coq props/Prop_C06.vo && coqc -Q coq ExaV coq/props/Prop_C06.v (Print Assumptions)')
