"""C14 - API commands: same order, one acknowledgement each, no side effects on error.  T7 + H-api.

Part A (intake): byte streams of command lines are written to os.pipe()s behind a REAL
`Processes` object and read by the real `_async_reader_callback` in scripted chunks, commands are
popped by the real `received_async`; compared with Model_Api.run evaluated in Coq (correspondence)
and with `stream.split('\n')` / the single-read delivery (property oracle).
Part B (execution): harness/apirig.PipeRig = real Reactor/API/Configuration/neighbors/RIBs AND the
real Processes (answers are read back from the pipe); random command sequences in both API
versions; every neighbor's outgoing RIB (cache + pending queues + watchdog sets) is snapshotted
around every command.  Property oracle: exactly one terminal reply per command, in order; `error`
implies no RIB changed; a selector-carrying command changes only neighbors matching every term
(match set computed here from the neighbor definitions).  Correspondence: Model_Api.exec /
Model_Api.select evaluated in Coq on the same (before, outcome class) give the same tables, ack
state, replies and peer sets."""

from __future__ import annotations

import collections
import json
import os
import random
import re
import sys
import time

from harness import common
from harness.common import Run, zlist, zbytes

SERVICE = 'svc'

NEIGHBORS = [
    # the IPv6 session comes first: "next-hop self" on an IPv6 route resolves for it and fails for the next one
    {'ip': '2001:db8::2', 'local-ip': '2001:db8::1', 'local-as': '65000', 'peer-as': '65002', 'router-id': '1.2.3.4'},
    {'ip': '127.0.0.2', 'local-ip': '127.0.0.1', 'local-as': '65000', 'peer-as': '65001', 'router-id': '1.2.3.4'},
    {'ip': '127.0.0.3', 'local-ip': '127.0.0.1', 'local-as': '65000', 'peer-as': '65000', 'router-id': '1.2.3.4'},
    {'ip': '127.0.0.4', 'local-ip': '127.0.0.9', 'local-as': '65010', 'peer-as': '65001', 'router-id': '1.2.3.5'},
]
for _n in NEIGHBORS:
    _n['family-allowed'] = 'in-open'
KEYS = ['family-allowed', 'local-as', 'local-ip', 'peer-as', 'router-id']  # = sorted SELECTOR_KEYS (checked in Coq)

CONF = '\n'.join(
    f"neighbor {n['ip']} {{ router-id {n['router-id']}; local-address {n['local-ip']}; local-as {n['local-as']}; "
    f"peer-as {n['peer-as']};\n  family {{ ipv4 unicast; ipv6 unicast; }}\n"
    f"  static {{ route 10.99.0.0/24 next-hop 1.2.3.4 watchdog dog withdraw; }} }}"
    for n in NEIGHBORS
)

PREFIXES = ['10.0.0.0/24', '10.0.1.0/24', '10.0.2.0/24', '10.0.3.0/24', '10.1.0.0/25', '10.1.0.128/25',
            '2001:db8:1::/48', '10.99.0.0/24']
K_SPLIT = (4, 5)
K_V6 = 6
K_DOG = 7


# ------------------------------------------------------------------------------- text helpers


def normalise(line: str) -> list[str]:
    """Independent statement of what a line means as a command: its tokens, brackets/commas apart."""
    for ch in '[](),':
        line = line.replace(ch, f' {ch} ')
    return line.split()


def py_commands(stream: bytes):
    """Property oracle for the intake: complete lines of stream.split('\\n'), debug lines dropped."""
    text = stream.decode('ascii')
    out = []
    for line in text.split('\n')[:-1]:
        if line.rstrip().startswith('debug '):
            continue
        out.append(normalise(line))
    return out


# ------------------------------------------------------------------------------- part A: intake


def gen_line(rng):
    r = rng.random()
    if r < 0.08:
        return ''
    if r < 0.14:
        return 'debug ' + rng.choice(['x', 'peer * announce route 1.1.1.1/32 next-hop 1.1.1.1', ''])
    if r < 0.18:
        return rng.choice(['debug', ' debug x', 'debugger on', '#', '# a comment', '   ', '\t'])
    words = []
    for _ in range(rng.randint(1, 6)):
        words.append(rng.choice(['peer', 'announce', 'route', '10.0.0.0/24', 'next-hop', '1.2.3.4', '*', '[', ']', ',',
                                 '[127.0.0.2,127.0.0.3]', 'community', '[65000:1', '65000:2]', '(', ')', 'a,b', 'x' * rng.randint(1, 12),
                                 'med', '100', '\x1c', '\x0b', 'as-path', '[1,2]']))
    sep = rng.choice([' ', ' ', ' ', '  ', '\t', ' \t '])
    line = sep.join(words)
    if rng.random() < 0.15:
        line = rng.choice([' ', '\t', '  ']) + line
    if rng.random() < 0.2:
        line = line + rng.choice([' ', '\t', '\r', ' \r', '\x1f'])
    return line


def gen_stream(rng, kind):
    n = rng.choice([0, 1, 2, 3, 4, 6, 9])
    lines = [gen_line(rng) for _ in range(n)]
    if kind == 'long' and lines:
        lines[rng.randrange(len(lines))] = 'announce ' + 'y' * rng.choice([500, 1500, 3000])
    eol = '\r\n' if rng.random() < 0.15 else '\n'
    text = ''.join(ln + eol for ln in lines)
    if rng.random() < 0.5:
        text += rng.choice(['peer * anno', 'x', ' ', 'debug unfinished'])
    return text.encode('ascii')


def cut(rng, data: bytes, style):
    if style == 'one':
        return [data[i:i + 16384] for i in range(0, len(data), 16384)] or [b'']
    if style == 'bytes':
        return [data[i:i + 1] for i in range(len(data))]
    out, i = [], 0
    while i < len(data):
        n = rng.choice([1, 1, 2, 3, 5, 8, 13, 40, 100, 400]) if style == 'small' else rng.choice([0, 1, 7, 60, 300, 2000])
        out.append(data[i:i + n])
        i += n
    return out


def gen_intake_case(rng, malformed):
    nsvc = rng.choice([1, 1, 2, 3])
    max_size = None
    style = rng.choice(['one', 'bytes', 'small', 'mixed'])
    # the model's split is quadratic in the line length per read: long lines only with large reads
    kind = rng.choice(['plain', 'plain', 'long']) if style in ('one', 'mixed') else 'plain'
    streams = [gen_stream(rng, kind) for _ in range(nsvc)]
    if malformed:
        what = rng.choice(['nonascii', 'oversize', 'oversize'])
        if what == 'nonascii':
            s = bytearray(streams[0] or b'x\n')
            s.insert(rng.randrange(len(s) + 1), rng.choice([128, 200, 255]))
            streams[0] = bytes(s)
        else:
            max_size = rng.choice([8, 20, 40])
    if sum(len(s) for s in streams) > 1200 and style == 'bytes':
        style = 'small'
    chunks = [cut(rng, s, style) for s in streams]
    # a schedule: interleave the per-service chunk lists and sprinkle pops
    idx = [0] * nsvc
    evs = []
    while any(idx[s] < len(chunks[s]) for s in range(nsvc)):
        s = rng.choice([s for s in range(nsvc) if idx[s] < len(chunks[s])])
        evs.append(['R', s, chunks[s][idx[s]]])
        idx[s] += 1
        while rng.random() < 0.25:
            evs.append(['P'])
    for _ in range(rng.choice([0, 0, 3, 1000])):
        evs.append(['P'])
    return {'streams': streams, 'evs': evs, 'max': max_size, 'malformed': malformed, 'style': style, 'long': kind == 'long'}


def run_intake_impl(case):
    """-> (executed [(svc, cmd)], queue [(svc, cmd)], buffers [None (process ended) | str])"""
    from harness.apirig import real_processes, feed_chunk

    names = [f's{i}' for i in range(len(case['streams']))]
    procs, fakes = real_processes(names, case['max'])
    executed = []
    try:
        for e in case['evs']:
            if e[0] == 'R':
                feed_chunk(procs, fakes, names[e[1]], e[2])
            else:
                pops = 0
                for svc, cmd in procs.received_async():
                    executed.append((names.index(svc), cmd))
                    pops += 1
                    if pops > 1:
                        raise RuntimeError('received_async yielded more than one command')
        queue = [(names.index(s), c) for s, c in procs._command_queue]
        bufs = [procs._buffer.get(n, '') if n in procs._process else None for n in names]
    finally:
        for fp in fakes.values():
            fp.close()
    return executed, queue, bufs


def zs(s) -> str:
    return zbytes(s if isinstance(s, (bytes, bytearray)) else s.encode('latin-1'))


INTAKE_HEADER = """From Coq Require Import ZArith Bool List.
From ExaV Require Import gen.Gen_Limit model.Model_Api spec.Spec_Api.
Import ListNotations. Open Scope Z_scope.
Fixpoint zleq (a b : list Z) : bool :=
  match a, b with [], [] => true | x :: a', y :: b' => (x =? y) && zleq a' b' | _, _ => false end.
Fixpoint cmdseq (a b : list (Z * list Z)) : bool :=
  match a, b with [], [] => true | (s, x) :: a', (t, y) :: b' => (s =? t) && zleq x y && cmdseq a' b' | _, _ => false end.
Definition bufeq (st : rstate) (o : option (list Z)) : bool :=
  match st, o with Dead, None => true | Alive b, Some b' => zleq b b' | _, _ => false end.
Fixpoint bufseq (f : Z -> rstate) (i : Z) (l : list (option (list Z))) : bool :=
  match l with [] => true | o :: r => bufeq (f i) o && bufseq f (i + 1) r end.
(* case: limit (0 = the translated MAX_COMMAND_SIZE), events, executed, waiting, buffers *)
Definition okc (c : Z * list ev * list (Z * list Z) * list (Z * list Z) * list (option (list Z))) : bool :=
  match c with (m, evs, ex, q, bs) =>
    let max := if m =? 0 then MAX_COMMAND_SIZE else m in
    match run max init_sys evs with (st, x) => cmdseq x ex && cmdseq (queue st) q && bufseq (bufs st) 0 bs end end.
(* the specification side: complete lines of the whole stream, as commands *)
Definition okspec (c : list Z * list (list Z)) : bool :=
  match c with (stream, cmds) =>
    (fix go (a b : list (list Z)) : bool := match a, b with [], [] => true | x :: a', y :: b' => zleq x y && go a' b' | _, _ => false end)
      (commands (complete_lines stream)) cmds end.
Fixpoint bad {A} (f : A -> bool) (l : list A) (i : nat) : list nat :=
  match l with [] => [] | c :: l' => if f c then bad f l' (S i) else i :: bad f l' (S i) end.
"""


def coq_intake_case(case, obs):
    executed, queue, bufs = obs
    # a callback invocation with nothing in the pipe is os.read -> EAGAIN (the OSError branch: no effect), not a
    # read of zero bytes: it is not an event of the model
    evs = '[' + ';'.join(f'Read {e[1]} {zs(e[2])}' if e[0] == 'R' else 'Pop' for e in case['evs'] if e[0] != 'R' or e[2]) + ']'
    ex = '[' + ';'.join(f'({s},{zs(c)})' for s, c in executed) + ']'
    q = '[' + ';'.join(f'({s},{zs(c)})' for s, c in queue) + ']'
    bs = '[' + ';'.join('None' if b is None else f'Some {zs(b)}' for b in bufs) + ']'
    return f'({case["max"] or 0}, {evs}, {ex}, {q}, {bs})'


# ------------------------------------------------------------------------------- part B: commands


def matches(defs, n):
    """The property's reading of a selector: one definition matches when the address is the neighbor's
    (or *) and EVERY key/value term is the neighbor's; no definition = every neighbor."""
    if defs is None or not defs:
        return True
    for d in defs:
        ok = True
        for t in d:
            if t[0] == 'ip':
                ok = ok and (t[1] == '*' or t[1] == n['ip'])
            else:
                ok = ok and n.get(t[1]) == t[2]
        if ok:
            return True
    return False


def gen_def(rng):
    """one selector definition: [('ip', x), ('key', k, v)...] mostly matching something"""
    n = rng.choice(NEIGHBORS)
    r = rng.random()
    ip = n['ip'] if r < 0.85 else rng.choice(['10.9.9.9', '127.0.0.22', '2001:db8::3'])
    d = [('ip', ip)]
    for _ in range(rng.choice([0, 0, 0, 1, 1, 2])):
        k = rng.choice(['local-ip', 'local-as', 'peer-as', 'router-id', 'family-allowed'])
        if rng.random() < 0.7:
            v = n[k]
        else:
            v = rng.choice([m[k] for m in NEIGHBORS] + {'local-as': ['99', '6500'], 'peer-as': ['0', '650010'], 'local-ip': ['127.0.0.10'],
                                                         'router-id': ['1.2.3'], 'family-allowed': ['in-config']}[k])
        d.append(('key', k, v))
    return d


def def_text(d):
    return ' '.join(t[1] if t[0] == 'ip' else f'{t[1]} {t[2]}' for t in d)


def gen_selector(rng, version):
    """-> (text prefix ending with a space or '', defs or None)"""
    r = rng.random()
    if version == 6:
        if r < 0.25:
            return 'peer * ', [[('ip', '*')]]
        if r < 0.65:
            d = gen_def(rng)
            return f'peer {def_text(d)} ', [d]
        defs = [gen_def(rng) for _ in range(rng.choice([1, 2, 2, 3]))]
        inner = rng.choice([' , ', ', ', ','])
        body = inner.join(def_text(d) for d in defs)
        return rng.choice([f'peer [ {body} ] ', f'peer [{body}] ']), defs
    # version 4
    if r < 0.25:
        return '', None
    if r < 0.35:
        return 'neighbor * ', [[('ip', '*')]]
    if r < 0.42:
        d = gen_def(rng)
        d[0] = ('ip', '*')
        return f'neighbor {def_text(d)} ', [d]
    if r < 0.8:
        d = gen_def(rng)
        return f'neighbor {def_text(d)} ', [d]
    defs = [gen_def(rng) for _ in range(2)]
    return 'neighbor ' + ' , neighbor '.join(def_text(d) for d in defs) + ' ', defs


ATTR_BAD = ['med abc', 'local-preference x', 'origin bogus', 'community [ bogus ]', 'as-path [ a ]', 'next-hop 1.2.3', 'med']
PREFIX_BAD = ['10.0.0.0/33', '300.0.0.0/24', 'bogus', '10.0.0/24/1', '10.0.0.0/40']


def gen_route_body(rng):
    """-> (text after the selector, kind, ops or None, apriori)"""
    r = rng.random()
    k = rng.randrange(4)
    med = rng.choice([0, 1, 2, 3])
    nh = rng.choice(['1.2.3.4', '1.2.3.4', '192.0.2.1', 'self'])
    medtxt = f' med {med}' if med else ''
    extra = rng.choice(['', '', ' local-preference 100', ' community [ 65000:1 65000:2 ]', ' origin igp'])
    if r < 0.30:
        return f'announce route {PREFIXES[k]} next-hop {nh}{medtxt}{extra}', 'route', [('A', k, med)], 'valid'
    if r < 0.42:
        w = rng.choice(['', f' next-hop {nh}'])
        return f'withdraw route {PREFIXES[k]}{w}', 'route', [('W', k)], 'valid'
    if r < 0.50:
        ks = rng.sample(range(4), rng.choice([2, 3]))
        return (f'announce attributes next-hop 1.2.3.4{medtxt} nlri ' + ' '.join(PREFIXES[i] for i in ks), 'route',
                [('A', i, med) for i in ks], 'valid')
    if r < 0.54:
        ks = rng.sample(range(4), 2)
        return 'withdraw attributes next-hop 1.2.3.4 nlri ' + ' '.join(PREFIXES[i] for i in ks), 'route', [('W', i) for i in ks], 'valid'
    if r < 0.58:
        return f'announce route 10.1.0.0/24 next-hop 1.2.3.4{medtxt} split /25', 'route', [('A', K_SPLIT[0], med), ('A', K_SPLIT[1], med)], 'valid'
    if r < 0.62:
        return f'announce ipv4 unicast {PREFIXES[k]} next-hop 1.2.3.4{medtxt}', 'route', [('A', k, med)], 'valid'
    if r < 0.66:
        # an IPv6 route: "next-hop self" resolves on the IPv6 session only
        nh6 = rng.choice(['2001:db8::99', 'self', 'self'])
        return f'announce route {PREFIXES[K_V6]} next-hop {nh6}{medtxt}', 'route6-self' if nh6 == 'self' else 'route', [('A', K_V6, med)], 'valid'
    if r < 0.70:
        ks = rng.sample(range(4), 2)
        return (f'announce attributes next-hop 1.2.3.4{medtxt} nlri ' + ' '.join(PREFIXES[i] for i in ks) + ' ' + rng.choice(PREFIX_BAD),
                'route', None, 'invalid')
    if r < 0.78:
        return f'announce route {PREFIXES[k]} next-hop 1.2.3.4 {rng.choice(ATTR_BAD)}', 'route', None, 'invalid'
    if r < 0.83:
        return f'announce route {rng.choice(PREFIX_BAD)} next-hop 1.2.3.4', 'route', None, 'invalid'
    if r < 0.87:
        return rng.choice([f'announce route {PREFIXES[k]}', 'announce route', f'announce route {PREFIXES[k]} next-hop', 'withdraw route',
                           f'announce route {PREFIXES[k]} next-hop 1.2.3.4 med 4294967296']), 'route', None, 'invalid'
    if r < 0.90:
        return rng.choice(['announce watchdog dog', 'withdraw watchdog dog']), 'watchdog', None, 'valid'
    if r < 0.92:
        return 'teardown 6', 'noop', [], 'valid'
    if r < 0.94:
        return rng.choice(['announce eor ipv4 unicast', 'announce route-refresh ipv4 unicast']), 'refused', None, 'refused'
    if r < 0.97:
        return rng.choice(['frobnicate', 'announce bogus 1.2.3.4', 'announce', 'withdraw', 'announce rout 10.0.0.0/24', 'bogus-key 1 announce route 10.0.0.0/24 next-hop 1.2.3.4']), 'unknown', None, 'unknown'
    return rng.choice([f'routes add route {PREFIXES[k]} next-hop 1.2.3.4{medtxt}', f'routes remove route {PREFIXES[k]}', 'routes list']), 'routes', None, 'valid'


def gen_command(rng, version, grouping):
    """-> dict(line, kind, defs, ops, apriori, ack)"""
    r = rng.random()
    c = {'defs': None, 'ops': None, 'ack': None, 'sub': None}
    if r < 0.70:
        body, kind, ops, apriori = gen_route_body(rng)
        if kind == 'watchdog':
            act = 'A' if body.startswith('announce') else 'W'
            ops = [(act, K_DOG, 0)] if act == 'A' else [('W', K_DOG)]
        if kind == 'routes' and version == 4:
            sel_text, defs = gen_selector(rng, 6)
        else:
            sel_text, defs = gen_selector(rng, version)
        if kind == 'routes':
            if 'add' in body:
                m = re.search(r'route (\S+) next-hop \S+(?: med (\d+))?', body)
                ops = [('A', PREFIXES.index(m.group(1)), int(m.group(2) or 0))]
            elif 'remove' in body:
                ops = [('W', PREFIXES.index(body.split()[3]))]
            else:
                ops = []
        c.update(line=sel_text + body, kind=kind, defs=defs, ops=ops, apriori=apriori)
        if version == 6 and rng.random() < 0.08 and kind in ('route', 'route6-self') and not grouping:
            # inline group: two sub-commands under one selector
            b2, k2, o2, a2 = gen_route_body(rng)
            if k2 == 'route' and b2.split()[0] in ('announce', 'withdraw') and ' attributes ' not in b2 and kind == 'route':
                subs = [(body, ops, apriori), (b2, o2, a2)]
                gops = [o for _, so, sa in subs if sa == 'valid' and so for o in so]
                c.update(line=sel_text + 'group ' + ' ; '.join(s[0] for s in subs), kind='group-inline', ops=gops, apriori='valid',
                         sub=[[s[1], s[2], 'route'] for s in subs])
        return c
    if r < 0.76:
        line = {6: ['rib flush out', 'rib clear out', 'rib clear in'], 4: ['flush adj-rib out', 'clear adj-rib out', 'clear adj-rib in']}[version]
        i = rng.randrange(3)
        c.update(line=line[i], kind='rib', ops=[['R'], ['C'], []][i], apriori='valid')
        return c
    if r < 0.80:
        a = rng.choice(['enable', 'disable', 'silence', 'enable'])
        c.update(line={6: f'session ack {a}', 4: f'{a}-ack'}[version], kind='session', apriori='session', ack=a, ops=[])
        return c
    if r < 0.90:
        v6 = ['system version', 'system help', 'session ping', '# remark', '', 'rib show out', 'peer show summary', 'peer list',
              'system queue-status', 'session sync enable', 'session sync disable']
        v4 = ['version', 'help', 'ping', '# remark', '', 'show adj-rib out', 'show neighbor summary', 'queue-status', 'enable-sync', 'disable-sync']
        c.update(line=rng.choice(v6 if version == 6 else v4), kind='noop', ops=[], apriori='valid')
        return c
    if r < 0.95:
        c.update(line=rng.choice(['bogus', 'peer', 'peer *', 'neighbor', 'neighbor 127.0.0.2', 'rib', 'rib frob', 'announce', 'daemon', 'session ack',
                                  'show', 'peer 127.0.0.2 local-as', 'peer [ 127.0.0.2', 'flush adj-rib', 'neighbor 127.0.0.2 flush adj-rib out']),
                 kind='unknown', apriori='unknown')
        return c
    if version == 6:
        c.update(line=rng.choice(['group start', 'group end']), kind='group', apriori='valid', ops=[])
    else:
        c.update(line='peer 127.0.0.3 routes list', kind='routes', defs=[[('ip', '127.0.0.3')]], ops=[], apriori='valid')
    return c


def gen_sequence(rng, version):
    n = rng.choice([3, 6, 10, 14, 20])
    cmds = [gen_command(rng, version, False) for _ in range(n)]
    if version == 6 and rng.random() < 0.3:
        # a multi-line group: bare announce/withdraw lines are stored until `group end`
        block = [{'line': 'group start', 'kind': 'group', 'defs': None, 'ops': [], 'apriori': 'valid', 'ack': None, 'sub': None}]
        for _ in range(rng.choice([0, 1, 2, 4])):
            body, kind, ops, apriori = gen_route_body(rng)
            if kind != 'route':
                continue
            block.append({'line': body, 'kind': 'route', 'defs': None, 'ops': ops, 'apriori': apriori, 'ack': None, 'sub': None})
        if rng.random() < 0.5:
            block.append(gen_command(rng, version, True))  # a selector-carrying command inside the block is executed at once
        block.append({'line': 'group end', 'kind': 'group', 'defs': None, 'ops': [], 'apriori': 'valid', 'ack': None, 'sub': None})
        at = rng.randrange(len(cmds) + 1)
        cmds[at:at] = block
    return cmds


def decorate(rng, line):
    """the same command, written a little differently (what formated() is there for)"""
    r = rng.random()
    if r < 0.1:
        line = line.replace(' ', '  ', 1)
    elif r < 0.15:
        line = line.replace(' ', '\t', 1)
    if rng.random() < 0.1:
        line += rng.choice([' ', '\r', '\t'])
    return line


def snapshot(rig):
    """per neighbor (by address): everything the outgoing RIB holds"""
    snap = {}
    for n in rig.configuration.neighbors.values():
        rib = n.rib.outgoing
        cache = sorted(r.extensive() for r in rib.cached_routes())
        pend = sorted(r.extensive() for r in rib._new_nlri.values())
        wd = sorted((str(f), i.hex()) for f, d in rib._pending_withdraws.items() for i in d)
        refresh = [r.extensive() for r in rib._refresh_routes]
        dog = sorted((name, sign, sorted(i.hex() for i in d)) for name, signs in rib._watchdog.items() for sign, d in signs.items())
        snap[str(n.session.peer_address)] = (cache, pend, wd, refresh, dog)
    return snap


EXTRA_KEYS = {}


def cache_pairs(cache_lines):
    """['10.0.0.0/24 next-hop 1.2.3.4 med 2', ...] -> sorted [(prefix key, med)]"""
    out = []
    for text in cache_lines:
        prefix = text.split()[0]
        if prefix in PREFIXES:
            k = PREFIXES.index(prefix)
        else:
            k = EXTRA_KEYS.setdefault(prefix, 100 + len(EXTRA_KEYS))
        m = re.search(r' med (\d+)', text)
        out.append((k, int(m.group(1)) if m else 0))
    return sorted(out)


TERMINAL = {'done': 'D', 'error': 'E'}


def terminal_replies(lines):
    from exabgp.reactor.api.response.answer import Answer

    out = []
    i = 0
    while i < len(lines):
        ln = lines[i]
        if ln == Answer.json_error:
            # reading decision: the JSON error line and the bare `error` that follows it are ONE reply
            out.append(('E', i + 1 if i + 1 < len(lines) and lines[i + 1] == Answer.text_error else i))
            i += 2 if i + 1 < len(lines) and lines[i + 1] == Answer.text_error else 1
            continue
        if ln == Answer.json_done:
            out.append(('D', i))
        elif ln in TERMINAL:
            out.append((TERMINAL[ln], i))
        i += 1
    return out


class SeqResult:
    def __init__(self):
        self.steps = []  # dict per executed command
        self.problems = []  # (sig, what, index)


def run_sequence(version, cmds, chunk_seed, decorate_lines=True):
    """Feed the command lines as one byte stream in random pieces (reads and main-loop iterations
    interleaved) through a fresh PipeRig; -> SeqResult"""
    from harness.apirig import PipeRig
    from exabgp.reactor.api.command.group import clear_group

    rng = random.Random(chunk_seed)
    from exabgp.rib import RIB

    clear_group(SERVICE)
    RIB._cache.clear()  # RIB objects are shared by neighbor name across Configuration objects: every sequence is a fresh daemon
    rig = PipeRig(CONF, api_version=version, services=(SERVICE,))
    res = SeqResult()
    try:
        lines = [decorate(rng, c['line']) if decorate_lines else c['line'] for c in cmds]
        stream = ''.join(ln + rng.choice(['\n', '\n', '\n', '\r\n']) for ln in lines).encode('ascii')
        pieces = cut(rng, stream, rng.choice(['one', 'small', 'mixed', 'bytes' if len(stream) < 600 else 'small']))
        names = [k for k in rig.configuration.neighbors]
        addr_of = {k: str(n.session.peer_address) for k, n in rig.configuration.neighbors.items()}
        done = 0
        ack_on = True

        def group_buffer():
            from exabgp.reactor.api.command import group as group_cmd

            buf = group_cmd._GROUP_BUFFERS.get(SERVICE)
            return None if buf is None else [command for _, command in buf]

        def one_step():
            nonlocal done, ack_on
            before = snapshot(rig)
            ack_before = rig.processes._ack[SERVICE]
            gbuf_before = group_buffer()
            r = rig.step()
            if r is None:
                return False
            svc, command, replies = r
            after = snapshot(rig)
            grouping = gbuf_before is not None
            c = cmds[done]
            idx = done
            done += 1
            lines_back = replies[SERVICE]
            terms = terminal_replies(lines_back)
            changed = sorted(a for a in after if after[a] != before[a])
            st = {'i': idx, 'line': c['line'], 'command': command, 'replies': lines_back, 'terminal': [t for t, _ in terms],
                  'changed': changed, 'before': before, 'after': after, 'ack_before': ack_before,
                  'ack_after': rig.processes._ack[SERVICE], 'kind': c['kind'], 'grouping': grouping,
                  'gbuf_before': gbuf_before, 'gbuf_after': group_buffer(), 'popped': getattr(rig, 'last_popped', 1),
                  'scheduled': getattr(rig, 'last_scheduled', None), 'arrived': len(rig.processes._command_queue) + done}
            # ---- order: the command handed to API.process is the idx-th line
            if command.split() != normalise(c['line']) and normalise(command) != normalise(c['line']):
                res.problems.append(('order:command-differs-from-line', f'command #{idx} is {command!r}, the line written was {c["line"]!r}', idx))
            # ---- what the harness expects from its own knowledge of the sequence
            buffered = grouping and version == 6 and c['line'].strip().lower().startswith(('announce', 'withdraw'))
            expect_match = [n['ip'] for n in NEIGHBORS if matches(c['defs'], n)] if c['defs'] is not None else None
            st['expect_match'] = expect_match
            st['buffered'] = buffered
            # ---- P1 one terminal reply, last, when acknowledgements are on
            expect_reply = ack_on
            if c['kind'] == 'session':
                expect_reply = {'enable': True, 'disable': True, 'silence': False}[c['ack']]
            if expect_reply:
                if len(terms) != 1:
                    sig = 'ack:routes-command-no-terminal-reply' if (c['kind'] == 'routes' and not terms) else f'ack:{len(terms)}-terminal-replies'
                    res.problems.append((sig, f'command #{idx} {c["line"]!r} (acknowledgements on) was answered {lines_back!r}: '
                                              f'{len(terms)} terminal done/error replies instead of one', idx))
                elif terms[0][1] != len(lines_back) - 1:
                    res.problems.append(('ack:terminal-not-last', f'command #{idx} {c["line"]!r}: lines follow the terminal reply: {lines_back!r}', idx))
            elif terms:
                res.problems.append(('ack:reply-while-off', f'command #{idx} {c["line"]!r}: acknowledgements are off but got {lines_back!r}', idx))
            if c['kind'] == 'session':
                ack_on = c['ack'] == 'enable'
            # ---- P2 error => nothing changed
            if 'E' in st['terminal'] and changed:
                sig = 'error-with-effect:next-hop-self-partial' if c['kind'] == 'route6-self' else 'error-with-effect:other'
                res.problems.append((sig, f'command #{idx} {c["line"]!r} was answered error but changed the RIB of {changed}', idx))
            # ---- P3 selector containment
            if c['defs'] is not None and not buffered:
                outside = [a for a in changed if a not in expect_match]
                if outside:
                    if not expect_match and c['line'].startswith('peer '):
                        sig = 'selector:v6-no-match-applies-to-all'
                    elif c['kind'] == 'watchdog':
                        sig = 'selector:watchdog-ignores-selector'
                    elif version == 4 and any(d[0] == ('ip', '*') and len(d) > 1 for d in c['defs']):
                        sig = 'selector:v4-wildcard-ignores-terms'
                    else:
                        sig = 'selector:other'
                    res.problems.append((sig, f'command #{idx} {c["line"]!r}: selector matches {expect_match} but the RIB of {outside} changed', idx))
            # ---- P5 a group is all-or-nothing: it reports a sub-command it could not use => nothing changed
            if c['kind'] in ('group', 'group-inline') and changed:
                bad_part = None
                for ln in lines_back:
                    m = re.search(r'"errors": \[(.*)\]', ln) or re.search(r', (\d+ errors)', ln)
                    if m:
                        bad_part = m.group(1)
                if bad_part:
                    sig = 'group:inline-partial-application' if c['kind'] == 'group-inline' else 'group:end-partial-application'
                    res.problems.append((sig, f'command #{idx} {c["line"]!r} reports {bad_part[:200]} yet changed the RIB of {changed} '
                                              f'(answered {st["terminal"]}): a command that fails to parse changes no RIB, and a group is all-or-nothing', idx))
            res.steps.append(st)
            return True

        for p in pieces:
            rig.feed(SERVICE, p)
            while rng.random() < 0.3:
                if not one_step():
                    break
        while one_step():
            pass
        if done != len(cmds):
            res.problems.append(('order:lost-commands', f'{len(cmds)} lines written, {done} commands executed', done))
        # peers the real dispatcher selects, for the selector correspondence (no side effects)
        from exabgp.reactor.api.dispatch import dispatch_v4, dispatch_v6, UnknownCommand, NoMatchingPeers
        from exabgp.configuration.core.format import formated

        for st, c in zip(res.steps, cmds):
            st['dispatch'] = None
            if c['defs'] is None or c['kind'] in ('unknown',):
                continue
            try:
                _, peers, _ = (dispatch_v6 if version == 6 else dispatch_v4)(formated(c['line']), rig.reactor, SERVICE)
                st['dispatch'] = sorted(addr_of[p] for p in peers)
            except NoMatchingPeers:
                st['dispatch'] = []
            except UnknownCommand:
                st['dispatch'] = 'unknown'
    finally:
        clear_group(SERVICE)
        rig.close()
    return res


# ------------------------------------------------------------------------------- part B: Coq side

EXEC_HEADER = """From Coq Require Import ZArith Bool List.
From ExaV Require Import gen.Gen_Limit model.Model_Api.
Import ListNotations. Open Scope Z_scope.
Definition peq (a b : Z * Z) : bool := (fst a =? fst b) && (snd a =? snd b).
Definition ceq (a b : cache) : bool :=
  forallb (fun x => existsb (peq x) b) a && forallb (fun x => existsb (peq x) a) b.
Fixpoint req (a b : ribs) : bool :=
  match a, b with [], [] => true | (n, c) :: a', (m, d) :: b' => (n =? m) && ceq c d && req a' b' | _, _ => false end.
Definition rcode (r : reply) : Z := match r with Done => 1 | Error => 2 end.
Fixpoint zleq (a b : list Z) : bool :=
  match a, b with [], [] => true | x :: a', y :: b' => (x =? y) && zleq a' b' | _, _ => false end.
(* case: tables before, ack before, outcome, tables after, ack after, terminal replies (1 done, 2 error) *)
Definition okc (c : ribs * bool * outcome * ribs * bool * list Z) : bool :=
  match c with (before, ack, o, after, ack', reps) =>
    match exec (mkX before ack) o with (st, r) =>
      req (x_ribs st) after && Bool.eqb (x_ack st) ack' && zleq (map rcode r) reps end end.
(* selector case: definitions, the peer ids the real dispatcher returned *)
Definition NS : list neighbor := %s.
Definition oksel (c : list (list term) * list Z) : bool :=
  match c with (sel, peers) => zleq (select sel NS) peers end.
(* group case: tables, ack, group buffer before; command; tables, ack, buffer after; terminal replies *)
Definition opz (o : op) : list Z :=
  match o with Announce k v => [1; k; v] | Withdraw k => [2; k] | ClearOut => [3] | Resend => [4] end.
Definition subz (s : sub) : list Z := match s with None => [0] | Some ops => 1 :: flat_map opz ops end.
Fixpoint zzeq (a b : list (list Z)) : bool :=
  match a, b with [], [] => true | x :: a', y :: b' => zleq x y && zzeq a' b' | _, _ => false end.
Definition bufeq (a b : option (list sub)) : bool :=
  match a, b with None, None => true | Some x, Some y => zzeq (map subz x) (map subz y) | _, _ => false end.
Definition ALL : list Z := map n_id NS.
Definition okg (c : ribs * bool * option (list sub) * gcmd * ribs * bool * option (list sub) * list Z) : bool :=
  match c with (before, ack, buf, cmd, after, ack', buf', reps) =>
    match gexec ALL (mkG (mkX before ack) buf) cmd with (st, r) =>
      req (g_ribs st) after && Bool.eqb (x_ack (g_x st)) ack' && bufeq (g_buf st) buf' && zleq (map rcode r) reps end end.
(* main loop case: arrivals and iterations as they happened; the command ids handled in each iteration *)
Fixpoint trace (st : lstate) (evs : list lev) : list (list Z) :=
  match evs with
  | [] => []
  | Iterate :: r => let st' := iterate 1 st in skipn (length (l_written st)) (l_written st') :: trace st' r
  | e :: r => trace (lstep 1 st e) r
  end.
Definition oksched (c : list lev * list (list Z)) : bool :=
  match c with (evs, seen) => zzeq (trace linit evs) seen && zleq (l_written (lrun 1 linit evs) ++ map snd (l_wait (lrun 1 linit evs))) (arrived evs) end.
(* text selector case: description strings, peer name, what limit.match_neighbor returned *)
Definition okmatch (c : list (list Z) * list Z * bool) : bool :=
  match c with (d, name, r) => Bool.eqb (match_neighbor d name) r end.
Fixpoint bad {A} (f : A -> bool) (l : list A) (i : nat) : list nat :=
  match l with [] => [] | c :: l' => if f c then bad f l' (S i) else i :: bad f l' (S i) end.
"""

TOKENS = {}


def tok(s):
    return TOKENS.setdefault(s, 1000 + len(TOKENS))


def coq_neighbors():
    items = []
    for i, n in enumerate(NEIGHBORS):
        fields = ';'.join(f'({KEYS.index(k)}, {tok(n[k])})' for k in KEYS)
        items.append(f'mkN {i} {tok(n["ip"])} [{fields}]')
    return '[' + '; '.join(items) + ']'


def coq_sel(defs):
    out = []
    for d in defs:
        ts = []
        for t in d:
            if t[0] == 'ip':
                ts.append('TStar' if t[1] == '*' else f'TIp {tok(t[1])}')
            else:
                ts.append(f'TKey {KEYS.index(t[1])} {tok(t[2])}')
        out.append('[' + ';'.join(ts) + ']')
    return '[' + ';'.join(out) + ']'


def coq_ribs(snap):
    addrs = [n['ip'] for n in NEIGHBORS]
    return '[' + ';'.join(f'({i}, [' + ';'.join(f'({k},{v})' for k, v in cache_pairs(snap[a][0])) + '])' for i, a in enumerate(addrs)) + ']'


def coq_ops(ops):
    out = []
    for o in ops:
        if o[0] == 'A':
            out.append(f'Announce {o[1]} {o[2]}')
        elif o[0] == 'W':
            out.append(f'Withdraw {o[1]}')
        elif o[0] == 'C':
            out.append('ClearOut')
        elif o[0] == 'R':
            out.append('Resend')
    return '[' + ';'.join(out) + ']'


def outcome_of(st, c, version):
    """The outcome class handed to the model: the observed class (done / error) refined by what the
    harness knows about the command.  -> (coq text, label) or (None, reason) when nothing can be predicted"""
    addrs = [n['ip'] for n in NEIGHBORS]
    term = st['terminal']
    if c['kind'] == 'session':
        return {'enable': 'Session AckEnable', 'disable': 'Session AckDisable', 'silence': 'Session AckSilence'}[c['ack']], 'session'
    if len(term) > 1:
        return None, 'several-replies'
    if st['buffered']:
        # inside `group start`: announce/withdraw lines are only stored and acknowledged
        return 'Ok [] []', 'ok-buffered'
    observed_error = term == ['E']
    if not term:
        # acknowledgements are off (or the reply is missing): nothing to observe, class from what the harness knows
        observed_error = c['apriori'] in ('invalid', 'unknown', 'refused') or (c['kind'] == 'group' and st.get('gops') is None)
        if c['kind'] == 'route6-self':
            # "next-hop self" on an IPv6 route resolves on the IPv6 session only: refused as soon as an IPv4 session is selected
            targets = st['expect_match'] if st['expect_match'] is not None else [n['ip'] for n in NEIGHBORS]
            observed_error = any(':' not in a for a in targets)
    if c['kind'] == 'unknown':
        return ('Unknown', 'unknown') if observed_error else (None, 'unknown-accepted')
    sel = st['expect_match']
    if c['defs'] is not None and not sel:
        if c['kind'] in ('group-inline', 'routes') and not observed_error:
            # these two handlers are given the empty peer list and do nothing with it (they are not in
            # the dispatcher's needs-peers set): accepted, nothing applied
            return 'Ok [] []', 'ok-nobody'
        return 'NoMatchingPeers', 'no-matching-peers'
    if observed_error:
        return 'ParseFail', 'parse-fail' if c['apriori'] != 'valid' else 'refused-valid'
    if c['kind'] == 'group':
        if st.get('gops') is None:
            return None, 'group-refused-but-done'
        return f'Ok {zlist(range(len(addrs)))} {coq_ops(st["gops"])}', 'ok-group'
    if c['ops'] is None or c['apriori'] != 'valid':
        return None, 'accepted-unexpectedly'
    ids = [addrs.index(a) for a in (sel if sel is not None else addrs)]
    ops = c['ops']
    if c['kind'] == 'watchdog':
        # the watchdog sets are not part of the model's tables: the route moves only if it sits in the set the
        # command reads ('-' for announce, '+' for withdraw); read that from the snapshot taken before the command
        sign = '-' if ops[0][0] == 'A' else '+'
        has = {a: any(nm == 'dog' and sg == sign and idx for nm, sg, idx in st['before'][a][4]) for a in (sel if sel is not None else addrs)}
        if all(has.values()):
            pass
        elif not any(has.values()):
            ops = []
        else:
            return None, 'watchdog-mixed-state'
    return f'Ok {zlist(ids)} {coq_ops(ops)}', 'ok'


def gcmd_of(st, c, version, lookup):
    """The command as the group-level model sees it, with the group buffer read from the implementation before
    and after.  -> (case text or None, label)"""
    addrs = [n['ip'] for n in NEIGHBORS]

    def sub_of(entry, targets):
        ops, apriori, kind = entry
        if kind == 'route6-self':
            ok = apriori == 'valid' and ops is not None and all(':' in a for a in targets)
        else:
            ok = kind == 'route' and apriori == 'valid' and ops is not None
        return f'Some {coq_ops(ops)}' if ok else 'None'

    def buf_text(buf):
        if buf is None:
            return 'None'
        return 'Some [' + ';'.join(sub_of(lookup.get(tuple(normalise(cmd)), (None, 'unknown', 'unknown')), addrs) for cmd in buf) + ']'

    line = c['line'].strip().lower()
    label = 'plain'
    if version == 6 and c['kind'] == 'group':
        cmd, label = ('GStart', 'group-start') if line == 'group start' else ('GEnd', 'group-end')
    elif c['kind'] == 'group-inline':
        sel = st['expect_match'] or []
        subs = '[' + ';'.join(sub_of(tuple(s), sel) for s in c['sub']) + ']'
        cmd, label = f'GInline {zlist(addrs.index(a) for a in sel)} {subs}', 'group-inline'
    elif version == 6 and line.startswith(('announce', 'withdraw')):
        cmd, label = f'GLine ({sub_of((c["ops"], c["apriori"], c["kind"]), addrs)}) Unknown', 'bare-line'
    else:
        text, label = outcome_of(st, c, version)
        if text is None:
            return None, label
        cmd = f'GPlain ({text})'
    if len(st['terminal']) > 1:
        return None, 'several-replies'
    reps = [{'D': 1, 'E': 2}[x] for x in st['terminal']]
    b = lambda x: 'true' if x else 'false'
    return (f'({coq_ribs(st["before"])}, {b(st["ack_before"])}, {buf_text(st["gbuf_before"])}, {cmd}, {coq_ribs(st["after"])}, '
            f'{b(st["ack_after"])}, {buf_text(st["gbuf_after"])}, {zlist(reps)})'), label


MATCH_IPS = ['2001:db8::1', '2001:db8::1:2', '2001:db8::12', '1:2001:db8::1', '10.0.0.1', '10.0.0.10', '110.0.0.1', '10.0.0.1.5', '127.0.0.2']


def gen_match_case(rng):
    """-> (description strings, peer name) around limit.match_neighbor's regular expression"""
    ip = rng.choice(MATCH_IPS)
    fields = [('neighbor', ip), ('local-ip', rng.choice(MATCH_IPS)), ('local-as', rng.choice(['65000', '6500', '650001', '165000'])),
              ('peer-as', rng.choice(['65001', '6500'])), ('router-id', rng.choice(['1.2.3.4', '1.2.3.44', '11.2.3.4'])), ('family-allowed', 'in-open')]
    r = rng.random()
    if r < 0.7:
        name = ' '.join(f'{k} {v}' for k, v in fields)
    elif r < 0.8:
        name = ', '.join(f'{k} {v}' for k, v in fields)  # the expression also accepts a comma after a term
    elif r < 0.9:
        name = rng.choice([' ', '\t', '']) + rng.choice(['  ', '\t', ' ']).join(f'{k}{rng.choice([" ", "  "])}{v}' for k, v in fields) + rng.choice(['', ' ', ','])
    else:
        name = ''.join(rng.choice('ab .,*x1:\t') for _ in range(rng.randint(0, 25)))
    desc = []
    for _ in range(rng.choice([1, 1, 2, 3])):
        q = rng.random()
        if q < 0.12:
            desc.append(rng.choice(['neighbor *', 'peer *', ' neighbor * ', 'neighbor  *', '*', 'peer * ']))
            continue
        k, v = rng.choice(fields)
        q = rng.random()
        if q < 0.45:
            pass
        elif q < 0.6:
            v = rng.choice(MATCH_IPS) if k in ('neighbor', 'local-ip') else v[:-1]
        elif q < 0.7:
            v = v[1:]
        elif q < 0.8:
            v = v + rng.choice(['0', ':2', ',', ' '])
        elif q < 0.9:
            v = v.replace('.', 'x').replace(':', '.')  # '.' has to be a literal dot (re.escape)
        else:
            k = rng.choice(['neighbor', 'local-ip', 'local-as', 'peer', 'eighbor', ''])
        desc.append(rng.choice([f'{k} {v}', f'{k} {v}', f'{k}  {v}', f' {k} {v}']))
    return desc, name


# ------------------------------------------------------------------------------- replay / shrink


def replay_case(case):
    """-> list of (sig, what) the case produces now"""
    cmds = case['commands']
    res = run_sequence(case['version'], cmds, case.get('chunk_seed', 0), decorate_lines=False)
    return [(sig, what) for sig, what, _ in res.problems]


def shrink(version, cmds, idx, sig, chunk_seed):
    """cheap: the failing command alone, else with the commands before it"""
    starts = [i for i in range(idx) if cmds[i]['line'] == 'group start']
    block = [cmds[starts[-1]: idx + 1]] if starts else []
    for cand in [[cmds[idx]]] + block + [cmds[max(0, idx - 3): idx + 1], cmds[: idx + 1]]:
        case = {'version': version, 'commands': cand, 'chunk_seed': chunk_seed}
        try:
            if any(s == sig for s, _ in replay_case(case)):
                return case
        except Exception:
            continue
    return {'version': version, 'commands': cmds[: idx + 1], 'chunk_seed': chunk_seed}


def replay(path):
    payload = json.load(open(path))
    case = payload.get('case', payload)
    if 'commands' in case:
        probs = replay_case(case)
    else:
        case = {'streams': [bytes(s) for s in case['streams']], 'evs': [[e[0], e[1], bytes(e[2])] if e[0] == 'R' else ['P'] for e in case['evs']],
                'max': case.get('max'), 'malformed': False}
        probs = intake_oracle(case, run_intake_impl(case))
    for sig, what in probs:
        print(f'{sig}: {what}')
    print('replay:', 'FAILS' if probs else 'passes')
    common.cleanup()
    return 1 if probs else 0


def intake_oracle(case, obs):
    """the property on the implementation's own output (well-formed streams only)"""
    executed, queue, bufs = obs
    probs = []
    for s, stream in enumerate(case['streams']):
        got = [normalise(c) for sv, c in executed + queue if sv == s]
        want = py_commands(stream)
        if got != want:
            k = next((i for i, (a, b) in enumerate(zip(got, want)) if a != b), min(len(got), len(want)))
            probs.append(('intake:commands-differ-from-lines',
                          f'process {s}: command #{k} of {len(got)} differs from line #{k} of {len(want)} of stream.split(newline) '
                          f'(got {got[k] if k < len(got) else None}, line {want[k] if k < len(want) else None})'))
        if bufs[s] is None:
            probs.append(('intake:process-ended', f'process {s} was ended although its stream is ASCII and within the size limit'))
        elif bufs[s] != stream.decode('ascii').split('\n')[-1]:
            probs.append(('intake:tail-differs', f'process {s}: kept {bufs[s]!r}, unterminated rest is {stream.decode("ascii").split(chr(10))[-1]!r}'))
    return probs


# ------------------------------------------------------------------------------- check


def check(tier, seed):
    run = Run('C14', tier, seed)
    run.trusted = [
        'Coq 8.16.1 kernel (coqc), vm_compute for case evaluation; no native_compute',
        'translator translate/t7_limit.py (python ast): SELECTOR_KEYS, MAX_COMMAND_SIZE, read size, "debug " prefix, '
        'formated() replacement table -> Gen_Limit.v; str.strip/rstrip whitespace set and the collapse loop are hand-modelled',
        'harness/apirig.py: FakeProc (os.pipe pairs standing for the API subprocess), PipeRig (real Reactor/API/Configuration/RIBs + real Processes, '
        'driven like one main-loop iteration per command)',
        'harness/c14.py: generators, the selector match set computed from the neighbor definitions, RIB snapshot '
        '(cached_routes + _new_nlri + _pending_withdraws + _refresh_routes + _watchdog), abstraction route -> (prefix key, med)',
        'modelled, not verified: match_neighbor regular expression = Model_Api.re_search (substring search with both boundary tests), tied by '
        'comparing limit.match_neighbor on random (description, peer name) pairs; abstract selectors Model_Api.term_match tied by the dispatcher peer sets',
    ]
    run.assumptions = [
        'the API process writes ASCII and no line longer than MAX_COMMAND_SIZE (C14_oversize_needs_hypothesis shows the hypothesis is needed)',
        'one os.read returns at most 16384 bytes of what was written, in order (POSIX pipe)',
        'the outcome class of a command (unknown / no matching peer / parse failure / accepted with these route changes) is an input of the '
        'execution model: route text parsing is C18',
        'group model: a sub-command is its parse result (None = refused), the 100000-command / 100 MiB buffer limits are not modelled; '
        'main-loop model: the ASYNC queue holds only API callbacks (coroutines), the listener generator is not modelled',
        'peers are not established (no sync-mode waiting, eor/route-refresh are refused); `system crash`, daemon reload/restart/shutdown, '
        'peer create/delete and `system api version` are not generated',
    ]
    common.standard_build(run, ['T7', 'T14'])
    rng = random.Random(seed)
    quick = tier == 'quick'

    # ======================================================================== part A
    n_good = 120 if quick else 1500
    n_bad = 40 if quick else 400
    cases = [gen_intake_case(rng, False) for _ in range(n_good)] + [gen_intake_case(rng, True) for _ in range(n_bad)]
    # the same streams again under other chunkings
    extra = []
    for c in cases[: n_good]:
        for style in rng.sample(['one', 'mixed'] if c['long'] else ['one', 'bytes', 'small', 'mixed'], 2):
            if style == 'bytes' and sum(len(s) for s in c['streams']) > 1200:
                style = 'small'
            per = [[['R', s, p] for p in cut(rng, stream, style)] for s, stream in enumerate(c['streams'])]
            evs = []
            while any(per):
                s = rng.choice([i for i, q in enumerate(per) if q])
                evs.append(per[s].pop(0))
                if rng.random() < 0.1:
                    evs.append(['P'])
            evs += [['P']] * rng.choice([0, 2, 1000])
            extra.append({'streams': c['streams'], 'evs': evs, 'max': None, 'malformed': False, 'style': style, 'long': c['long']})
    cases += extra
    obs = []
    intake_fail = []
    style_hist = collections.Counter()
    n_lines = 0
    for i, c in enumerate(cases):
        o = run_intake_impl(c)
        obs.append(o)
        style_hist[c['style'] + ('/malformed' if c['malformed'] else '')] += 1
        if not c['malformed']:
            n_lines += sum(s.count(b'\n') for s in c['streams'])
            for sig, what in intake_oracle(c, o):
                intake_fail.append((sig, what, i))
    coq_items = [coq_intake_case(c, o) for c, o in zip(cases, obs)]
    order = list(range(len(cases)))
    shards, cur, size = [], [], 0
    for i in order:
        if cur and size + len(coq_items[i]) > 55000:
            shards.append(cur)
            cur, size = [], 0
        cur.append(i)
        size += len(coq_items[i])
    if cur:
        shards.append(cur)

    def defs_a(idx):
        return ('Definition cases : list (Z * list ev * list (Z * list Z) * list (Z * list Z) * list (option (list Z))) := ['
                + ';\n'.join(coq_items[i] for i in idx) + '].\nEval vm_compute in (bad okc cases 0).\n')

    t_mark = time.time()
    res = common.eval_cases(INTAKE_HEADER, defs_a, shards, 'c14a')
    run.notes.append(f'coq intake: {len(shards)} shards {time.time() - t_mark:.1f}s')
    ok_a = all(rc == 0 for rc, _, _ in res)
    bad_a = []
    for shard, (rc, out, parsed) in zip(shards, res):
        if rc == 0 and parsed:
            bad_a += [shard[j] for j in common.nat_list_of(parsed[0])]
    # spec evaluated in Coq on whole streams (independent of chunking)
    spec_items, spec_ref = [], []
    for i, c in enumerate(cases[: n_good]):
        for s, stream in enumerate(c['streams']):
            cmds = [cmd for sv, cmd in obs[i][0] + obs[i][1] if sv == s]
            spec_items.append(f'({zs(stream)}, [' + ';'.join(zs(x) for x in cmds) + '])')
            spec_ref.append((i, s))
    sshards, cur, size = [], [], 0
    for i in range(len(spec_items)):
        if cur and size + len(spec_items[i]) > 55000:
            sshards.append(cur)
            cur, size = [], 0
        cur.append(i)
        size += len(spec_items[i])
    if cur:
        sshards.append(cur)

    def defs_s(idx):
        return ('Definition cases : list (list Z * list (list Z)) := [' + ';\n'.join(spec_items[i] for i in idx)
                + '].\nEval vm_compute in (bad okspec cases 0).\n')

    t_mark = time.time()
    res_s = common.eval_cases(INTAKE_HEADER, defs_s, sshards, 'c14s')
    run.notes.append(f'coq spec: {len(sshards)} shards {time.time() - t_mark:.1f}s')
    ok_s = all(rc == 0 for rc, _, _ in res_s)
    bad_s = []
    for shard, (rc, out, parsed) in zip(sshards, res_s):
        if rc == 0 and parsed:
            bad_s += [spec_ref[shard[j]] for j in common.nat_list_of(parsed[0])]
    run.obligation('model evaluation (vm_compute of Model_Api.run / commands / complete_lines on every intake case) ran', ok_a and ok_s,
                   '\n'.join(out for rc, out, _ in res + res_s if rc != 0)[-2000:])

    def show_intake(i):
        c = cases[i]
        return json.dumps({'streams': [list(s) for s in c['streams']][:2], 'max': c['max'], 'events': len(c['evs']),
                           'impl': [obs[i][0][:4], obs[i][1][:4], obs[i][2]]}, default=str)[:1500]

    run.obligation(f'correspondence (intake): real reader callback + received_async = Model_Api.run on {len(cases)} scripted schedules '
                   '(commands executed, commands waiting, buffers / ended processes)', not bad_a,
                   f'{len(bad_a)} disagreements; first: {show_intake(bad_a[0]) if bad_a else ""}')
    run.obligation(f'specification (intake): commands of the real reader = commands (complete_lines stream) in Coq on {len(spec_items)} streams',
                   not bad_s, f'{len(bad_s)} disagreements; first: {bad_s[:1]}')
    run.obligation(f'property oracle (intake): per process, executed+waiting commands = lines of stream.split(newline), tail kept, '
                   f'on {len(cases) - n_bad} well-formed schedules', not intake_fail,
                   f'{len(intake_fail)} failing; first: {intake_fail[0][:2] if intake_fail else ""}')
    seen = set()
    for sig, what, i in intake_fail:
        if sig in seen:
            continue
        seen.add(sig)
        c = cases[i]
        run.fail_case(sig, what, {'streams': [list(s) for s in c['streams']], 'max': c['max'],
                                  'evs': [[e[0], e[1], list(e[2])] if e[0] == 'R' else ['P'] for e in c['evs']]})

    # the real limit (python only: a one-mebibyte line is not fed to vm_compute)
    from harness.apirig import real_processes, feed_chunk
    from exabgp.reactor.api.processes import Processes

    big_ok, big_detail = True, ''
    for extra_len, chunking, expect_alive in ((0, 16384, True), (0, 1000, True), (1, 16384, None), (20000, 16384, False)):
        procs, fakes = real_processes(['big'])
        line = b'z' * (Processes.MAX_COMMAND_SIZE + extra_len) + b'\n' + b'system version\n'
        for k in range(0, len(line), chunking):
            feed_chunk(procs, fakes, 'big', line[k:k + chunking])
        alive = 'big' in procs._process
        got = [c for _, c in procs._command_queue]
        fakes['big'].close()
        if expect_alive is True and (not alive or len(got) != 2 or got[1] != 'system version'):
            big_ok, big_detail = False, f'a line of exactly MAX_COMMAND_SIZE characters in reads of {chunking}: alive={alive} commands={len(got)}'
        if expect_alive is False and alive:
            big_ok, big_detail = False, f'a line of MAX_COMMAND_SIZE+{extra_len} characters did not end the process'
    run.obligation('real limit: a line of exactly MAX_COMMAND_SIZE characters is accepted whatever the read size, a line 20000 over it ends the process',
                   big_ok, big_detail)

    # small scope, exhaustive: EVERY way of cutting a short stream into reads (implementation side only)
    small = b'[a]\n\ndebug x\r\nb c\nd'[: (14 if quick else 16)]
    want_small = py_commands(small)
    ex_bad, ex_n = [], 0
    for mask in range(1 << (len(small) - 1)):
        parts, start = [], 0
        for k in range(1, len(small)):
            if mask >> (k - 1) & 1:
                parts.append(small[start:k])
                start = k
        parts.append(small[start:])
        c = {'streams': [small], 'evs': [['R', 0, p] for p in parts] + [['P']] * 8, 'max': None, 'malformed': False}
        executed, queue, bufs = run_intake_impl(c)
        ex_n += 1
        if [normalise(x) for _, x in executed + queue] != want_small or bufs[0] != small.decode().split('\n')[-1]:
            ex_bad.append(parts)
    run.obligation(f'property oracle (intake, exhaustive small scope): all {ex_n} chunkings of the {len(small)}-byte stream {small!r} give the same '
                   'commands and the same unterminated rest', not ex_bad, f'{len(ex_bad)} chunkings differ; first: {ex_bad[:1]}')
    if ex_bad:
        run.fail_case('intake:chunking-changes-commands', f'the stream {small!r} cut as {ex_bad[0]} gives other commands than its lines',
                      {'streams': [list(small)], 'max': None, 'evs': [['R', 0, list(p)] for p in ex_bad[0]] + [['P']] * 8})
    run.coverage['exhaustive_small_scope'] = {'stream': small.decode(), 'chunkings': ex_n}
    run.notes.append(f'part A done at {time.time() - run.t0:.1f}s')
    # ======================================================================== part B
    nseq = 170 if quick else 2500
    seqs = []
    for k in range(nseq):
        version = 6 if k % 5 < 3 else 4
        seqs.append((version, gen_sequence(rng, version), rng.randrange(1 << 30)))
    # every defect class the generators are aimed at is exercised at least once (deterministic probes)
    probes = [
        (6, ['peer 10.9.9.9 announce route 10.0.0.0/24 next-hop 1.2.3.4'], [[('ip', '10.9.9.9')]], 'route', [('A', 0, 0)]),
        (6, ['peer 127.0.0.2 local-as 65010 announce route 10.0.0.0/24 next-hop 1.2.3.4'], [[('ip', '127.0.0.2'), ('key', 'local-as', '65010')]], 'route', [('A', 0, 0)]),
        (4, ['neighbor * local-as 65010 announce route 10.0.0.0/24 next-hop 1.2.3.4'], [[('ip', '*'), ('key', 'local-as', '65010')]], 'route', [('A', 0, 0)]),
        (6, ['peer 127.0.0.2 announce watchdog dog'], [[('ip', '127.0.0.2')]], 'watchdog', [('A', K_DOG, 0)]),
        (6, ['peer * announce route 2001:db8:1::/48 next-hop self'], [[('ip', '*')]], 'route6-self', [('A', K_V6, 0)]),
        (6, ['peer 127.0.0.3 routes add route 10.0.0.0/24 next-hop 1.2.3.4'], [[('ip', '127.0.0.3')]], 'routes', [('A', 0, 0)]),
        (6, ['peer 127.0.0.3 routes list'], [[('ip', '127.0.0.3')]], 'routes', []),
    ]
    for version, lines, defs, kind, ops in probes:
        seqs.append((version, [{'line': lines[0], 'kind': kind, 'defs': defs, 'ops': ops, 'apriori': 'valid', 'ack': None, 'sub': None}], 7))

    exec_items, exec_ref = [], []
    sched_items, sched_ref = [], []
    sched_hist = collections.Counter()
    sel_items, sel_ref = [], []
    prop_fail = []
    hist = collections.Counter()
    kind_hist = collections.Counter()
    ncmd = 0
    unexpected = collections.Counter()
    unexpected_examples = []
    addrs = [n['ip'] for n in NEIGHBORS]
    sample_done = False
    for si, (version, cmds, chunk_seed) in enumerate(seqs):
        try:
            res_b = run_sequence(version, cmds, chunk_seed)
        except Exception as exc:  # the rig itself failed: an obligation, not a finding
            run.obligation(f'execution rig ran sequence {si}', False, f'{type(exc).__name__}: {exc}; commands {[c["line"] for c in cmds]}')
            continue
        for sig, what, idx in res_b.problems:
            prop_fail.append((sig, what, si, idx))
        flagged = {idx for _, _, idx in res_b.problems}
        lookup = {tuple(normalise(c['line'])): (c['ops'], c['apriori'], c['kind']) for c in cmds}
        # the main loop as it ran: arrivals (what the reader had queued) and iterations, the ids handled per iteration
        kind_of, nxt = {}, 0
        for st in res_b.steps:
            for j, flag in enumerate(st['scheduled'] or [False]):
                kind_of[nxt + j] = flag
            nxt += st['popped']
        evs, seen_ids, arrived_so_far, nxt = [], [], 0, 0
        for st in res_b.steps:
            while arrived_so_far < max(st['arrived'], nxt + st['popped']):
                evs.append(f'Arrive {"Scheduled" if kind_of.get(arrived_so_far) else "Immediate"} {arrived_so_far}')
                arrived_so_far += 1
            evs.append('Iterate')
            seen_ids.append(zlist(range(nxt, nxt + st['popped'])))
            sched_hist['scheduled' if kind_of.get(nxt) else 'immediate'] += 1
            nxt += st['popped']
        if res_b.steps:
            sched_items.append(f'([{";".join(evs)}], [{";".join(seen_ids)}])')
            sched_ref.append((si, 0))
        for st in res_b.steps:
            c = cmds[st['i']]
            ncmd += 1
            kind_hist[f'v{version}:{c["kind"]}'] += 1
            text, label = gcmd_of(st, c, version, lookup)
            hist[label] += 1
            if text is None:
                unexpected[label] += 1
                if unexpected[label] <= 3:
                    unexpected_examples.append({'label': label, 'api': version, 'line': c['line'], 'replies': st['replies'][-2:]})
            elif st['i'] in flagged:
                hist['flagged-by-property-oracle(not compared)'] += 1
            else:
                exec_items.append(text)
                exec_ref.append((si, st['i']))
            if st.get('dispatch') is not None and st['dispatch'] != 'unknown' and c['defs'] is not None and st['i'] not in flagged:
                sel_items.append(f'({coq_sel(c["defs"])}, {zlist(sorted(addrs.index(a) for a in st["dispatch"]))})')
                sel_ref.append((si, st['i']))
        if not sample_done and len(res_b.steps) >= 5:
            sample_done = True
            run.samples.append({'api_version': version, 'commands': [
                {'line': s['line'], 'replies': s['replies'][-2:], 'changed': s['changed']} for s in res_b.steps[:6]]})

    run.notes.append(f'part B implementation runs done at {time.time() - run.t0:.1f}s')
    header_b = EXEC_HEADER % coq_neighbors()
    eshards = common.chunked(list(range(len(exec_items))), 150)
    sshards2 = common.chunked(list(range(len(sel_items))), 400)

    def defs_e(idx):
        return ('Definition cases : list (ribs * bool * option (list sub) * gcmd * ribs * bool * option (list sub) * list Z) := ['
                + ';\n'.join(exec_items[i] for i in idx) + '].\nEval vm_compute in (bad okg cases 0).\n')

    def defs_sched(idx):
        return ('Definition cases : list (list lev * list (list Z)) := [' + ';\n'.join(sched_items[i] for i in idx)
                + '].\nEval vm_compute in (bad oksched cases 0).\n')

    n_match = 500 if quick else 6000
    match_cases = [gen_match_case(rng) for _ in range(n_match)]
    from exabgp.reactor.api.command.limit import match_neighbor as real_match_neighbor

    match_obs = [bool(real_match_neighbor(d, name)) for d, name in match_cases]
    match_items = [f'([{";".join(zs(s) for s in d)}], {zs(name)}, {"true" if r else "false"})' for (d, name), r in zip(match_cases, match_obs)]

    def defs_match(idx):
        return ('Definition cases : list (list (list Z) * list Z * bool) := [' + ';\n'.join(match_items[i] for i in idx)
                + '].\nEval vm_compute in (bad okmatch cases 0).\n')

    def defs_l(idx):
        return ('Definition cases : list (list (list term) * list Z) := [' + ';\n'.join(sel_items[i] for i in idx)
                + '].\nEval vm_compute in (bad oksel cases 0).\n')

    t_mark = time.time()
    res_e = common.eval_cases(header_b, defs_e, eshards, 'c14e')
    run.notes.append(f'coq exec: {len(eshards)} shards {time.time() - t_mark:.1f}s')
    res_l = common.eval_cases(header_b, defs_l, sshards2, 'c14l')
    kshards = common.chunked(list(range(len(sched_items))), 60)
    mshards = common.chunked(list(range(len(match_items))), 120)
    res_k = common.eval_cases(header_b, defs_sched, kshards, 'c14k')
    res_m = common.eval_cases(header_b, defs_match, mshards, 'c14m')
    ok_b = all(rc == 0 for rc, _, _ in res_e + res_l + res_k + res_m)
    bad_e, bad_l, bad_k, bad_m = [], [], [], []
    for shard, (rc, out, parsed) in zip(kshards, res_k):
        if rc == 0 and parsed:
            bad_k += [sched_ref[shard[j]] for j in common.nat_list_of(parsed[0])]
    for shard, (rc, out, parsed) in zip(mshards, res_m):
        if rc == 0 and parsed:
            bad_m += [shard[j] for j in common.nat_list_of(parsed[0])]
    for shard, (rc, out, parsed) in zip(eshards, res_e):
        if rc == 0 and parsed:
            bad_e += [exec_ref[shard[j]] for j in common.nat_list_of(parsed[0])]
    for shard, (rc, out, parsed) in zip(sshards2, res_l):
        if rc == 0 and parsed:
            bad_l += [sel_ref[shard[j]] for j in common.nat_list_of(parsed[0])]
    run.obligation('model evaluation (vm_compute of Model_Api.exec / select on every executed command) ran', ok_b,
                   '\n'.join(out for rc, out, _ in res_e + res_l + res_k + res_m if rc != 0)[-2000:])

    def show_cmd(ref):
        si, i = ref
        version, cmds, chunk_seed = seqs[si]
        return f'v{version} {cmds[i]["line"]!r} (sequence {si}, command {i}: {[c["line"] for c in cmds[: i + 1]][-4:]})'

    run.obligation(f'correspondence (execution): tables (prefix -> med) of every neighbor, ack state and terminal replies after each of '
                   f'{len(exec_items)} commands = Model_Api.gexec (exec under the group buffer, read from the implementation) on the tables before and the outcome class', not bad_e,
                   f'{len(bad_e)} disagreements; first: {show_cmd(bad_e[0]) if bad_e else ""}')
    run.obligation(f'correspondence (main loop): commands handled per iteration and the final order = Model_Api.iterate/lrun with one command per '
                   f'iteration on {len(sched_items)} sequences ({dict(sched_hist)} commands answered at once / by a scheduled callback)', not bad_k,
                   f'{len(bad_k)} disagreements; first: {show_cmd(bad_k[0]) if bad_k else ""}')
    run.obligation(f'correspondence (selector text): limit.match_neighbor = Model_Api.match_neighbor (the regular expression as a token-boundary '
                   f'search) on {len(match_items)} (description, peer name) pairs incl. addresses that are prefixes of one another; '
                   f'{sum(match_obs)} of them match', not bad_m,
                   f'{len(bad_m)} disagreements; first: {match_cases[bad_m[0]] if bad_m else ""}')
    run.obligation(f'correspondence (selectors): peers chosen by dispatch_v4/dispatch_v6 = Model_Api.select on {len(sel_items)} selector-carrying commands',
                   not bad_l, f'{len(bad_l)} disagreements; first: {show_cmd(bad_l[0]) if bad_l else ""}')
    run.obligation(f'property oracle (execution): one terminal reply per command in order, error => no RIB changed, '
                   f'changes only inside the selector, on {ncmd} commands of {len(seqs)} sequences (API v6 and v4)', not prop_fail,
                   f'{len(prop_fail)} failing; signatures {dict(collections.Counter(p[0] for p in prop_fail))}')
    seen = set()
    for sig, what, si, idx in prop_fail:
        if sig in seen:
            continue
        seen.add(sig)
        version, cmds, chunk_seed = seqs[si]
        run.fail_case(sig, what, shrink(version, cmds, idx, sig, chunk_seed))

    distinct = len({(v, tuple(c['line'] for c in cmds)) for v, cmds, _ in seqs if len(cmds) >= 3}) + \
        len({(tuple(c['streams']), tuple(len(e[2]) if e[0] == 'R' else -1 for e in c['evs'])) for c in cases if sum(len(s) for s in c['streams']) > 10})
    run.coverage.update({
        'evaluations': len(cases) + ncmd,
        'distinct_nontrivial': distinct,
        'rule': f'intake: {n_good} random streams (0-9 lines, blank/debug/comment lines, tabs, CRLF, brackets, 500-3000 character lines, '
                f'unterminated rest; 1-3 processes) each under 3 chunkings (single read, 1-byte reads, small and mixed reads incl. empty reads) '
                f'with random pops + {n_bad} malformed (non-ASCII byte, limit lowered to 8-40); execution: {nseq} random sequences of 3-20 commands '
                f'(60% API v6, 40% v4) fed as a chunked stream + {len(probes)} fixed probes; non-trivial = distinct sequences of at least 3 '
                'commands + distinct (streams, read sizes) with more than 10 bytes',
        'intake_schedules': len(cases),
        'intake_lines': n_lines,
        'intake_chunking_histogram': dict(style_hist),
        'commands_executed': ncmd,
        'command_kind_histogram': dict(kind_hist),
        'outcome_class_histogram': dict(hist),
        'not_predictable_by_model': dict(unexpected),
        'not_predictable_examples': unexpected_examples,
        'selector_cases': len(sel_items),
        'exhaustive': False,
    })
    from harness import wqueue
    wqueue.run_pass(run, tier, seed)  # replies reach the helper in command order: the API write queue
    if run.broken() and not run.failing:
        run.coverage['search'] = f'{len(cases)} intake schedules and {ncmd} executed commands judged by the property oracle; none failed'
    return run.finish(checker_cmd='make -C coq props/Prop_C14.vo && coqc -Q coq ExaV coq/props/Prop_C14.v (Print Assumptions)')
