"""C10 - every protocol error is answered with the right NOTIFICATION, once.  H-peer + property oracle.

Same rig, scripts, model and correspondence as C05 (harness/c05.py, harness/hpeer.py): every error class
(header 1/1 1/2, unknown type 1/3, OPEN errors 2/x, malformed UPDATE 3/x, refresh 7/x, message of the wrong
type for the state 5/1 5/2, silence past the hold time 4/0, open wait 5/1, API teardown 6/x, lost API
process 6/0) is injected at every control point of the session; the clauses judged here are the C10 ones:
the last message written on the transport of a session ended by a received message or a timer is a single
NOTIFICATION with the RFC (code, subcode) of the error class, nothing is written after a NOTIFICATION, a
received NOTIFICATION is not answered."""

from __future__ import annotations

from harness import c05, common
from harness.common import Run


def check(tier, seed):
    run = Run('C10', tier, seed)
    common.standard_build(run, ['T2'])
    c05.campaign(run, tier, seed, ('C10',))
    run.trusted = c05.TRUSTED
    run.assumptions = c05.ASSUMPTIONS + [
        'the subcode carried by an error kind is the one the decoders raise for the concrete malformed message; the python oracle '
        'compares it with the RFC subcode of the class for 1/1 1/2 1/3 2/1 2/2 2/3 2/6 3/1 3/10 4/0 5/1 5/2 6/x; OPEN/refresh classes whose '
        'subcode ExaBGP deviates on (unknown optional parameter 2/0, refresh subtype 7/2) are judged at code level, as the property text does',
        'whether the kernel delivers the NOTIFICATION before the close is outside the model',
    ]
    return run.finish(checker_cmd='cd /verif/coq && coqc -Q . ExaV props/Prop_C10.v')


def replay(path):
    return c05.replay(path)
