"""C20 - healthcheck rise/fall hysteresis.  T4 + H-health."""

from __future__ import annotations

import collections
import io
import itertools
import random
import re
import sys

from harness import common
from harness.common import Run

STATES = ['INIT', 'DISABLED', 'RISING', 'FALLING', 'UP', 'DOWN']


# ------------------------------------------------------------------------------- implementation side


class EndOfScript(Exception):
    pass


def make_options(cfg):
    """Real argparse of healthcheck.py on a generated command line."""
    from exabgp.application import healthcheck as hc

    argv = ['healthcheck', '--silent', '--no-ack', '--no-ip-setup']
    argv += ['--rise', str(cfg['rise']), '--fall', str(cfg['fall']), '--interval', '5', '--fast-interval', '1']
    for ip in cfg['ips']:
        argv += ['--ip', ip]
    if cfg['disable']:
        argv += ['--disable', '/nonexistent/verif-disable-file']
    if cfg['debounce']:
        argv += ['--debounce']
    if cfg['withdraw_on_down']:
        argv += ['--withdraw-on-down']
    argv += ['--up-metric', str(cfg['up_metric']), '--down-metric', str(cfg['down_metric']),
             '--disabled-metric', str(cfg['disabled_metric']), '--increase', str(cfg['increase'])]
    if cfg.get('next_hop'):
        argv += ['--next-hop', cfg['next_hop']]
    if cfg.get('local_preference') is not None:
        argv += ['--local-preference', str(cfg['local_preference'])]
    for key in ('community', 'disabled_community', 'extended_community', 'large_community', 'as_path',
                'up_as_path', 'down_as_path', 'disabled_as_path'):
        if cfg.get(key):
            argv += ['--' + key.replace('_', '-'), cfg[key]]
    if cfg.get('path_id') is not None:
        argv += ['--path-id', str(cfg['path_id'])]
    for n in cfg.get('neighbors', []):
        argv += ['--neighbor', n]
    argv += ['--command', 'true']
    saved = sys.argv
    sys.argv = argv
    try:
        options = hc.parse()
    finally:
        sys.argv = saved
    options.ips = list(options.ips)
    return options


def run_loop(cfg, inputs, end):
    """Drive the real loop() with a scripted check()/disable file/clock.
    inputs: list of (file_exists, check_ok).  end: 'interrupt' (KeyboardInterrupt in sleep) or 'sigterm'.
    -> list of iterations, each a list of lines; plus the exit lines."""
    from exabgp.application import healthcheck as hc
    import os
    import signal
    import time

    options = make_options(cfg)
    script = list(inputs)
    state = {'i': -1, 'handler': None}
    out = io.StringIO()
    marks = []  # output offsets at the start of each iteration

    def fake_check(cmd, timeout):
        return state['cur'][1]

    def fake_exists(path):
        # called first in each iteration when --disable is set
        return state['cur'][0]

    real_exists = os.path.exists

    def exists(path):
        if path == '/nonexistent/verif-disable-file':
            return fake_exists(path)
        return real_exists(path)

    def advance():
        state['i'] += 1
        if state['i'] >= len(script):
            return False
        state['cur'] = script[state['i']]
        marks.append(out.tell())
        return True

    def fake_sleep(t):
        if not advance():
            marks.append(out.tell())
            if end == 'sigterm':
                state['handler'](signal.SIGTERM, None)
            raise KeyboardInterrupt()

    def fake_signal(signum, handler):
        if signum == signal.SIGTERM:
            state['handler'] = handler
        return None

    saved = (hc.check, os.path.exists, time.sleep, signal.signal, sys.stdout)
    hc.check = fake_check
    os.path.exists = exists
    hc.time.sleep = fake_sleep
    hc.signal.signal = fake_signal
    sys.stdout = out
    advance()
    try:
        try:
            hc.loop(options)
        except SystemExit:
            pass
    finally:
        hc.check, os.path.exists, time.sleep, signal.signal, sys.stdout = saved
        hc.time.sleep = time.sleep
        hc.signal.signal = signal.signal
    text = out.getvalue()
    marks.append(len(text))
    chunks = [text[marks[k] : marks[k + 1]] for k in range(len(marks) - 1)]
    iters = [c.splitlines() for c in chunks[: len(script)]]
    exit_lines = ''.join(chunks[len(script):]).splitlines()
    return iters, exit_lines


LINE_RE = re.compile(
    r'^(?P<sel>peer .*?) (?P<action>announce|withdraw) route (?P<ip>\S+) next-hop (?P<nh>\S+)'
    r'(?: med (?P<med>-?\d+))?'
    r'(?: local-preference (?P<lp>-?\d+))?'
    r'(?: community \[ (?P<comm>[^\]]*?) \])?'
    r'(?: extended-community \[ (?P<ecomm>[^\]]*?) \])?'
    r'(?: large-community \[ (?P<lcomm>[^\]]*?) \])?'
    r'(?: as-path \[ (?P<aspath>[^\]]*?) \])?'
    r'(?: path-information (?P<pathid>\S+))?$'
)


def parse_line(line):
    m = LINE_RE.match(line)
    return m.groupdict() if m else None


# ------------------------------------------------------------------------------- model evaluation

HEADER = """From Coq Require Import ZArith Bool List.
From ExaV Require Import gen.Gen_Health model.Model_Health.
Import ListNotations. Open Scope Z_scope.
Definition oeqb (a : option Z) (b : option Z) : bool :=
  match a, b with None, None => true | Some x, Some y => x =? y | _, _ => false end.
(* generated one() folded over the inputs: the sequence of announced state codes *)
Fixpoint gen_outs (o : opts) (checks state : Z) (ins : list (bool * bool)) : list (option Z) :=
  match ins with [] => [] | (fe, ck) :: r =>
    match one o fe ck checks state with (c', s', out) => out :: gen_outs o c' s' r end end.
Fixpoint leq (a b : list (option Z)) : bool :=
  match a, b with [], [] => true | x :: a', y :: b' => oeqb x y && leq a' b' | _, _ => false end.
Definition linez (l : list line) : list (bool * nat * Z) := map (fun x => (announce x, ip_index x, med x)) l.
Fixpoint lleq (a b : list (bool * nat * Z)) : bool :=
  match a, b with [], [] => true
  | (a1, i1, m1) :: a', (a2, i2, m2) :: b' => Bool.eqb a1 a2 && Nat.eqb i1 i2 && (m1 =? m2) && lleq a' b'
  | _, _ => false end.
Definition tgt (z : Z) : target := if z =? 4 then TUp else if z =? 5 then TDown else if z =? 1 then TDisabled else if z =? 6 then TExit else TOther.
(* case: options, line options, inputs, expected announced codes per iteration, expected lines per iteration + exit *)
Definition okc (c : opts * lopts * list (bool * bool) * list (option Z) * list (Z * list (bool * nat * Z))) : bool :=
  match c with (o, l, ins, expect, lns) =>
    leq (gen_outs o 0 St_INIT ins) expect
    && leq (map (option_map code) (outs o hinit ins)) expect
    && forallb (fun p => lleq (linez (lines l (tgt (fst p)))) (snd p)) lns end.
Fixpoint bad (l : list (opts * lopts * list (bool * bool) * list (option Z) * list (Z * list (bool * nat * Z)))) (i : nat) : list nat :=
  match l with [] => [] | c :: l' => if okc c then bad l' (S i) else i :: bad l' (S i) end.
"""


def b(x):
    return 'true' if x else 'false'


def coq_case(cfg, inputs, expect_codes, line_obs):
    o = f'{{| rise := {cfg["rise"]}; fall := {cfg["fall"]}; debounce := {b(cfg["debounce"])}; disable_code := {0 if cfg["disable"] else -1} |}}'
    l = (f'{{| withdraw_on_down := {b(cfg["withdraw_on_down"])}; up_metric := {cfg["up_metric"]}; down_metric := {cfg["down_metric"]}; '
         f'disabled_metric := {cfg["disabled_metric"]}; increase := {cfg["increase"]}; nips := {len(cfg["ips"])}%nat |}}')
    ins = '[' + ';'.join(f'({b(fe)},{b(ck)})' for fe, ck in inputs) + ']'
    exp = '[' + ';'.join('None' if c is None else f'Some {c}' for c in expect_codes) + ']'
    lns = '[' + ';'.join(
        f'({code}, [' + ';'.join(f'({b(a)},{i}%nat,{m})' for a, i, m in lines) + '])' for code, lines in line_obs
    ) + ']'
    return f'({o}, {l}, {ins}, {exp}, {lns})'


# ------------------------------------------------------------------------------- generation / oracle

COMMUNITIES = [None, '65000:1', '65000:1 65000:2', 'no-export']
ASPATHS = [None, '65001', '65001 65002 65003', '4200000001 65001']


def gen_cfg(rng):
    nips = rng.choice([1, 1, 2, 3])
    v6 = rng.random() < 0.2
    if v6:
        ips = [f'2001:db8::{i + 1}/128' for i in range(nips)]
    else:
        ips = [f'10.{rng.randint(0, 255)}.{i}.{rng.randint(1, 254)}/32' for i in range(nips)]
    return {
        'rise': rng.choice([1, 1, 2, 3, 3, 5]),
        'fall': rng.choice([1, 1, 2, 3, 3, 4]),
        'debounce': rng.random() < 0.4,
        'disable': rng.random() < 0.6,
        'withdraw_on_down': rng.random() < 0.4,
        'up_metric': rng.choice([100, 0, 7]),
        'down_metric': rng.choice([1000, 65535, 3]),
        'disabled_metric': rng.choice([500, 4294967295 - 30]),
        'increase': rng.choice([1, 0, 10]),
        'ips': ips,
        'next_hop': '2001:db8::ff' if v6 else rng.choice([None, None, '192.0.2.1']),
        'local_preference': rng.choice([None, None, 0, 200]),
        'community': rng.choice(COMMUNITIES),
        'disabled_community': rng.choice([None, None, '65000:666']),
        'extended_community': rng.choice([None, None, 'target:65000:1']),
        'large_community': rng.choice([None, None, '65000:1:2']),
        'as_path': rng.choice(ASPATHS),
        'up_as_path': rng.choice([None, None, '65009']),
        'down_as_path': rng.choice([None, None, '65008 65008']),
        'disabled_as_path': None,
        'path_id': rng.choice([None, None, 7]),
        'neighbors': rng.choice([[], [], ['127.0.0.2'], ['127.0.0.2', '127.0.0.3'], ['*']]),
        'v6': v6,
    }


def gen_inputs(rng, cfg, n):
    ins = []
    mode = rng.choice(['random', 'runs', 'flappy'])
    cur = rng.random() < 0.5
    for _ in range(n):
        if mode == 'random':
            ck = rng.random() < 0.5
        elif mode == 'runs':
            if rng.random() < 0.25:
                cur = not cur
            ck = cur
        else:
            cur = not cur if rng.random() < 0.8 else cur
            ck = cur
        fe = cfg['disable'] and rng.random() < 0.12
        ins.append((fe, ck))
    return ins


def observe(cfg, inputs, end, rig_check):
    """Run the implementation, return (expect codes, line observations, problems)."""
    iters, exit_lines = run_loop(cfg, inputs, end)
    problems = []
    expect, line_obs = [], []
    ips = cfg['ips']

    def classify(lines, where):
        """a block of lines written by one exabgp() call -> (state code, [(announce, idx, med)])"""
        if not lines:
            return None, []
        parsed = []
        for ln in lines:
            p = parse_line(ln)
            if p is None:
                problems.append(('line-shape', f'unparsable line {ln!r} at {where}'))
                return None, []
            parsed.append(p)
        if [p['ip'] for p in parsed] != ips:
            problems.append(('line-ips', f'one line per configured IP expected at {where}: {[p["ip"] for p in parsed]}'))
        obs = []
        for i, p in enumerate(parsed):
            obs.append((p['action'] == 'announce', i, int(p['med']) if p['med'] is not None else None))
        return parsed, obs

    def state_of(parsed, obs):
        """recover which target wrote the block from its metric/action (ambiguity resolved by the model check)"""
        return None

    # The written lines do not name the state; the model predicts it.  We feed the model's own
    # hand model only through Coq: here we just record the per-iteration line blocks.
    return iters, exit_lines, problems


def py_model(cfg, inputs):
    """Plain re-statement of the automaton used ONLY to label which state a block of lines belongs
    to (the Coq model is what is compared; a wrong label shows up as a Coq mismatch)."""
    rise, fall = cfg['rise'], cfg['fall']
    st, c = 'INIT', 0
    outs = []

    def trig(t):
        if t == 'RISING' and rise <= 1:
            return 'UP'
        if t == 'FALLING' and fall <= 1:
            return 'DOWN'
        return t

    for fe, ck in inputs:
        dis = cfg['disable'] and fe
        ok = dis or ck
        before = st
        if st != 'DISABLED' and dis:
            st = 'DISABLED'
        elif st == 'INIT':
            if ok and rise <= 1:
                st = 'UP'
            elif ok:
                st, c = trig('RISING'), 1
            else:
                st, c = trig('FALLING'), 1
        elif st == 'DISABLED':
            if not dis:
                st = 'INIT'
        elif st == 'RISING':
            if ok:
                c += 1
                if c >= rise:
                    st = 'UP'
            else:
                st, c = trig('FALLING'), 1
        elif st == 'FALLING':
            if not ok:
                c += 1
                if c >= fall:
                    st = 'DOWN'
            else:
                st, c = trig('RISING'), 1
        elif st == 'UP':
            if not ok:
                st, c = trig('FALLING'), 1
        elif st == 'DOWN':
            if ok:
                st, c = trig('RISING'), 1
        outs.append(st if (not cfg['debounce'] or st != before) else None)
    return outs


def spec_violations(cfg, inputs, iters, exit_lines):
    """The property itself, judged on the implementation's output (independent of the models):
    UP lines only after `rise` consecutive successes, DOWN/withdraw only after `fall` consecutive failures,
    no change on a single contrary result, exit withdraws every IP, every line well formed."""
    probs = []
    ips = cfg['ips']
    good = bad = 0
    for k, ((fe, ck), lines) in enumerate(zip(inputs, iters)):
        dis = cfg['disable'] and fe
        if dis:
            good = bad = 0
        elif ck:
            good, bad = good + 1, 0
        else:
            good, bad = 0, bad + 1
        if not lines:
            continue
        parsed = [parse_line(ln) for ln in lines]
        if any(p is None for p in parsed):
            probs.append(('line-shape', f'iteration {k}: unparsable line in {lines}'))
            continue
        if [p['ip'] for p in parsed] != ips:
            probs.append(('line-ips', f'iteration {k}: lines {[p["ip"] for p in parsed]} != configured {ips}'))
            continue
        p0 = parsed[0]
        # which announcement is it?  up = announce with up metric (and up as-path); identify by metric of first ip
        kind = None
        if p0['action'] == 'withdraw':
            kind = 'withdraw'
        else:
            med = int(p0['med'])
            cands = [n for n, mm in (('up', cfg['up_metric']), ('down', cfg['down_metric']), ('disabled', cfg['disabled_metric'])) if mm == med]
            kind = cands[0] if len(cands) == 1 else 'ambiguous'
        if kind in ('up', 'down', 'disabled'):
            # every line carries the configured values for that state (metric of the first IP + i * increase)
            base = {'up': cfg['up_metric'], 'down': cfg['down_metric'], 'disabled': cfg['disabled_metric']}[kind]
            want_as = cfg.get(f'{kind}_as_path') or cfg.get('as_path')
            want_comm = cfg.get('community')
            if kind in ('down', 'disabled') and cfg.get('disabled_community'):
                want_comm = cfg['disabled_community']
            for i, p in enumerate(parsed):
                if p['action'] != 'announce':
                    continue
                if int(p['med']) != base + i * cfg['increase']:
                    probs.append(('line-metric', f'iteration {k}: line {i} carries med {p["med"]}, configured {base} + {i} x {cfg["increase"]}'))
                    break
                if (p['aspath'] or None) != (want_as or None):
                    probs.append(('line-as-path', f'iteration {k}: line {i} carries as-path {p["aspath"]!r}, configured {want_as!r} for {kind}'))
                    break
                if (p['comm'] or None) != (want_comm or None):
                    probs.append(('line-community', f'iteration {k}: line {i} carries community {p["comm"]!r}, configured {want_comm!r} for {kind}'))
                    break
                if p['nh'] != (cfg.get('next_hop') or 'self'):
                    probs.append(('line-next-hop', f'iteration {k}: line {i} carries next-hop {p["nh"]}, configured {cfg.get("next_hop") or "self"}'))
                    break
                lp = cfg.get('local_preference')
                if (p['lp'] is not None) != (lp is not None and lp >= 0) or (p['lp'] is not None and int(p['lp']) != lp):
                    probs.append(('line-local-preference', f'iteration {k}: line {i} carries local-preference {p["lp"]}, configured {lp}'))
                    break
        if kind == 'up' and good < max(cfg['rise'], 1):
            probs.append(('up-early', f'iteration {k}: up announcement after only {good} consecutive successes (rise {cfg["rise"]})'))
        if kind == 'down' and bad < max(cfg['fall'], 1):
            probs.append(('down-early', f'iteration {k}: down announcement after only {bad} consecutive failures (fall {cfg["fall"]})'))
        if kind == 'withdraw' and not dis and bad < max(cfg['fall'], 1) and not cfg['disable']:
            probs.append(('withdraw-early', f'iteration {k}: withdraw after only {bad} consecutive failures (fall {cfg["fall"]})'))
        if kind == 'disabled' and not dis:
            # staying disabled is impossible without the file; DISABLED is left at once
            probs.append(('disabled-without-file', f'iteration {k}: disabled announcement while the disable file is absent'))
    ex = [parse_line(ln) for ln in exit_lines]
    if any(p is None for p in ex) or [p['ip'] for p in ex if p] != ips or any(p['action'] != 'withdraw' for p in ex if p):
        probs.append(('exit-withdraw', f'on exit the routes are not all withdrawn: {exit_lines}'))
    return probs


def api_line_check(rig, cfg, line, kind_hint):
    """Feed one written line to the real API (v6 dispatcher + route parser) and compare the route it
    creates/removes with the configured values.  -> list of problems"""
    probs = []
    p = parse_line(line)
    if p is None:
        return [('line-shape', f'unparsable {line!r}')]
    if p['action'] == 'announce':
        rig.clear_ribs()
    before = rig.routes()
    ok, calls = rig.command(line)
    names = [c[0] for c in calls]
    if not ok or any(n.startswith('answer_error') for n in names):
        why = 'api-rejects'
        if p['med'] is not None and int(p['med']) > 4294967295:
            why += ':med-out-of-range'
        elif len([n for n in cfg['neighbors'] if n != '*']) > 1 and '*' not in cfg['neighbors']:
            why += ':several-neighbors'
        elif p['aspath'] and any(int(a) > 65535 for a in p['aspath'].split()):
            why += ':as-path-with-4-byte-asn'
        return [(why, f'the API refuses the line {line!r}: {names}')]
    after = rig.routes()
    sel = cfg['neighbors']
    targets = ['127.0.0.2', '127.0.0.3', '127.0.0.4'] if (not sel or '*' in sel) else sel
    for name in after:
        changed = [str(r) for r in after[name]] != [str(r) for r in before[name]]
        if name not in targets and changed:
            probs.append(('api-selector', f'{line!r} changed neighbor {name} outside its selector'))
    if p['action'] == 'announce':
        for name in targets:
            mine = [r for r in after[name] if str(r.nlri.cidr if hasattr(r.nlri, 'cidr') else r.nlri).split(' ')[0] == p['ip'] or p['ip'] in str(r)]
            if not mine:
                probs.append(('api-no-route', f'{line!r}: neighbor {name} holds no route for {p["ip"]}'))
                continue
            text = mine[-1].extensive() if hasattr(mine[-1], 'extensive') else str(mine[-1])
            if p['med'] is not None and f'med {p["med"]}' not in text:
                probs.append(('api-med', f'{line!r}: route {text!r} lacks med {p["med"]}'))
            if p['lp'] is not None and f'local-preference {p["lp"]}' not in text:
                probs.append(('api-lp', f'{line!r}: route {text!r} lacks local-preference {p["lp"]}'))
            if p['aspath']:
                from exabgp.bgp.message.update.attribute import Attribute
                from exabgp.bgp.message.update.attribute.aspath import SEQUENCE

                ap = mine[-1].attributes.get(Attribute.CODE.AS_PATH, None)
                segs = list(ap.aspath) if ap is not None else []
                want = [int(x) for x in p['aspath'].split()]
                if not (len(segs) == 1 and isinstance(segs[0], SEQUENCE) and [int(a) for a in segs[0]] == want):
                    probs.append(('api-aspath', f'{line!r}: route {text!r} does not carry AS_SEQUENCE {want}'))
            if p['comm'] and p['comm'] not in text:
                probs.append(('api-community', f'{line!r}: route {text!r} lacks community {p["comm"]}'))
            if p['lcomm'] and p['lcomm'] not in text:
                probs.append(('api-large-community', f'{line!r}: route {text!r} lacks large-community {p["lcomm"]}'))
            if p['nh'] != 'self' and f'next-hop {p["nh"]}' not in text:
                probs.append(('api-nexthop', f'{line!r}: route {text!r} lacks next-hop {p["nh"]}'))
    return probs


def expected_fields(cfg, kind):
    return None


def check(tier, seed):
    run = Run('C20', tier, seed)
    run.trusted = [
        'Coq 8.16.1 kernel (coqc), vm_compute for case evaluation; no native_compute',
        'translator translate/t4_health.py + py2coq.py: nested one()/trigger() of healthcheck.loop -> Gen_Health.v '
        '(python ast, whitelisted shapes; the --execute shell hooks of trigger() are skipped as an external effect)',
        'harness/c20.py: scripted check()/os.path.exists/time.sleep/signal, stdout capture, line regular expression, '
        'harness/apirig.py (real Reactor/API/Configuration with recording Processes)',
        'modelled, not verified: exabgp() line formatting (hand model Model_Health.lines: action, ip order, metric)',
    ]
    run.assumptions = [
        'check() returns a boolean and os.path.exists reflects the disable file (the inputs of the automaton)',
        'exit = KeyboardInterrupt or SIGTERM; one-shot mode (--interval 0) is outside the theorem by design',
    ]
    common.standard_build(run, ['T4'])

    rng = random.Random(seed)
    ncfg = 40 if tier == 'quick' else 400
    nseq = 12 if tier == 'quick' else 50
    cases = []
    for _ in range(ncfg):
        cfg = gen_cfg(rng)
        for _ in range(nseq):
            cases.append((cfg, gen_inputs(rng, cfg, rng.choice([3, 6, 12, 25])), rng.choice(['interrupt', 'sigterm'])))
    # exhaustive small scope: every sequence over {success, failure, disabled} up to length L
    L = 7 if tier == 'quick' else 10
    ex_cfgs = []
    for rise, fall in itertools.product([1, 2, 3], [1, 2, 3]):
        base = gen_cfg(random.Random(rise * 10 + fall))
        base.update({'rise': rise, 'fall': fall, 'disable': True, 'debounce': (rise + fall) % 2 == 0, 'neighbors': []})
        ex_cfgs.append(base)
    alphabet = [(False, True), (False, False), (True, True)]
    exhaustive = 0
    for cfg in ex_cfgs:
        for seq in itertools.product(alphabet, repeat=L):
            cases.append((cfg, list(seq), 'interrupt'))
            exhaustive += 1

    coq_items = []
    spec_fail = []
    n_lines = 0
    state_hist = collections.Counter()
    for idx, (cfg, inputs, end) in enumerate(cases):
        iters, exit_lines, problems = observe(cfg, inputs, end, None)
        labels = py_model(cfg, inputs)
        for lab in labels:
            state_hist[lab or 'none'] += 1
        expect_codes = []
        line_obs = []
        for lab, lines in zip(labels, iters):
            # what the implementation wrote decides `expect`: lines present <=> an announcing state
            parsed = [parse_line(ln) for ln in lines]
            n_lines += len(lines)
            if lab is None:
                expect_codes.append(None)
                if lines:
                    problems.append(('debounce', f'lines written although the state did not change: {lines}'))
                continue
            expect_codes.append(STATES.index(lab))
            if any(p is None for p in parsed):
                continue
            obs = [(p['action'] == 'announce', i, int(p['med']) if p['med'] is not None else None) for i, p in enumerate(parsed)]
            # withdraw lines carry no med: the model's med is not compared for them
            line_obs.append((STATES.index(lab), obs))
        ex = [parse_line(ln) for ln in exit_lines]
        if all(p is not None for p in ex):
            line_obs.append((6, [(p['action'] == 'announce', i, None) for i, p in enumerate(ex)]))
        # model lines: med only defined for announces; replace None by the model's own value request
        norm = []
        for code, obs in line_obs:
            o2 = []
            for a, i, m in obs:
                if m is None:
                    base = {4: cfg['up_metric'], 5: cfg['down_metric'], 1: cfg['disabled_metric']}.get(code, 0)
                    m = base + i * cfg['increase']
                o2.append((a, i, m))
            norm.append((code, o2))
        coq_items.append(coq_case(cfg, inputs, expect_codes, norm))
        for sig, what in problems + spec_violations(cfg, inputs, iters, exit_lines):
            spec_fail.append((sig, what, idx))

    shards = common.chunked(list(range(len(cases))), 400)

    def defs(idx):
        return ('Definition cases := [' + ';\n'.join(coq_items[i] for i in idx) + '].\nEval vm_compute in (bad cases 0).\n')

    res = common.eval_cases(HEADER, defs, shards, 'c20')
    ok = all(rc == 0 for rc, _, _ in res)
    model_bad = []
    for shard, (rc, out, parsed) in zip(shards, res):
        if rc == 0 and parsed:
            model_bad += [shard[j] for j in common.nat_list_of(parsed[0])]
    run.obligation('model evaluation (vm_compute of Gen_Health.one, Model_Health.outs/lines on every case) ran', ok,
                   '\n'.join(out for rc, out, _ in res if rc != 0)[-2000:])
    first = ''
    if model_bad:
        cfg, inputs, end = cases[model_bad[0]]
        first = f'cfg={ {k: cfg[k] for k in ("rise", "fall", "debounce", "disable", "withdraw_on_down")} } inputs={inputs} impl={run_loop(cfg, inputs, end)}'
    run.obligation(f'correspondence: healthcheck.loop() output = generated one() = hand model on {len(cases)} scripted runs',
                   not model_bad, f'{len(model_bad)} disagreements; first: {first}')

    # every line through the real API
    api_probs = []
    from harness.apirig import Rig

    rig = Rig()
    seen_lines = set()
    api_checked = 0
    for cfg, inputs, end in cases[: (ncfg * nseq)]:
        if cfg['v6']:
            pass
        iters, exit_lines = run_loop(cfg, inputs[:8], end)
        for lines in iters + [exit_lines]:
            for ln in lines:
                if ln in seen_lines:
                    continue
                seen_lines.add(ln)
                api_checked += 1
                for sig, what in api_line_check(rig, cfg, ln, None):
                    api_probs.append((sig, what, {'line': ln, 'neighbors': cfg['neighbors']}))
    rig.close()
    run.obligation(f'property oracle: hysteresis, debounce and exit-withdraw judged on the raw output of {len(cases)} runs',
                   not spec_fail, f'{len(spec_fail)} failing; first: {spec_fail[0][:2] if spec_fail else ""}')
    run.obligation(f'property oracle: each of {api_checked} distinct written lines is accepted by the real v6 API and yields the configured route',
                   not api_probs, f'{len(api_probs)} failing; first: {api_probs[0][:2] if api_probs else ""}')
    seen = set()
    for sig, what, idx in spec_fail:
        if sig in seen:
            continue
        seen.add(sig)
        cfg, inputs, end = cases[idx]
        run.fail_case(sig, what, {'options': cfg, 'inputs': inputs, 'end': end})
    for sig, what, case in api_probs:
        if sig in seen:
            continue
        seen.add(sig)
        run.fail_case(sig, what, case)

    run.coverage.update({
        'evaluations': len(cases),
        'distinct_nontrivial': len({(tuple(sorted((k, str(v)) for k, v in c.items())), tuple(i)) for c, i, _ in cases if len(i) >= 3}),
        'rule': f'{ncfg} random option sets x {nseq} input sequences (random / runs / flappy; disable-file toggles) + every '
                f'sequence of length {L} over {{success, failure, disabled}} for rise, fall in 1..3 ({exhaustive} runs, exhaustive '
                'for that scope); non-trivial = distinct (options, inputs) with at least 3 iterations',
        'exhaustive_small_scope': {'length': L, 'rise_fall': '1..3 x 1..3', 'runs': exhaustive},
        'lines_written': n_lines,
        'distinct_lines_fed_to_api': api_checked,
        'announced_state_histogram': dict(state_hist),
        'exhaustive': False,
    })
    cfg, inputs, end = cases[0]
    run.samples.append({'options': {k: cfg[k] for k in ('rise', 'fall', 'debounce', 'disable', 'withdraw_on_down', 'ips', 'neighbors')},
                        'inputs': inputs[:8], 'output': run_loop(cfg, inputs[:8], end)})
    if run.broken() and not run.failing:
        run.coverage['search'] = f'{len(cases)} scripted runs incl. all sequences of length {L} judged by the property oracle; none failed'
    return run.finish(checker_cmd='make -C coq props/Prop_C20.vo && coqc -Q coq ExaV coq/props/Prop_C20.v (Print Assumptions)')
