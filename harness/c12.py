"""C12 - hold and keepalive timers.  T3 + timer-level correspondence + property oracle.

What is run: the REAL ReceiveTimer / SendTimer / HoldTime objects of exabgp.bgp.timer under a virtual
clock (`exabgp.bgp.timer.time` replaced by an object whose time() is scripted, fractional seconds,
so the code's own int() does the truncation), consulted in the order of Peer._establish/_main
(shape-checked by translate/t3_timer.py).  What is handed to check_ka() for a wire message is decided
by the REAL Protocol.read_message on the bytes of that message (KEEPALIVE, UPDATE, EOR, withdraw,
ROUTE-REFRESH, UPDATEs with a malformed AGGREGATOR / ATOMIC_AGGREGATE), so "every message kind resets
the timer" is judged on the wire, not on ExaBGP's internal classification.
Peer._read_open (asyncio.wait_for around the real Protocol.read_open) runs on a virtual-time loop.

Not run here (left to the peer-level harness of C05/C10): a whole Peer._main under a virtual clock,
i.e. the measurement of the loop gap delta while a long outbound batch is written."""

from __future__ import annotations

import asyncio
import collections
import json
import random
import struct

from harness import common
from harness.common import Run

PID = 'C12'
HOLDS = [0, 3, 4, 9, 10, 30, 90, 180, 65535]
EPOCH = 1_700_000_000.0
TICK = 0.125  # every scripted time is a multiple of 1/8 s: float sums are exact

# ------------------------------------------------------------------------------- wire messages

MARKER = b'\xff' * 16


def _msg(ty, body):
    return MARKER + struct.pack('!HB', 19 + len(body), ty) + body


def _attr(flag, ty, val):
    return bytes([flag, ty, len(val)]) + val


def _update(attrs, nlri=b'\x08\x0a', wd=b''):
    return _msg(2, struct.pack('!H', len(wd)) + wd + struct.pack('!H', len(attrs)) + attrs + nlri)


_BASE = _attr(0x40, 1, b'\x00') + _attr(0x40, 2, b'') + _attr(0x40, 3, bytes([192, 0, 2, 1])) + _attr(0x40, 5, struct.pack('!I', 100))

WIRE = {
    'keepalive': _msg(4, b''),
    'update': _update(_BASE),
    'eor': _update(b'', b''),
    'withdraw': _update(b'', b'', b'\x08\x0a'),
    'refresh': _msg(5, b'\x00\x01\x00\x01'),
    # RFC 7606 "attribute discard" inputs: the UPDATE is nevertheless a message received from the peer
    'update_bad_aggregator': _update(_BASE + _attr(0xC0, 7, b'\x00\x01\x02\x03\x04')),
    'update_bad_atomic': _update(_BASE + _attr(0x40, 6, b'\x00')),
}
OPEN_WIRE = _msg(1, bytes([4]) + struct.pack('!HH', 65000, 180) + bytes([1, 1, 1, 1, 0]))
KINDS = list(WIRE)


def classify_wire():
    """kind -> the object the real Protocol.read_message returns for that message (what _main hands to check_ka)."""
    from harness.c06 import make_protocol, FakeSock, FakeLoop, drive
    from exabgp.reactor.network import connection as connmod
    from exabgp.reactor.network.connection import Connection
    from exabgp.protocol.family import AFI

    proto = make_protocol()
    out = {}
    saved = connmod.asyncio.get_event_loop
    connmod.asyncio.get_event_loop = lambda: FakeLoop()
    try:
        for kind, raw in list(WIRE.items()) + [('open', OPEN_WIRE)]:
            conn = Connection(AFI.ipv4, '127.0.0.1', '127.0.0.1')
            conn.msg_size = 4096
            conn.defensive = False
            conn.io = FakeSock(raw, [])
            proto.connection = conn
            try:
                out[kind] = drive(proto.read_message())
            finally:
                conn.io = None
    finally:
        connmod.asyncio.get_event_loop = saved
        proto.connection = None
    return out, proto


def fields_of(obj):
    return int(obj.TYPE[0]), int(obj.SCHEDULING)


# ------------------------------------------------------------------------------- implementation side


class FakeTime:
    def __init__(self):
        self.now = 0.0

    def time(self):
        return self.now


class Clocked:
    """context: exabgp.bgp.timer.time is the scripted clock"""

    def __enter__(self):
        import exabgp.bgp.timer as tm

        self.tm = tm
        self.saved = tm.time
        self.clock = FakeTime()
        tm.time = self.clock
        return self.clock

    def __exit__(self, *a):
        self.tm.time = self.saved


def rstate(r):
    return [int(r.last_read), int(r.last_print), 1 if r.single else 0]


def run_impl(case, objs):
    """-> dict(init=[...], steps=[row...]) ; a row is
    [o, cd, sb, last_read, r.last_print, single, last_sent, s.last_print] with o = 0 no KEEPALIVE, 1 KEEPALIVE, 2 Notify"""
    from exabgp.bgp.timer import ReceiveTimer, SendTimer
    from exabgp.bgp.message import Notify, _NOP
    from exabgp.bgp.message.open.holdtime import HoldTime

    H = HoldTime(case['H'])
    with Clocked() as clock:
        clock.now = case['t_rt']
        r = ReceiveTimer(lambda: 'verif', H, 4, 0)
        init = rstate(r) + [int(r.code), int(r.subcode)]
        clock.now = case['t_ka']
        try:
            ret = r.check_ka_timer(objs['keepalive'])
            init.append(1 if ret else 0)
        except Notify:
            init.append(2)
        init += rstate(r)[:2]
        clock.now = case['t_main']
        s = SendTimer(lambda: 'verif', H)
        init += [int(s.keepalive), int(s.last_sent), int(s.last_print)]
        rows, calls, times = [], [], []
        t = case['t_main']
        for st in case['steps']:
            dt, kind, dk = st[0], st[1], st[2]
            t += dt
            clock.now = t
            obj = _NOP if kind == 'none' else objs[kind]
            ty, sc = fields_of(obj)
            tc = t
            try:
                r.check_ka(obj)
            except Notify as n:
                rows.append([2, int(n.code), int(n.subcode)] + rstate(r) + [int(s.last_sent), int(s.last_print)])
                calls.append((int(tc), ty, sc, int(tc)))
                times.append((tc, tc))
                break
            t += dk
            clock.now = t
            b = s.need_ka()
            if b is not True and b is not False:
                raise AssertionError(f'need_ka returned {b!r}')
            rows.append([1 if b else 0, 0, 0] + rstate(r) + [int(s.last_sent), int(s.last_print)])
            calls.append((int(tc), ty, sc, int(t)))
            times.append((tc, t))
    return {'init': init, 'rows': rows, 'calls': calls, 'times': times}


def run_direct(d, objs):
    """one call of one method on an object whose fields are set to arbitrary values -> result row"""
    from exabgp.bgp.timer import ReceiveTimer, SendTimer
    from exabgp.bgp.message import Notify, _NOP
    from exabgp.bgp.message.open.holdtime import HoldTime

    with Clocked() as clock:
        clock.now = 0.0
        if d['fn'] in ('check_ka_timer', 'check_ka'):
            r = ReceiveTimer(lambda: 'verif', HoldTime(d['h']), d['code'], d['sub'])
            r.last_print, r.last_read, r.single = d['lp'], d['lr'], bool(d['sg'])
            obj = _NOP if d['kind'] == 'none' else objs[d['kind']]
            clock.now = d['now']
            try:
                ret = getattr(r, d['fn'])(obj)
                o = [0 if ret is None else (1 if ret else 0), 0, 0]
            except Notify as n:
                o = [2, int(n.code), int(n.subcode)]
            return o + [int(r.holdtime), int(r.last_print), int(r.last_read), int(r.code), int(r.subcode), 1 if r.single else 0]
        s = SendTimer(lambda: 'verif', HoldTime(d['h']))
        if d.get('k') is not None:
            s.keepalive = d['k']
        s.last_print, s.last_sent = d['lp'], d['lr']
        clock.now = d['now']
        b = s.need_ka()
        return [1 if b else 0, 0, 0, int(s.keepalive), int(s.last_print), int(s.last_sent), 0, 0, 0]


# ---- open wait on a virtual-time asyncio loop


class VLoop(asyncio.SelectorEventLoop):
    """asyncio loop whose clock jumps to the next timer when nothing is ready (no real I/O is used)"""

    def __init__(self):
        super().__init__()
        self._vt = 0.0

    def time(self):
        return self._vt

    def _run_once(self):
        if not self._ready and self._scheduled:
            when = self._scheduled[0]._when
            if when > self._vt:
                self._vt = when
        super()._run_once()


def run_open_wait(case, objs, proto):
    """real Peer._read_open + real Protocol.read_open; read_message follows the script.
    -> ['got', e] | ['notify', e, code, sub] (e in ticks)"""
    from exabgp.reactor.peer.peer import Peer
    from exabgp.bgp.message import Notify, _NOP
    from exabgp.environment import getenv

    events = list(case['events'])
    loop = VLoop()
    saved_wait = getenv().bgp.openwait
    getenv().bgp.openwait = case['wait']

    async def read_message():
        if not events:
            await asyncio.sleep(10_000_000)
            return _NOP
        d, kind = events.pop(0)
        await asyncio.sleep(d * TICK)
        return {'nothing': _NOP, 'open': objs['open'], 'other': objs['keepalive']}[kind]

    class Stub:
        pass

    stub = Stub()
    from exabgp.reactor.network.connection import Connection
    from exabgp.protocol.family import AFI

    stub.proto = proto
    stub.neighbor = proto.neighbor
    proto.read_message = read_message
    proto.connection = Connection(AFI.ipv4, '127.0.0.1', '127.0.0.1')
    asyncio.set_event_loop(loop)

    async def main():
        try:
            await Peer._read_open(stub)
            return ['got', round(loop.time() / TICK)]
        except Notify as n:
            return ['notify', round(loop.time() / TICK), int(n.code), int(n.subcode)]

    try:
        return loop.run_until_complete(main())
    finally:
        del proto.read_message
        proto.connection = None
        getenv().bgp.openwait = saved_wait
        asyncio.set_event_loop(None)
        loop.close()


# ------------------------------------------------------------------------------- model evaluation

HEADER = """From Coq Require Import ZArith Bool List.
From ExaV Require Import gen.Gen_Timer spec.Spec_Timer model.Model_Timer.
Import ListNotations. Open Scope Z_scope.
Definition b2z (b : bool) : Z := if b then 1 else 0.
Fixpoint zleq (a b : list Z) : bool :=
  match a, b with [], [] => true | x :: a', y :: b' => (x =? y) && zleq a' b' | _, _ => false end.
Fixpoint zlleq (a b : list (list Z)) : bool :=
  match a, b with [], [] => true | x :: a', y :: b' => zleq x y && zlleq a' b' | _, _ => false end.
(* the generated functions folded over the calls the implementation made: (now at check_ka, TYPE, SCHEDULING, now at need_ka) *)
Fixpoint sim (r : rtimer) (t : stimer) (l : list (Z * Z * Z * Z)) : list (list Z) :=
  match l with
  | [] => []
  | (c, ty, sc, n) :: rest =>
    match check_ka r c ty sc with
    | (r', Raise cd sb) => [[2; cd; sb; r_last_read r'; r_last_print r'; b2z (r_single r'); s_last_sent t; s_last_print t]]
    | (r', Ret _) =>
      match need_ka t n with
      | (t', b) => [b2z b; 0; 0; r_last_read r'; r_last_print r'; b2z (r_single r'); s_last_sent t'; s_last_print t'] :: sim r' t' rest
      end
    end
  end.
Definition init_obs (H t_rt t_ka t_main : Z) : list Z :=
  let r0 := rtimer_init H established_code established_subcode t_rt in
  match check_ka_timer r0 t_ka KeepAlive_TYPE MESSAGE_SCHEDULING with
  | (r1, o) =>
    let t0 := stimer_init H t_main in
    [r_last_read r0; r_last_print r0; b2z (r_single r0); r_code r0; r_subcode r0;
     match o with Ret b => b2z b | Raise _ _ => 2 end; r_last_read r1; r_last_print r1;
     s_keepalive t0; s_last_sent t0; s_last_print t0]
  end.
(* the hand model of the loop on the same calls *)
Fixpoint to_steps (prev : Z) (l : list (Z * Z * Z * Z)) : list step :=
  match l with
  | [] => []
  | (c, ty, sc, n) :: r => {| dt := c - prev; inb := if sc =? 0 then InMsg ty else InNone; dk := n - c |} :: to_steps n r
  end.
Definition obs_z (o : obs) : list Z :=
  match o with Quiet t => [0; t; 0; 0] | KaSent t => [1; t; 0; 0] | Notified t c s => [2; t; c; s] end.
Fixpoint exp_obs (l : list (Z * Z * Z * Z)) (e : list (list Z)) : list (list Z) :=
  match l, e with
  | (c, _, _, n) :: l', (o :: cd :: sb :: _) :: e' => (if o =? 2 then [2; c; cd; sb] else [o; n; 0; 0]) :: exp_obs l' e'
  | _, _ => []
  end.
Definition okc (x : Z * (Z * Z * Z) * list (Z * Z * Z * Z) * list Z * list (list Z) * list Z) : bool :=
  match x with (H, (t_rt, t_ka, t_main), calls, einit, erows, _) =>
    let s := session_init H t_rt t_ka t_main in
    zleq (init_obs H t_rt t_ka t_main) einit
    && zlleq (sim (rt s) (stt s) calls) erows
    && zlleq (map obs_z (run_main s (to_steps t_main calls))) (exp_obs calls erows)
  end.
(* the property judged on the REGENERATED MODEL, with the bookkeeping of Spec_Timer only (h: reading at which a message
   was last handed over, snt: reading of the last KEEPALIVE): a call that carries a message never ends the session unless
   the wire had been silent for more than H before it (flag list f, then either outcome), a call without one ends it with
   4/0 exactly when the last message is more than H old; a KEEPALIVE exactly every H/3; H = 0:
   nothing but the coded 2/6.  A case that fails here is a schedule on which the generated code breaks C12. *)
Fixpoint prop_walk (H K h t snt : Z) (f : list Z) (l : list step) (o : list obs) : bool :=
  match l, o with
  | [], [] => true
  | x :: l', ob :: o' =>
    let c := t + dt x in
    let sil := if real (inb x) then 0 else c - h in
    let h' := if real (inb x) then c else h in
    let n := c + dk x in
    (* late: part of the schedule - the message handed over here reached the socket after a wire silence above H:
       the property then allows the close as well as carrying on *)
    let late := match f with z :: _ => negb (z =? 0) | [] => false end in
    if (0 <? H) && (H <? sil) then
      match ob, o' with Notified t' 4 0, [] => t' =? c | _, _ => false end
    else
      match ob with
      | Notified t' cd sb =>
        match o' with
        | [] => ((H =? 0) && (cd =? 2) && (sb =? 6))
                || ((0 <? H) && real (inb x) && late && (cd =? 4) && (sb =? 0) && (t' =? c))
        | _ => false
        end
      | KaSent t' => (0 <? K) && (K <=? n - snt) && (t' =? n) && prop_walk H K h' n n (tl f) l' o'
      | Quiet t' => ((K =? 0) || (n - snt <? K)) && (t' =? n) && prop_walk H K h' n snt (tl f) l' o'
      end
  | _, _ => false
  end.
Definition okp (x : Z * (Z * Z * Z) * list (Z * Z * Z * Z) * list Z * list (list Z) * list Z) : bool :=
  match x with (H, (t_rt, t_ka, t_main), calls, _, _, fl) =>
    let l := to_steps t_main calls in
    prop_walk H (H / 3) t_ka t_main t_main fl l (run_main (session_init H t_rt t_ka t_main) l)
  end.
Fixpoint bad {A} (f : A -> bool) (l : list A) (i : nat) : list nat :=
  match l with [] => [] | c :: l' => if f c then bad f l' (S i) else i :: bad f l' (S i) end.
(* direct calls on arbitrary states: fn 0 check_ka_timer, 1 check_ka, 2 need_ka *)
Definition okd (x : Z * list Z * list Z) : bool :=
  match x with
  | (fn, [h; lp; lr; cd; sb; sg; now; ty; sc], e) =>
    let r := Build_rtimer h lp lr cd sb (negb (sg =? 0)) in
    let row (r' : rtimer) (o : list Z) := o ++ [r_holdtime r'; r_last_print r'; r_last_read r'; r_code r'; r_subcode r'; b2z (r_single r')] in
    if fn =? 0 then
      match check_ka_timer r now ty sc with
      | (r', Ret b) => zleq (row r' [b2z b; 0; 0]) e
      | (r', Raise c s) => zleq (row r' [2; c; s]) e
      end
    else if fn =? 1 then
      match check_ka r now ty sc with
      | (r', Ret _) => zleq (row r' [0; 0; 0]) e
      | (r', Raise c s) => zleq (row r' [2; c; s]) e
      end
    else
      match need_ka (Build_stimer h lp lr) now with
      | (t', b) => zleq [b2z b; 0; 0; s_keepalive t'; s_last_print t'; s_last_sent t'; 0; 0; 0] e
      end
  | _ => false
  end.
Definition okk (x : Z * Z) : bool := holdtime_keepalive (fst x) =? snd x.
Definition open_z (o : open_out) : list Z :=
  match o with OpenPending e => [0; e] | OpenGot e => [1; e] | OpenNotify e c s => [2; e; c; s] end.
Definition oin (z : Z) : open_in := if z =? 0 then OpNothing else if z =? 1 then OpOpen else OpOther.
Definition oko (x : Z * list (Z * Z) * list Z) : bool :=
  match x with (wait, ev, e) =>
    let l := map (fun p => (fst p, oin (snd p))) ev in
    zleq (open_z (read_open_wait wait 0 l)) e && zleq (open_z (open_expected wait l)) e
  end.
"""


def zl(xs):
    return '[' + ';'.join(f'({int(x)})' if int(x) < 0 else str(int(x)) for x in xs) + ']'


def after_silence_flags(case, res):
    """per executed step: 1 when the step hands over a message and, since the previous message handed over, the wire had
    been silent for more than H at some point (the property then allows closing with 4/0 as well as carrying on), else 0"""
    H = case['H']
    out = []
    for st, (tc, _), since in zip(case['steps'], res['times'], handover_windows(case)):
        out.append(1 if (H > 0 and st[1] != 'none' and longest_wire_silence(case, tc, since) > H) else 0)
    return out


def coq_case(case, res):
    calls = '[' + ';'.join(f'({c},{ty},{sc},{n})' for c, ty, sc, n in res['calls']) + ']'
    rows = '[' + ';'.join(zl(r) for r in res['rows']) + ']'
    return (f'({case["H"]}, ({int(case["t_rt"])},{int(case["t_ka"])},{int(case["t_main"])}), {calls}, '
            f'{zl(res["init"])}, {rows}, {zl(after_silence_flags(case, res))})')


# ------------------------------------------------------------------------------- generation


def q(x):
    """round to the tick grid"""
    return round(x / TICK) * TICK


def gen_case(rng, H, mode=None):
    K = H // 3
    mode = mode or rng.choice(['steady', 'steady', 'silent', 'boundary', 'boundary', 'burst', 'slow', 'ignored'])
    frac = lambda: rng.randrange(8) * TICK
    t_rt = EPOCH + rng.randrange(100000) + frac()
    t_ka = t_rt + rng.choice([0, TICK, 0.5, 1, 2.25])
    t_main = t_ka + rng.choice([0, 0, TICK, 0.875, 1.5])
    steps = []
    t = t_main
    last = t_ka  # last wire message
    n = rng.randint(4, 36)
    small = [0, 0, TICK, TICK, 0.25, 0.5, 0.5, 1, 1, 1.125, 2]
    speakers = ['keepalive', 'update', 'eor', 'withdraw', 'refresh']
    if mode == 'ignored':
        speakers = ['update_bad_aggregator', 'update_bad_atomic']
    for i in range(n):
        dk = rng.choice([0] * 10 + [TICK, 1])
        kind = 'none'
        if mode in ('steady', 'burst', 'ignored'):
            dt = rng.choice(small) if mode != 'burst' else rng.choice([0, 0, 0, TICK])
            if H > 0 and rng.random() < 0.25:
                dt = q(max(0, K + rng.choice([-1, -TICK, 0, TICK, 1])))
            # the peer talks often enough: before its own third of the hold time is over
            if H > 0 and (t + dt - last) >= max(K - 1, 1) or rng.random() < 0.2:
                kind = rng.choice(speakers)
                if H == 0 and kind == 'keepalive' and rng.random() < 0.7:
                    kind = 'update'
        elif mode == 'silent':
            dt = rng.choice(small + ([q(H / 4), q(H / 2)] if H > 0 else [5, 50]))
            if i < n // 3 and rng.random() < 0.5:
                kind = rng.choice(speakers)
        elif mode == 'boundary':
            # land the check at a chosen distance from the hold boundary
            if H > 0 and rng.random() < 0.5:
                off = rng.choice([-1, -TICK, 0, TICK, 0.5, 0.875, 1, 1.125, 2])
                dt = q(last + H + off - t)
                if dt < 0:
                    dt = rng.choice(small)
            else:
                dt = rng.choice(small + ([K, q(K + TICK)] if K else []))
            if rng.random() < 0.3:
                kind = rng.choice(speakers)
        else:  # slow: long iterations (an outbound batch, other peers)
            dt = rng.choice([1, 2, q(K + 1), q(K + 2.5), q(2 * K + 0.5)] if H > 0 else [1, 30, 600])
            if H > 0 and (t + dt - last) >= max(K, 1):
                kind = rng.choice(speakers)
        t += dt
        if kind != 'none':
            last = t
        t += dk
        steps.append([dt, kind, dk])
    return {'H': H, 't_rt': t_rt, 't_ka': t_ka, 't_main': t_main, 'steps': steps, 'mode': mode}


LATE_GAPS = ['H-1', 'H', 'H+1', '2H', '10H']


def gen_late(rng, H, gap=None, variant=None, kind=None):
    """The loop is held up (a blocked write, a long batch): one call of the hold timer comes G seconds after the
    previous one, G in {H-1, H, H+1, 2H, 10H} (+ a fraction).  Variants: 'queued' - the peer kept sending every H/3 s
    at most, its messages waited in the socket and are handed over one per iteration (4th field of a step: how long
    the message had been waiting); 'fresh' - one message, arrived as the loop comes back; 'none' - nothing arrived."""
    K = max(H // 3, 1)
    frac = lambda: rng.randrange(8) * TICK
    t_rt = EPOCH + rng.randrange(100000) + frac()
    t_ka = t_rt + rng.choice([0, TICK, 0.5, 1])
    t_main = t_ka + rng.choice([0, 0, TICK, 0.875])
    speakers = ['keepalive', 'update', 'eor', 'withdraw', 'refresh', 'update_bad_aggregator', 'update_bad_atomic']
    pick = (lambda: kind) if kind else (lambda: rng.choice(speakers))
    steps = []
    for _ in range(rng.randint(0, 3)):
        steps.append([rng.choice([TICK, 0.5, 1]), rng.choice(['none', 'keepalive', 'update']), 0])
    if not steps or steps[-1][1] == 'none':
        steps.append([TICK, pick(), 0])  # the stall starts right after a message
    gap = gap or rng.choice(LATE_GAPS)
    G = {'H-1': H - 1, 'H': H, 'H+1': H + 1, '2H': 2 * H, '10H': 10 * H}[gap] + rng.choice([0, 0, TICK, 0.5, 0.875])
    variant = variant or rng.choice(['queued', 'queued', 'fresh', 'none'])
    if variant == 'none':
        steps.append([G, 'none', 0])
    elif variant == 'fresh':
        steps.append([G, pick(), 0, 0.0])
    else:
        period = rng.choice([1, K])
        if G / period > 36:
            period = K  # 10H / (H/3): about 30 messages
        arrivals, a = [], period
        while a <= G:
            arrivals.append(a)
            a += period
        if not arrivals:
            arrivals = [G]
        now = G
        for j, arr in enumerate(arrivals):
            d = G if j == 0 else rng.choice([0, 0, TICK])
            if j:
                now += d
            steps.append([d, pick(), 0, now - arr])
    for _ in range(rng.randint(0, 3)):
        steps.append([rng.choice([TICK, 0.5, 1, K]), rng.choice(['none', 'none', 'keepalive']), 0])
    return {'H': H, 't_rt': t_rt, 't_ka': t_ka, 't_main': t_main, 'steps': steps, 'mode': f'late-{variant}'}


def late_sweep(rng):
    """every hold time x every late gap x {queued, fresh, none} x every message kind"""
    out = []
    for H in HOLDS:
        if H == 0:
            continue
        for gap in LATE_GAPS:
            out.append(gen_late(rng, H, gap, 'none'))
            for kind in KINDS:
                out.append(gen_late(rng, H, gap, 'fresh', kind))
                out.append(gen_late(rng, H, gap, 'queued', kind))
    return out


def small_scope(H, L):
    """every schedule of length L over a small alphabet, from a fixed start"""
    import itertools

    K = H // 3
    dts = sorted({0, 1, max(K, 1) + 0.0, H + 0.0, H + 1.0} if H > 0 else {0, 1, 7})
    alphabet = [[dt, kind, dk] for dt in dts for kind in ('none', 'keepalive', 'update') for dk in (0, 1)]
    for seq in itertools.product(alphabet, repeat=L):
        yield {'H': H, 't_rt': EPOCH, 't_ka': EPOCH + 0.5, 't_main': EPOCH + 0.875, 'steps': [list(s) for s in seq], 'mode': 'exhaustive'}


def gen_direct(rng):
    fn = rng.choice(['check_ka_timer', 'check_ka', 'need_ka'])
    base = rng.randrange(1000, 2_000_000_000)
    now_i = base + rng.choice([0, 0, 1, 2, 3, 10, 100, 65535, 65536, -1, -50])
    h = rng.choice([0, 0, 1, 2, 3, 4, 9, 90, 180, 65535])
    d = {'fn': fn, 'h': h, 'lr': base, 'lp': rng.choice([0, base, now_i, now_i - 1]), 'now': now_i + rng.randrange(8) * TICK}
    if fn == 'need_ka':
        d['k'] = rng.choice([None, None, 0, 1, 3, 21845])
        if rng.random() < 0.4:  # sit on the boundary
            k = d['k'] if d['k'] is not None else h // 3
            d['now'] = base + k + rng.choice([-1, 0, 1]) + rng.randrange(8) * TICK
    else:
        d.update({'code': rng.choice([4, 4, 5, 2, 6]), 'sub': rng.choice([0, 0, 1, 6]), 'sg': rng.choice([0, 0, 1]),
                  'kind': rng.choice(['none', 'none', 'keepalive', 'keepalive', 'update', 'refresh', 'update_bad_aggregator'])})
        if rng.random() < 0.4 and h:
            d['now'] = base + h + rng.choice([-1, 0, 1]) + rng.randrange(8) * TICK
    return d


def gen_open(rng):
    wait = rng.choice([1, 2, 5, 60])
    events, e = [], 0
    W = round(wait / TICK)
    for _ in range(rng.randint(0, 6)):
        d = rng.choice([0, 1, 2, 4, 8, W // 2, W - 1, W + 1, W])
        if e + d == W:
            d += 1  # no exact tie between the arrival and the timeout
        e += d
        kind = rng.choice(['nothing', 'nothing', 'nothing', 'open', 'other'])
        events.append([d, kind])
        if kind != 'nothing':
            break
    return {'wait': wait, 'events': events}


# ------------------------------------------------------------------------------- property oracle


def wire_arrivals(case):
    """reading at which each message of the case reached the socket (hand-over time minus its waiting time), whether or
    not the loop got as far as handing it over"""
    t = case['t_main']
    out = []
    for st in case['steps']:
        t += st[0]
        if st[1] != 'none':
            out.append(t - (st[3] if len(st) > 3 else 0.0))
        t += st[2]
    return out


def longest_wire_silence(case, until, since=None):
    """longest time without a message reaching the socket, in the window [since, until] (since: default the OPENCONFIRM
    KEEPALIVE); messages still waiting in the socket count: they show the peer was sending"""
    last, longest = (case['t_ka'] if since is None else since), 0.0
    for a in sorted(x for x in wire_arrivals(case) if last <= x <= until):
        longest, last = max(longest, a - last), max(last, a)
    return max(longest, until - last)


def handover_windows(case):
    """per step: the reading at which the previous message handed over had reached the socket (start of the window in
    which the hold timer has had no news)"""
    t = case['t_main']
    prev = case['t_ka']
    out = []
    for st in case['steps']:
        t += st[0]
        out.append(prev)
        if st[1] != 'none':
            prev = t - (st[3] if len(st) > 3 else 0.0)
        t += st[2]
    return out


def oracle(case, res, objs):
    """The property judged on what the implementation did, in REAL (fractional) time, independently of the Coq model.
    A message of any kind handed to the timer is 'something received'; a call that carries a message must not end the
    session with 4/0 when the peer was never silent for more than H on the wire (when it was, closing and carrying on are
    both accepted); a call without one may only end it when the last message was handed over more than H seconds before.
    -> list of (sig, what, step index)"""
    H = case['H']
    K = H // 3
    probs = []
    last = case['t_ka']
    last_kind = 'keepalive'
    prev_ka = case['t_main']
    prev_call = case['t_main']
    longest = 0.0  # longest time without any message handed over so far
    for i, (st, row, (tc, tn)) in enumerate(zip(case['steps'], res['rows'], res['times'])):
        kind = st[1]
        longest = max(longest, tc - last)
        gap = tc - prev_call
        if kind != 'none':
            last, last_kind = tc, kind
        silence = tc - last
        o, cd, sb = row[0], row[1], row[2]
        if o == 2:
            if H == 0 and (cd, sb) == (4, 0):
                probs.append(('zero-hold-fired', f'hold time 0: NOTIFICATION 4/0 at step {i}', i))
            elif H > 0 and (cd, sb) != (4, 0):
                probs.append((f'wrong-notification:{cd}/{sb}', f'hold time {H}: NOTIFICATION {cd}/{sb} from the timers at step {i}', i))
            elif H > 0 and kind != 'none':
                wire = longest_wire_silence(case, tc, handover_windows(case)[i])
                if fields_of(objs[kind])[1] != 0:
                    sig = 'hold-early:received-update-not-counted'
                elif wire <= H:
                    sig = 'hold-early:message-in-hand'
                else:
                    # nothing reached the socket for more than H before this message: "a session on which nothing is received
                    # for more than H seconds is closed with 4/0" - closing is allowed here, and so is carrying on
                    # (counted in coverage.message_after_wire_silence)
                    sig = None
                if sig:
                    probs.append((sig, f'hold time {H}: closed with 4/0 by a call that carries a message just read ({kind}); the previous '
                                       f'call of the hold timer was {gap} s earlier (loop held up); since the previous message it read the peer was '
                                       f'never silent for more than {wire} s on the wire', i))
            elif H > 0 and not longest > H:
                ignored = fields_of(objs[last_kind])[1] != 0
                sig = 'hold-early:received-update-not-counted' if ignored else 'hold-early'
                probs.append((sig, f'hold time {H}: closed with 4/0 although the peer was never silent for more than {longest} s '
                                   f'(last message handed over: {last_kind}, {silence} s before the check)', i))
            break
        if H > 0 and silence >= H + 1:
            probs.append(('hold-late', f'hold time {H}: still open at a check {silence} s after the last message', i))
        if o == 1:
            if H == 0:
                probs.append(('zero-keepalive-sent', f'hold time 0: periodic KEEPALIVE at step {i}', i))
            prev_ka = tn
        elif H > 0 and tn - prev_ka >= K + 1:
            # K + 1 real seconds always show as K on the integer clock: this consultation had to send
            probs.append(('keepalive-late', f'hold time {H}: no KEEPALIVE at a send-timer consultation {tn - prev_ka} s after the '
                                            f'last one (H/3 = {K}, loop gap {tn - prev_call} s)', i))
        prev_call = tn
    return probs


def open_oracle(case, got):
    """5/1 exactly when no OPEN arrived within the wait (or the first message is not an OPEN)"""
    W = round(case['wait'] / TICK)
    e = 0
    for d, kind in case['events']:
        e += d
        if kind == 'open':
            want = ['got', e] if e < W else ['notify', W, 5, 1]
            break
        if kind == 'other':
            want = ['notify', e, 5, 1] if e < W else ['notify', W, 5, 1]
            break
    else:
        want = ['notify', W, 5, 1]
    return [] if got == want else [('openwait', f'openwait {case["wait"]} s, events {case["events"]}: got {got}, the property wants {want}')]


def shrink(case, sig, objs):
    """cut the schedule after the failing step, then merge steps one by one, as long as the SAME finding persists
    (the signature carries the narrative: e.g. ':message-in-hand' needs the queued messages that show the peer kept sending)"""

    def fails(c):
        try:
            return any(s == sig for s, _, _ in oracle(c, run_impl(c, objs), objs))
        except Exception:
            return False

    cur = dict(case)
    steps = [list(x) for x in cur['steps']]
    probs = [p for p in oracle(cur, run_impl(cur, objs), objs) if p[0] == sig]
    if probs and fails(dict(cur, steps=steps[: probs[0][2] + 1])):
        steps = steps[: probs[0][2] + 1]
    i = len(steps) - 2
    while i >= 0:
        if i + 1 < len(steps):
            nxt = list(steps[i + 1])
            nxt[0] = steps[i][0] + steps[i][2] + nxt[0]
            cand = steps[:i] + [nxt] + steps[i + 2:]
            if fails(dict(cur, steps=cand)):
                steps = cand
        i -= 1
    # queued messages behind the failing call that are not needed
    j = len(steps) - 1
    while j > 0:
        cand = steps[:j] + steps[j + 1:]
        if fails(dict(cur, steps=cand)):
            steps = cand
        j -= 1
    cur['steps'] = steps
    return cur


# ------------------------------------------------------------------------------- check


def evaluate(run, tag, items, fn, per=150):
    """fn: one Coq predicate name, or a tuple of names (then a tuple of bad-index lists is returned)"""
    fns = fn if isinstance(fn, tuple) else (fn,)
    shards = common.chunked(list(range(len(items))), per)

    def defs(idx):
        return ('Definition cases := [' + ';\n'.join(items[i] for i in idx) + '].\n'
                + ''.join(f'Eval vm_compute in (bad {f} cases 0).\n' for f in fns))

    res = common.eval_cases(HEADER, defs, shards, tag)
    ok = all(rc == 0 and len(parsed) == len(fns) for rc, _, parsed in res)
    bads = [[] for _ in fns]
    for shard, (rc, out, parsed) in zip(shards, res):
        if rc == 0 and len(parsed) == len(fns):
            for k in range(len(fns)):
                bads[k] += [shard[j] for j in common.nat_list_of(parsed[k])]
    log = '\n'.join(out for rc, out, _ in res if rc != 0)[-2000:]
    return (ok, tuple(bads), log) if isinstance(fn, tuple) else (ok, bads[0], log)


def hpeer_asymmetric(tier):
    """real Peer/Protocol/KA/ReceiveTimer under virtual time; our configuration says hold-time 180, the scripted
    speaker's OPEN says less.  Judged on the wire only: KEEPALIVE count over a known span, NOTIFICATIONs written."""
    from harness import hpeer

    rows, fails = [], []

    def written(res, kind):
        return [r for r in res['log'] if r[0] == 'w' and r[2] == kind]

    def established_prefix(peer_hold):
        return [['tick', None], ['connect_ok', None], ['recv', f'OpenOkHold{peer_hold}'], ['recv', 'Keepalive']]

    scen = []
    # the peer keeps talking every second for `span` s: we owe it one KEEPALIVE per negotiated H/3
    for peer_hold, span in ((9, 21), (30, 45)) if tier == 'quick' else ((9, 21), (9, 60), (30, 45), (30, 100), (90, 200), (3, 12)):
        steps = established_prefix(peer_hold)
        for _ in range(span):
            steps += [['silence', 1.0], ['recv', 'Keepalive']]
        scen.append((f'talking:{peer_hold}:{span}', peer_hold, span, steps))
    # negotiated 0: no periodic KEEPALIVE, no hold timer, however long the silence
    scen.append(('zero:200', 0, 200, established_prefix(0) + [['silence', 200.0]]))
    # a slow first KEEPALIVE (T s after the OPENs), then a silence G < H with T + G > H: still up
    for peer_hold, T, G in ((9, 6.0, 6.0), (30, 20.0, 20.0)):
        steps = [['tick', None], ['connect_ok', None], ['recv', f'OpenOkHold{peer_hold}'], ['silence', T], ['recv', 'Keepalive'],
                 ['silence', G], ['recv', 'Keepalive'], ['silence', 1.0]]
        scen.append((f'slow-first-keepalive:{peer_hold}:{T}:{G}', peer_hold, None, steps))
    for name, H, span, steps in scen:
        res = hpeer.run_script(steps, gap=0.5)
        kas = len(written(res, 'KEEPALIVE'))
        notes = [[r[3], r[4]] for r in written(res, 'NOTIFICATION')]
        row = {'name': name, 'negotiated_hold': H, 'keepalives_written': kas, 'notifications': notes, 'final_fsm': res['final_fsm'],
               'skipped': res['skipped']}
        problem = None
        if res['skipped']:
            problem = f'steps {res["skipped"]} found no transport: the session was gone before the scenario ended; NOTIFICATIONs {notes}'
        elif notes:
            problem = f'closed: negotiated hold time {H}, NOTIFICATION {notes} although the peer was never silent for H seconds'
        elif name.startswith('talking'):
            # one KEEPALIVE answers the OPEN; afterwards one per H/3 s (+ 1 s integer clock + loop gap): at least span/(H/3 + 2) of them
            need = int(span // (H // 3 + 2))
            if kas < need:
                problem = f'keepalive-late: negotiated hold time {H}: {kas} KEEPALIVEs written in {span} s, at least {need} are due (one per {H // 3} s)'
        elif name.startswith('zero'):
            if kas > 1:
                problem = f'zero-keepalive-sent: negotiated hold time 0: {kas - 1} periodic KEEPALIVEs written in {span} s'
        if problem:
            fails.append(dict(row, problem=problem, script=steps if len(steps) < 30 else steps[:8] + [['...', len(steps)]]))
        rows.append(row)
    return rows, fails


def hpeer_held_up(hold, block_s, nroutes=1500, block_at=500):
    """harness/hpeer.py measure_loop_gap (real Peer._main over the rig, virtual time) with one write of the batch blocked
    for block_s > hold seconds; every NOTIFICATION the speaker under test writes is recorded"""
    from harness import hpeer
    import exabgp.reactor.protocol as pm

    notes = []
    real = pm.Protocol.new_notification

    async def new_notification(self, notification):
        notes.append([int(notification.code), int(notification.subcode)])
        return await real(self, notification)

    pm.Protocol.new_notification = new_notification
    try:
        row = hpeer.measure_loop_gap(hold, nroutes, block_s, block_at)
    finally:
        pm.Protocol.new_notification = real
    row['notifications'] = notes
    return row


def replay(path):
    payload = json.load(open(path))
    case = payload.get('case', payload)
    if 'hpeer' in case:
        row = hpeer_held_up(case['hpeer']['hold'], case['hpeer']['block_s'])
        print(json.dumps(row))
        bad = row['session_ended_during_batch'] or row['notifications']
        print('replay:', 'property violated' if bad else 'property holds on this input')
        return 1 if bad else 0
    objs, proto = classify_wire()
    if 'events' in case:
        got = run_open_wait(case, objs, proto)
        probs = open_oracle(case, got)
    else:
        res = run_impl(case, objs)
        probs = oracle(case, res, objs)
        print(json.dumps({'rows': res['rows'], 'times': res['times']}))
    for p in probs:
        print('FAILS:', p[0], p[1])
    print('replay:', 'property violated' if probs else 'property holds on this input')
    return 1 if probs else 0


def check(tier, seed):
    run = Run(PID, tier, seed)
    run.trusted = [
        'Coq 8.16.1 kernel (coqc), vm_compute for case evaluation; no native_compute',
        'translator translate/t3_timer.py + py2coq.py: bodies of ReceiveTimer.__init__/check_ka_timer/check_ka, '
        'SendTimer.__init__/need_ka, HoldTime.keepalive -> Gen_Timer.v (python ast, whitelisted shapes; logging and '
        'log-only locals dropped; int(a / b) read as floor division, checked here for every hold time 0..65535); the '
        'call sites in Peer._main/_establish/_read_ka/_read_open, KA.send_if_needed and Protocol.read_open are '
        'shape-checked fail-closed, their codes (4/0, 5/1) and the read timeout extracted',
        'harness/c12.py: scripted exabgp.bgp.timer.time, the virtual-time asyncio loop (VLoop), the wire messages, '
        'harness/c06.py make_protocol/FakeSock (real Protocol.read_message on a scripted socket)',
        'modelled, not verified: the consultation order of Peer._main (Model_Timer.main_iter), asyncio.wait_for '
        'semantics for the open wait (Model_Timer.read_open_wait; timeout wins a tie, ties not generated)',
    ]
    run.assumptions = [
        'the readings of int(time.time()) never decrease (time.time() is not monotonic: a clock stepped backwards is outside the schedules)',
        'the loop gap delta (time between two consultations of the same timer) is a parameter of the theorems; that the '
        'asyncio loop keeps it small while a long outbound batch is written (25 UPDATE groups per iteration, blocking '
        'sock_sendall) is NOT proved; it is measured by C05 (evidence/C05.json coverage.loop_gap_delta_measured_s); here one '
        'H-peer scenario holds the loop up longer than H and checks that a peer that keeps sending is not closed',
        'the time new_keepalive() takes between need_ka() returning True and the bytes reaching the transport is not modelled',
    ]
    common.standard_build(run, ['T3'])

    rng = random.Random(seed)
    objs, proto = classify_wire()
    wire_class = {k: fields_of(o) for k, o in objs.items()}
    run.coverage['wire_classification'] = {k: {'TYPE': v[0], 'SCHEDULING': v[1], 'class': type(objs[k]).__name__} for k, v in wire_class.items()}

    # ---- cases
    per_hold = 110 if tier == 'quick' else 2400
    cases = []
    for H in HOLDS:
        for _ in range(per_hold):
            cases.append(gen_case(rng, H))
    # the loop held up: late calls of the hold timer, with and without a message in hand
    n_late = 0
    for c in late_sweep(rng):
        cases.append(c)
        n_late += 1
    for H in HOLDS:
        if H:
            for _ in range(12 if tier == 'quick' else 300):
                cases.append(gen_late(rng, H))
                n_late += 1
    L = 2 if tier == 'quick' else 3
    exhaustive = 0
    for H in (0, 3, 4) if tier == 'quick' else (0, 3, 4, 9):
        for c in small_scope(H, L):
            cases.append(c)
            exhaustive += 1

    results, items, fails = [], [], []
    hist = collections.Counter()
    modes = collections.Counter()
    kinds = collections.Counter()
    margin = collections.Counter()
    after_silence = collections.Counter()
    for idx, case in enumerate(cases):
        res = run_impl(case, objs)
        results.append(res)
        items.append(coq_case(case, res))
        modes[case['mode']] += 1
        for st, row in zip(case['steps'], res['rows']):
            kind = st[1]
            kinds[kind] += 1
            hist[{0: 'quiet', 1: 'keepalive-sent', 2: f'notify-{row[1]}/{row[2]}'}[row[0]]] += 1
        for sig, what, i in oracle(case, res, objs):
            fails.append((sig, what, idx))
        for fl, row in zip(after_silence_flags(case, res), res['rows']):
            if fl:
                after_silence['closed-4/0' if row[0] == 2 else 'carried-on'] += 1
        # how close to the boundary the checks come (integer readings)
        if case['H'] > 0:
            for (c, ty, sc, n), row in zip(res['calls'], res['rows']):
                dlt = c - row[3] - case['H']
                if -2 <= dlt <= 2:
                    margin[f'elapsed-H={dlt}:{"fires" if row[0] == 2 else "open"}'] += 1

    ok, (bad, pbad), log = evaluate(run, 'c12', items, ('okc', 'okp'))
    run.obligation('model evaluation (vm_compute of Gen_Timer.check_ka/need_ka/.. and Model_Timer.run_main on every case) ran', ok, log)
    first = ''
    if bad:
        c = cases[bad[0]]
        first = json.dumps({'case': c, 'impl': results[bad[0]]['rows'], 'init': results[bad[0]]['init']})[:1500]
    run.obligation(f'correspondence: real ReceiveTimer/SendTimer (every outcome and field after every call) = generated functions = '
                   f'loop model on {len(cases)} schedules', not bad, f'{len(bad)} disagreements; first: {first}')

    # the property searched on the regenerated model (this is what yields the witness schedule when a proof breaks)
    pfirst = ''
    if pbad:
        k = min(pbad, key=lambda i: len(results[i]['rows']))  # the shortest witness schedule
        c = cases[k]
        pfirst = json.dumps({'H': c['H'], 't_ka': c['t_ka'], 't_main': c['t_main'], 'steps': c['steps'][: len(results[k]['rows'])],
                             'model_and_implementation_rows': results[k]['rows'][-2:]})[:1500]
    run.obligation(f'property on the regenerated model: Model_Timer.run_main over Gen_Timer judged by the Spec_Timer bookkeeping '
                   f'(message in hand: no 4/0 unless the wire was silent for more than H before it; none: 4/0 iff last message > H old; KEEPALIVE every H/3; H = 0) on {len(cases)} schedules',
                   not pbad, f'{len(pbad)} schedules on which the generated code breaks C12; first: {pfirst}')
    model_witness = {i for i in pbad}

    # ---- direct calls on arbitrary states
    nd = 1500 if tier == 'quick' else 30000
    dcases = [gen_direct(rng) for _ in range(nd)]
    ditems = []
    fnum = {'check_ka_timer': 0, 'check_ka': 1, 'need_ka': 2}
    for d in dcases:
        exp = run_direct(d, objs)
        if d['fn'] == 'need_ka':
            k = exp[3]
            args = [k, d['lp'], d['lr'], 0, 0, 0, int(d['now']), 0, 0]
        else:
            obj_ty, obj_sc = (252, 2) if d['kind'] == 'none' else wire_class[d['kind']]
            if d['kind'] == 'none':
                from exabgp.bgp.message import _NOP

                obj_ty, obj_sc = fields_of(_NOP)
            args = [d['h'], d['lp'], d['lr'], d['code'], d['sub'], d['sg'], int(d['now']), obj_ty, obj_sc]
        ditems.append(f'({fnum[d["fn"]]}, {zl(args)}, {zl(exp)})')
    ok, dbad, log = evaluate(run, 'c12d', ditems, 'okd', per=500)
    run.obligation('model evaluation of the direct calls ran', ok, log)
    run.obligation(f'correspondence: each generated function = its method on {nd} arbitrary object states (incl. hold times 1, 2, '
                   'clock behind last_read, boundary readings)', not dbad,
                   f'{len(dbad)} disagreements; first: {json.dumps(dcases[dbad[0]]) if dbad else ""}')

    # ---- HoldTime.keepalive: every value
    from exabgp.bgp.message.open.holdtime import HoldTime

    kbad = [h for h in range(0, 65536) if HoldTime(h).keepalive() != h // 3 or type(HoldTime(h).keepalive()) is not int]
    run.obligation('HoldTime(h).keepalive() == h // 3 for every h in 0..65535 (the reading of int(self / 3) used by the translator)',
                   not kbad, f'first: {kbad[:5]}')
    ks = sorted(set(HOLDS + [1, 2, 5, 6, 7, 8, 65534] + [rng.randrange(65536) for _ in range(300)]))
    ok, kb, log = evaluate(run, 'c12k', [f'({h}, {HoldTime(h).keepalive()})' for h in ks], 'okk', per=1000)
    run.obligation(f'correspondence: generated holdtime_keepalive = HoldTime.keepalive on {len(ks)} hold times', ok and not kb, log or str(kb[:5]))
    if HoldTime.MIN != 3 or HoldTime.MAX != 65535:
        run.obligation('hold time domain of the theorems (0, 3..65535) is the one of the code', False, f'{HoldTime.MIN}..{HoldTime.MAX}')

    # ---- open wait
    no = 120 if tier == 'quick' else 1500
    ocases = [gen_open(rng) for _ in range(no)]
    oitems, ofails = [], []
    kcode = {'nothing': 0, 'open': 1, 'other': 2}
    for oc in ocases:
        got = run_open_wait(oc, objs, proto)
        for sig, what in open_oracle(oc, got):
            ofails.append((sig, what, oc))
        W = round(oc['wait'] / TICK)
        ev = oc['events'] + [[10 * W + 80_000_000, 'nothing']]  # the script ends: nothing more arrives
        e = [1, got[1]] if got[0] == 'got' else [2, got[1], got[2], got[3]]
        oitems.append(f'({W}, [' + ';'.join(f'({d},{kcode[k]})' for d, k in ev) + f'], {zl(e)})')
    ok, obad, log = evaluate(run, 'c12o', oitems, 'oko', per=500)
    run.obligation('model evaluation of the open-wait cases ran', ok, log)
    run.obligation(f'correspondence: real Peer._read_open/Protocol.read_open on a virtual-time loop = Model_Timer.read_open_wait = '
                   f'Spec_Timer.open_expected on {no} arrival scripts', not obad,
                   f'{len(obad)} disagreements; first: {json.dumps(ocases[obad[0]]) if obad else ""}')

    # ---- H-peer: the real Peer._main held up longer than H by a blocked write while the scripted peer keeps sending
    hp_fail = []
    hp_rows = []
    try:
        for hold, block in ((3, 4.5), (9, 12.0)) if tier == 'quick' else ((3, 4.5), (3, 31.0), (9, 12.0), (30, 61.0), (90, 95.0)):
            row = hpeer_held_up(hold, block)
            hp_rows.append(row)
            if row['session_ended_during_batch'] or row['notifications']:
                hp_fail.append(row)
        hp_ok, hp_detail = not hp_fail, str(hp_fail or hp_rows)[:900]
    except Exception as exc:
        hp_ok, hp_detail = False, f'{type(exc).__name__}: {exc}'
    run.coverage['hpeer_loop_held_up'] = hp_rows
    run.obligation('H-peer (harness/hpeer.py rig, real Peer/Protocol/timers under virtual time): a write of the outbound batch blocks '
                   'longer than H while the remote speaker sends a KEEPALIVE every H/3 s: the session stays established, no NOTIFICATION',
                   hp_ok, hp_detail)

    # ---- H-peer: the two speakers propose DIFFERENT hold times (ours 180); the timers must run on the negotiated one
    asym_rows, asym_fail = hpeer_asymmetric(tier)
    run.coverage['hpeer_asymmetric_hold'] = asym_rows
    run.obligation('H-peer: hold times proposed by the two OPENs differ (ours 180, peer 9 / 30 / 0): KEEPALIVEs go out every '
                   'negotiated H/3 (none for H = 0), and a silence shorter than the negotiated H - counted from the last '
                   'message, the KEEPALIVE that completed the handshake included - does not close the session',
                   not asym_fail, str(asym_fail or asym_rows)[:900])
    for row in asym_fail[:2]:
        run.fail_case('hpeer-asymmetric:' + row['problem'].split(':')[0], row['problem'], {'hpeer_asymmetric': row['name'], 'script': row['script']})

    # ---- property oracle
    run.obligation(f'property oracle: hold timer (4/0 iff silence > H, judged in real time on the wire), KEEPALIVE spacing, H = 0, '
                   f'on the raw outcomes of {len(cases)} schedules', not fails,
                   f'{len(fails)} failing; first: {fails[0][:2] if fails else ""}')
    run.obligation(f'property oracle: 5/1 exactly when no OPEN arrives within the wait, on {no} arrival scripts', not ofails,
                   f'{len(ofails)} failing; first: {ofails[0][:2] if ofails else ""}')
    seen = set()
    # the finding whose witness shows a peer that kept sending comes first
    fails.sort(key=lambda f: (f[0] != 'hold-early:message-in-hand', len(cases[f[2]]['steps'])))  # stable
    for sig, what, idx in fails:
        if sig in seen:
            continue
        seen.add(sig)
        small = shrink(cases[idx], sig, objs)
        res = run_impl(small, objs)
        what2 = next((w for s, w, _ in oracle(small, res, objs) if s == sig), what)
        run.fail_case(sig, what2, {k: small[k] for k in ('H', 't_rt', 't_ka', 't_main', 'steps')})
    for sig, what, oc in ofails:
        if sig in seen:
            continue
        seen.add(sig)
        run.fail_case(sig, what, oc)
    for row in hp_fail[:1]:
        run.fail_case('hold-early:loop-held-up:hpeer',
                      f'hold time {row["hold"]}: a write blocked for {row["block_s"]} s while the peer sent a KEEPALIVE every '
                      f'{max(row["hold"] / 3.0, 0.5)} s: session left ESTABLISHED, NOTIFICATION(s) written: {row["notifications"]}',
                      {'hpeer': {'hold': row['hold'], 'block_s': row['block_s']}})
    # a schedule that breaks the property on the model but not on the implementation would be a correspondence failure (reported above)
    run.coverage['model_property_witnesses'] = len(model_witness)

    distinct = {(c['H'], json.dumps(c['steps'])) for c in cases if len(c['steps']) >= 3}
    run.coverage.update({
        'evaluations': len(cases) + nd + no + 65536,
        'distinct_nontrivial': len(distinct),
        'late_call_schedules': n_late,
        'message_after_wire_silence': {'what': 'calls that hand over a message after the wire had been silent for more than H (loop held '
                                               'up): the property allows either outcome', **dict(after_silence)},
        'rule': f'{per_hold} random schedules (modes steady/silent/boundary/burst/slow/ignored; fractional seconds on a 1/8 s grid; '
                f'4..36 iterations) for each hold time of {HOLDS} + {n_late} schedules with a late call of the hold timer (gap H-1, H, H+1, '
                '2H, 10H since the previous call; message queued while the peer kept sending / fresh / none; every message kind) '
                f'+ every schedule of length {L} over '
                '{dt in 0,1,K,H,H+1} x {nothing, KEEPALIVE, UPDATE} x {dk in 0,1} for small hold times '
                f'({exhaustive} runs, exhaustive for that scope) + {nd} direct calls on arbitrary states + {no} open-wait scripts + '
                'keepalive() on all 65536 hold times; non-trivial = distinct (hold time, schedule) with at least 3 iterations',
        'exhaustive_small_scope': {'length': L, 'runs': exhaustive},
        'schedule_modes': dict(modes),
        'inbound_kinds': dict(kinds),
        'outcomes': dict(hist),
        'checks_near_hold_boundary': dict(margin),
        'exhaustive': False,
    })
    run.samples.append({'case': {k: cases[0][k] for k in ('H', 't_rt', 't_ka', 't_main')}, 'steps': cases[0]['steps'][:6],
                        'rows': results[0]['rows'][:6]})
    run.notes.append('loop gap delta is a hypothesis (paced) of C12_hold_fires_within / C12_keepalive_interval; its size on the real '
                     'event loop is not measured by this check (see assumptions).')
    if run.broken() and not run.failing:
        run.coverage['search'] = (f'{len(cases)} schedules (incl. all of length {L} over the small alphabet) and {no} open-wait scripts '
                                  'judged by the property oracle; none failed')
    return run.finish(checker_cmd='make -C coq props/Prop_C12.vo && coqc -Q coq ExaV coq/props/Prop_C12.v (Print Assumptions)')
